"""Engine self-test: interpret the whole WSGI request path concretely and compare with CPython."""
import sys, os, io, json, logging, warnings
sys.path.insert(0, os.path.dirname(os.path.dirname(os.path.abspath(__file__))))
warnings.filterwarnings('ignore'); logging.disable(logging.CRITICAL)
from pyvc.path import Path
from pyvc.interp import Interp
from spyne import Application, ServiceBase, rpc, Fault
from spyne.model.primitive import Integer, Unicode, DateTime
from spyne.model.complex import ComplexModel, Array
from spyne.protocol.http import HttpRpc
from spyne.protocol.json import JsonDocument
from spyne.protocol.soap import Soap11
from spyne.protocol.xml import XmlDocument
from spyne.server.wsgi import WsgiApplication

class P(ComplexModel):
    a = Integer
    b = Unicode
    c = Array(Integer)

class S(ServiceBase):
    @rpc(Integer, Unicode, _returns=Unicode)
    def hello(ctx, n, s):
        return '%s:%d' % (s, n)
    @rpc(P, _returns=P)
    def echo(ctx, p):
        return p
    @rpc(Integer, _returns=Integer)
    def boom(ctx, n):
        if n == 1: raise Fault('Client.Custom', 'custom')
        raise RuntimeError('secret')

def mk(inp, outp):
    return WsgiApplication(Application([S], 'tns', in_protocol=inp, out_protocol=outp))

def env(method='GET', path='/hello', qs='', body=b'', ctype='text/plain'):
    return {'REQUEST_METHOD': method, 'PATH_INFO': path, 'QUERY_STRING': qs, 'SERVER_NAME': 'h', 'SERVER_PORT': '80',
            'wsgi.url_scheme': 'http', 'wsgi.input': io.BytesIO(body), 'CONTENT_LENGTH': str(len(body)), 'CONTENT_TYPE': ctype}

def native(app, e):
    out = []
    def sr(st, hd, exc=None): out.append((st, sorted(hd)))
    body = b''.join(app(e, sr))
    return out, body

def interp(app, e):
    out = []
    def sr(st, hd, exc=None): out.append((st, sorted(hd)))
    p = Path([], [], dict(queries=0, solver_s=0.0))
    it = Interp(p)
    r = it.call(app, (e, sr), {})
    body = b''.join(r)
    return out, body, it

cases = []
cases.append(('httprpc-json', lambda: mk(HttpRpc(), JsonDocument()), lambda: env(path='/hello', qs='n=5&s=xy')))
cases.append(('httprpc-json-fault', lambda: mk(HttpRpc(), JsonDocument()), lambda: env(path='/boom', qs='n=1')))
cases.append(('httprpc-json-exc', lambda: mk(HttpRpc(), JsonDocument()), lambda: env(path='/boom', qs='n=2')))
cases.append(('httprpc-json-404', lambda: mk(HttpRpc(), JsonDocument()), lambda: env(path='/nope', qs='n=2')))
cases.append(('httprpc-soft-invalid', lambda: mk(HttpRpc(validator='soft'), JsonDocument()), lambda: env(path='/hello', qs='n=abc&s=xy')))
cases.append(('json-json', lambda: mk(JsonDocument(), JsonDocument()), lambda: env('POST', '/', body=json.dumps({'echo': {'p': {'a': 1, 'b': 'x', 'c': [1, 2]}}}).encode())))
cases.append(('json-bad', lambda: mk(JsonDocument(), JsonDocument()), lambda: env('POST', '/', body=b'{"echo": ')))
soap = b'''<soap11env:Envelope xmlns:soap11env="http://schemas.xmlsoap.org/soap/envelope/" xmlns:tns="tns"><soap11env:Body><tns:echo><tns:p><tns:a>1</tns:a><tns:b>x</tns:b><tns:c><tns:integer>1</tns:integer><tns:integer>2</tns:integer></tns:c></tns:p></tns:echo></soap11env:Body></soap11env:Envelope>'''
cases.append(('soap11', lambda: mk(Soap11(), Soap11()), lambda: env('POST', '/', body=soap, ctype='text/xml')))
cases.append(('soap11-soft', lambda: mk(Soap11(validator='soft'), Soap11()), lambda: env('POST', '/', body=soap, ctype='text/xml')))
cases.append(('soap11-lxml', lambda: mk(Soap11(validator='lxml'), Soap11()), lambda: env('POST', '/', body=soap, ctype='text/xml')))
cases.append(('xml', lambda: mk(XmlDocument(), XmlDocument()), lambda: env('POST', '/', body=b'<tns:hello xmlns:tns="tns"><tns:n>5</tns:n><tns:s>q</tns:s></tns:hello>', ctype='text/xml')))
cases.append(('wsdl', lambda: mk(Soap11(), Soap11()), lambda: env('GET', '/', qs='wsdl')))
bad = 0
for name, mkapp, mkenv in cases:
    n = native(mkapp(), mkenv())
    try:
        i = interp(mkapp(), mkenv())
    except BaseException as ex:
        import traceback
        print(name, 'INTERP-ERROR', type(ex).__name__, ex)
        traceback.print_exc(limit=-6)
        bad += 1
        continue
    ok = (n[0] == i[0] and n[1] == i[1])
    print(name, 'OK' if ok else 'DIFF', n[0][0][0] if n[0] else None, len(n[1]), 'funcs interpreted:', len(i[2].funcs_seen), 'steps', i[2].steps)
    if not ok:
        bad += 1
        print('  native', n[0], n[1][:300]); print('  interp', i[0], i[1][:300])
sys.exit(1 if bad else 0)
