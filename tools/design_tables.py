#!/usr/bin/env python3
"""Regenerates the tables of DESIGN.md section 8 from known_findings.jsonl and seeded/ (between the markers)."""
import json, os, re, subprocess
ROOT = os.path.dirname(os.path.dirname(os.path.abspath(__file__)))


def esc(t):
    return t.replace('|', '\\|').replace('\n', ' ')


def main():
    rows = [json.loads(l) for l in open(os.path.join(ROOT, 'known_findings.jsonl')) if l.strip()]
    fixes = ["| property | commit | what failed | obligation |", "|---|---|---|---|"]
    for r in sorted((r for r in rows if r['status'] == 'fixed'), key=lambda r: r['property']):
        what = re.sub(r'^fixed: property=\S+ (?:[0-9a-f]{7} )?', '', r['what'])
        fixes.append("| %s | `%s` | %s | `%s` |" % (r['property'], r.get('commit', ''), esc(what), r.get('obligation', '')))
    opens = ["| property | finding | what fails | why not repaired / region |", "|---|---|---|---|"]
    for r in rows:
        if r['status'] == 'open':
            opens.append("| %s | `%s` | %s | region: %s |" % (r['property'], r['finding'], esc(r['what']), esc(r.get('witness_region', ''))))
    seeds = ["| seed | change (file: summary) | quick check verdict | first failing obligation |", "|---|---|---|---|"]
    sd = os.path.join(ROOT, 'seeded')
    for d in sorted(os.listdir(sd)):
        mp = os.path.join(sd, d, 'meta.json')
        if not os.path.exists(mp):
            continue
        m = json.load(open(mp))
        notes = m.get('needs_to_manifest', '')
        title = notes.strip().splitlines()[0].lstrip('# ').strip() if notes.strip() else ''
        files = sorted(set(re.findall(r'^\+\+\+ b/(\S+)', open(os.path.join(sd, d, 'patch.diff')).read(), re.M)))
        out = os.path.join(sd, d, 'last_check_output.txt')
        verdict, first = 'not run', ''
        if os.path.exists(out):
            txt = open(out).read()
            rc = re.search(r'exit=(\d+)', txt)
            v = re.findall(r'^VIOLATION property=\S+ replay=replay/\S+?/(\S+?)\.json(.*)$', txt, re.M)
            verdict = {'1': 'caught (exit 1)', '0': 'MISSED (exit 0)', '2': 'undecided (exit 2)', '3': 'checker error (exit 3)'}.get(
                rc.group(1) if rc else '', 'not run')
            if v:
                first = '`%s`%s' % (v[0][0].replace('__', '#'), ' (no-failing-input-found)' if 'no-failing' in v[0][1] else '')
        seeds.append("| %s | %s: %s | %s | %s |" % (d, ', '.join(f.replace('spyne/', '') for f in files), esc(title[:110]), verdict, first))
    p = os.path.join(ROOT, 'DESIGN.md')
    s = open(p).read()
    for key, tab in (('FIXES', fixes), ('OPEN', opens), ('SEED', seeds)):
        a, b = '<!-- %s:BEGIN -->' % key, '<!-- %s:END -->' % key
        i, j = s.index(a) + len(a), s.index(b)
        s = s[:i] + '\n' + '\n'.join(tab) + '\n' + s[j:]
    open(p, 'w').write(s)
    print("tables written:", len(fixes) - 2, "fixes,", len(opens) - 2, "open,", len(seeds) - 2, "seeds")


if __name__ == '__main__':
    main()
