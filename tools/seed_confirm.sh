#!/bin/sh
# usage: seed_confirm.sh <property> <n> <source dir with patch.diff demo.py notes.md>
# Confirms a seeded regression in a scratch worktree of /repo HEAD and, if confirmed, stores it under seeded/<property>-<n>/.
set -u
P="$1"; N="$2"; SRC="$3"
W=/tmp/confirm/$P-$N
rm -rf "$W"; mkdir -p /tmp/confirm
git -C /repo worktree add -q --detach "$W" HEAD || exit 2
run_demo() { (cd "$W" && PYTHONPATH="$W" PYTHONDONTWRITEBYTECODE=1 timeout 300 /venv/bin/python "$SRC/demo.py" >$W.demo.out 2>&1; echo $?); }
CLEAN=$(run_demo)
if ! git -C "$W" apply --check "$SRC/patch.diff" 2>$W.apply.err; then
  echo "$P-$N: patch does not apply to HEAD: $(head -2 $W.apply.err | tr '\n' ' ')"; git -C /repo worktree remove --force "$W"; exit 1
fi
git -C "$W" apply "$SRC/patch.diff"
BROKEN=$(run_demo)
TESTS=$(cd "$W" && PYTHONPATH="$W" PYTHONDONTWRITEBYTECODE=1 /venv/bin/python -m pytest -q -p no:cacheprovider --timeout=900 --continue-on-collection-errors --junitxml=$W.j.xml 2>&1 | tail -1)
MISSING=$(JX=$W.j.xml /venv/bin/python - <<'PY'
import json, xml.etree.ElementTree as ET
want=set(json.load(open('/root/.vp/BASELINE.json'))['stable_pass'])
passed=set()
for tc in ET.parse(__import__("os").environ["JX"]).iter('testcase'):
    if not any(c.tag in ('failure','error','skipped') for c in tc):
        passed.add(tc.get('classname')+'::'+tc.get('name'))
print(len(want-passed))
PY
)
git -C /repo worktree remove --force "$W"
echo "$P-$N: demo clean=$CLEAN broken=$BROKEN tests: $TESTS missing_stable=$MISSING"
if [ "$CLEAN" = 0 ] && [ "$BROKEN" = 1 ] && [ "$MISSING" = 0 ]; then
  D=/verif/seeded/$P-$N; mkdir -p "$D"; cp "$SRC/patch.diff" "$SRC/demo.py" "$D/"; [ -f "$SRC/notes.md" ] && cp "$SRC/notes.md" "$D/"
  /venv/bin/python - "$P" "$N" "$TESTS" <<'PY'
import json,sys,os
p,n,tests=sys.argv[1:4]
d='/verif/seeded/%s-%s'%(p,n)
notes=open(d+'/notes.md').read() if os.path.exists(d+'/notes.md') else ''
json.dump(dict(property=p, id='%s-%s'%(p,n), breaks=p, needs_to_manifest=notes[:1500],
  confirmed=dict(demo_exit_on_clean_head=0, demo_exit_with_patch=1, test_suite_with_patch=tests, stable_pass_missing=0,
  how="scratch worktree of /repo HEAD under /tmp/confirm, PYTHONPATH set to it; baseline pytest command; worktree removed afterwards")),
  open(d+'/meta.json','w'), indent=1)
PY
  echo "  kept as seeded/$P-$N"
else
  echo "  NOT kept"
fi
