#!/bin/sh
# usage: seed_run_par.sh <stream> ids...  -- each stream has its own copy of /verif and its own worktree of /repo
S=$1; shift
V=/tmp/vpar$S; W=/tmp/wpar$S
rm -rf $V; mkdir $V; rsync -a --exclude .git --exclude .venv /verif/ $V/
git -C /repo worktree remove --force $W 2>/dev/null; git -C /repo worktree add -q --detach $W HEAD
cd $V
for id in "$@"; do
  P=$(echo $id | cut -d- -f1)
  if ! git -C $W apply --check $V/seeded/$id/patch.diff 2>/dev/null; then echo "$id: patch does not apply"; continue; fi
  git -C $W apply $V/seeded/$id/patch.diff
  T0=$(date +%s)
  OUT=$(PYTHONPATH=$W PYTHONDONTWRITEBYTECODE=1 PYTHONHASHSEED=0 VERIF_JOBS=8 /verif/.venv/bin/python -m pyvc.cli $P --tier quick 2>&1); RC=$?
  git -C $W checkout -- . ; git -C $W clean -fdq spyne 2>/dev/null
  NV=$(echo "$OUT" | grep -c '^VIOLATION')
  FIRST=$(echo "$OUT" | grep '^VIOLATION' | head -1)
  UND=$(echo "$OUT" | grep -c '^UNDECIDED')
  echo "$id: exit=$RC violations=$NV undecided=$UND $(($(date +%s)-T0))s  $FIRST"
  printf '%s\n' "$OUT" | grep '^VIOLATION\|^UNDECIDED\|^CHECKER' | head -8 > /verif/seeded/$id/last_check_output.txt
  echo "exit=$RC" >> /verif/seeded/$id/last_check_output.txt
done
git -C /repo worktree remove --force $W; rm -rf $V
