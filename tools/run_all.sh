#!/bin/sh
# Runs every registered quick check on the unchanged tree (refreshes evidence/); refuses to run on a dirty /repo.
cd /verif
[ -z "$(git -C /repo status --porcelain)" ] || { echo "/repo is dirty"; exit 2; }
RC=0
for p in $(.venv/bin/python -c "import json; print(' '.join(c['property_id'] for c in json.load(open('MANIFEST.json'))['checks']))"); do
  bin/check $p --tier ${1:-quick} > /tmp/run_all.$p.out 2>&1; rc=$?
  printf '%s exit=%s %s\n' $p $rc "$(grep '^C[0-9][0-9] tier' /tmp/run_all.$p.out | cut -c1-110)"
  [ $rc -eq 0 ] || { RC=1; grep '^VIOLATION\|^UNDECIDED\|^CHECKER' /tmp/run_all.$p.out | head -5; }
  rm -f /tmp/run_all.$p.out
done
exit $RC
