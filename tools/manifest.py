#!/usr/bin/env python3
"""Regenerates MANIFEST.json from the table below (kept in one place so it is always valid)."""
import json, os
ROOT = os.path.dirname(os.path.dirname(os.path.abspath(__file__)))

CLAIMED = {
    # id: (text, note, technique, design_ref)
    'C05': ("Contracts on the real validate_native/validate_string chains and enforcement points; every clause is a VC "
            "generated from the current source by symbolic execution of the function's AST and discharged by z3 for all "
            "values and all facet customisations at once. DateTime / Date / Time validate_native proved with symbolic calendar fields against 13 bound configurations (ordering model of the time types); a complex argument with inherited occurrence constraints goes through all seven protocols. HttpRpc(strict_arrays=True) is an eighth pipeline configuration, with a repeated complex member; math.isnan is modelled with its OverflowError for integers >= 2**1024.",
            "pyvc engine, z3; facets integer-valued; dispatch closed-world; see evidence.assumptions",
            "contract-based deductive verification: VCs from the Python AST of the live functions, z3/cvc5",
            "DESIGN.md section 4 C05"),
    'C13': ("Loop-invariant proof (z3, unbounded) of the bounded body reader for all limits, block sizes, declared lengths "
            "and stream behaviours; PEP 3333 obligations as ghost-trace VCs over every path of the real handle_rpc / "
            "handle_error / handle_wsdl_request / __finalize bodies with the user function, the client (abort) and the "
            "request kind havocked. Also: a raising wsgi_close / method_context_closed listener does not make the context close twice under the server's mandatory close(); the constructor stores every max_content_length >= 0 and block_length > 0 unchanged (symbolic, 0 means 0). Redirects (HttpRedirect 301/302/303), oversize and non-numeric Content-Length as request kinds, MessagePack-RPC as a fifth family.",
            "wsgi.input.read(n) returns <= n bytes; WSGI server calls close(); listeners return; concrete one-method app",
            "contract-based deductive verification: inductive invariant + per-path ghost-trace VCs from the live AST, z3",
            "DESIGN.md section 4 C13"),
    'C14': ("Event-trace contract (specification automaton) checked on every symbolic path of the real request pipeline "
            "(WsgiApplication.__call__ and everything below it, interpreted from the working tree) with a fork at every "
            "havocked party: request kind x single failing listener (Fault / non-Fault, application/service/method level) "
            "x user-function outcome, for seven protocol families. A second event manager on the same method is served like the first, and service / method managers see every event of the call from method_call on. The same contract is checked through a plain ServerBase driven like the package's message transports, for seven families, and for MessagePack-RPC over WSGI.",
            "listeners of exception/closed events return normally; one context per request; see evidence.assumptions",
            "contract-based verification: per-path ghost-trace VCs over the interpreted real pipeline (havocked callees fork)",
            "DESIGN.md section 4 C14"),
    'C09': ("Classification contract fault_to_http_response_code(f) == documented status proved for an arbitrary (symbolic) "
            "fault code string and every fault class, for each output protocol; fault serialisers proved to carry code and "
            "message verbatim; funnel/identity/no-leak obligations as per-path VCs over the real process_request / "
            "handle_error / serialize bodies with the user function and listeners havocked (Fault, non-Fault of several "
            "shapes), responses decoded by reference decoders. Bounded: 14 hostile message texts (markup, entities, CDATA, blanks, non-BMP, 3000 characters) x 6 codes arrive unchanged over all seven protocols. Positional (complex_as=list/tuple) fault documents are decoded too; user code raises 11 kinds of exceptions incl. TypeError, a subclass of it, ValueError, KeyError, UnicodeDecodeError; MessagePack-RPC is an eighth family.",
            "z3 sequence theory for startswith/==; concrete representative faults in the pipeline part; traceback mode off",
            "contract-based deductive verification: VCs over z3 strings from the live AST + per-path trace VCs",
            "DESIGN.md section 4 C09"),
    'C11': ("Lookup contract of get_call_handles proved for an arbitrary (symbolic) requested name against a routing table "
            "with adversarially similar names (exact string equality => no near-miss match); per-operation contract of the "
            "routing-table insertion over all abstract pre-states; context generation; order independence and near-miss "
            "requests through the real pipeline (bounded enumeration, labelled). Proved as well: the dict-document method request string is '{tns}' + the key taken whole (symbolic key), and match_pattern selects a literal address pattern iff path and verb are exactly the registered ones (symbolic path, regex model incl. '$' before a final newline). Bounded additions: two same-named services from one factory are rejected; a header block quoting another SOAP Body does not name the method.",
            "z3 sequence theory for '{%s}%s' formatting and dict lookup by equality; concrete service sets",
            "contract-based deductive verification: VCs over z3 strings from the live AST; case analysis of pre-states",
            "DESIGN.md section 4 C11"),
    'C03': ("Unbounded proof of the sparse-to-contiguous index inserter _s2cmi over symbolic maps (rank-map invariant, "
            "inductive invariant over the set of visited keys, quantified VCs discharged by z3 with a Skolem inverse); the "
            "surrounding simple_dict_to_object / object_to_simple_dict round trip, the query-string parser and the "
            "primitive response are bounded stand-ins (stated bounds, listed separately, not counted as proved). Declared HTTP response headers (14 integer / text / date-time triples incl. zone conversions across day, month and year boundaries) carry the HTTP-date of the instant. Also: members renamed with sub_name two and three levels down the flat keys; text types with a declared encoding as primitive results, with Content-Length.",
            "dict iteration visits each key once; bounded parts: see evidence.coverage.bounded",
            "contract-based deductive verification (loop invariant over z3 arrays) + labelled bounded stand-ins",
            "DESIGN.md section 4 C03"),
    'C17': ("Configuration-flow contracts on Spyne's side: safe constructor defaults read from the live signature; "
            "__init__ proved to store every parser flag unchanged (symbolic flags); every path of every "
            "create_in_document proved to hand each parse call a parser built in that call from exactly "
            "self.parser_kwargs (callee models of lxml's factory and parse entry points); no store to parser_kwargs on the "
            "request path (frame hook). lxml honouring the flags is assumed and audited by a canary corpus (bounded). The flow obligation covers the HTTP branches (text/xml, soap+xml, multipart/related, missing Content-Type, wrong verb); the canary corpus includes a 2000-deep nesting bomb, plain and as root part of a multipart request. Frame and audit obligations run under every validator setting (None, soft, lxml) so that set_app is covered; DTD attribute defaults are in the corpus.",
            "lxml/libxml2 honour the parser flags (audited, not proved); bounded time/memory clause not decided",
            "contract-based deductive verification: configuration-flow VCs with callee models + frame hook",
            "DESIGN.md section 4 C17"),
    'C08': ("Round-trip and lexical-space contracts proved symbolically (unbounded) for the integer family, DateTime "
            "(naive/UTC/every offset at once), Date, Time and Duration: the real encoder's output is kept as a token "
            "string (literals + decimal renderings of integer terms), checked structurally against the XSD production, "
            "and fed to the real decoder (regexes matched token-wise, int()/Decimal() of tokens as linear arithmetic); "
            "lexical-coverage obligations run the decoder on generated literals of the XSD sub-language. The float "
            "sub-lemma is settled by exhaustive enumeration (finite lemma, listed separately). Decimal, Double, Boolean, "
            "ByteArray, Uuid, Unicode are bounded stand-ins over representative values. xs:time literals with zone designators are proved readable (token strings); blank-only and markup-like texts survive as element content (bounded).",
            "CPython int/str/isoformat/datetime contracts (pyvc/timemodel.py); token-walk = leftmost-priority matching "
            "for the fixed-structure patterns; open known findings listed in known_findings.jsonl",
            "contract-based deductive verification: token-string VCs in linear integer arithmetic (z3) from the live AST",
            "DESIGN.md section 4 C08"),
    'C10': ("Leaf level (proved, symbolic): every primitive decoder on an arbitrary string (z3 string) and on every literal "
            "matching its pattern with unconstrained digit fields returns or raises a Client-family Fault -- stdlib calls "
            "are modelled with their documented raise-sets and every raising fork must be converted by the code around "
            "it. Structure level (bounded, labelled): the real pipeline on every value kind at every argument position, "
            "25 XML mutations x 3 validators, every prefix truncation, byte-level and transport-level hostile inputs. Also: NaN / sNaN / infinities, seven xsi:type malformations and 14 multipart/related (SwA) request forms. Truncations run under four ways of announcing the encoding; MessagePack-RPC and a plain ServerBase (no HTTP) are covered as well.",
            "assumed raise-sets of int/float/Decimal/date/time/b64decode/unhexlify/UUID/strptime and of the "
            "lxml/json/yaml/msgpack parsers; regex match outcome forked where the pattern is not translated",
            "contract-based deductive verification: exceptional postconditions with may-raise callee models + bounded "
            "structure-aware enumeration through the interpreted pipeline",
            "DESIGN.md section 4 C10"),
    'C04': ("Result-type contract of from_element proved by complete case analysis over the class registry of a "
            "verification interface (every declared x named class pair, both validators): the handler is entered only "
            "with a class derived from the declared one, or ValidationError; scalar kind handlers (_ret_number, _ret_bool) "
            "proved over the complete partition of value kinds with a symbolic integer. Bounded (labelled): every value "
            "kind at every argument position for JSON/YAML/MessagePack, xsi:type retagging of 12 positions x 15 type names "
            "x 3 validators through the real pipeline, xsi:nil values, wrapper-key substitution. 126 odd literals of 12 primitive types over XML, SOAP and HttpRpc deliver a value of exactly the native type or nothing; the symbolic decoder obligations (C10 leaf) carry the same type clause for an arbitrary string. MessagePack-RPC is covered as a fourth dict-document family.",
            "closed world for protocol handler tables; one verification interface; bounded parts listed in the evidence",
            "contract-based verification: case analysis over live class-hierarchy facts + labelled bounded enumeration",
            "DESIGN.md section 4 C04"),
    'C15': ("Result contract of customize()/primitive call proved with symbolic constraint values for seven simple types "
            "(the new class carries exactly the requested values, inherits the rest, the original's attributes are the same "
            "objects). Frame and evolution contracts over bounded histories (labelled): every sequence of one and two "
            "operations from a 15-operation alphabet (customize, child_attrs, child_attrs_all, variants of variants, Array, "
            "Mandatory, subclassing, append/insert_field incl. pending child attributes) over a 13-model pool, every model "
            "snapshotted after every step against an expectation oracle written from the statement. Explicit field positions (order=...) give the documented order for the class, its variants and subclasses under every set iteration order (interpreted metaclass, order adversary; hash-seed replay). Mixin parents keep their declaration order; column options (pk, server_default, index) are part of the model pool.",
            "histories bounded to length 2 (each operation is checked to preserve every other model, which extends to any "
            "sequence by induction only for the observed attributes); registries _variants/_subclasses whitelisted",
            "contract-based deductive verification of result contracts (z3) + labelled bounded history enumeration",
            "DESIGN.md section 4 C15"),
    'C18': ("Argument-packing contract of NullServer's _FunctionCall.__call__ proved with symbolic argument values for 0..3 "
            "arguments and every positional/keyword call form (the user function receives exactly the given values, incl. "
            "falsy ones; the call returns what the function returned). Result unwrapping checked relationally (bounded, "
            "labelled): 22 calls over 12 signatures and all body styles compared with the same call over the JsonDocument "
            "wire path decoded by the documented conventions; auxiliary-method interplay. An Ignored return is delivered to the direct caller and is empty on the wire for wrapped / out_bare / bare styles x primitive / complex return types over JsonDocument, XmlDocument and Soap11. Faults with empty detail or empty string, from void and two-valued methods, are raised by NullServer as they are sent on the wire; Ignored with two return values.",
            "wire side compared through JsonDocument only (XmlDocument/Soap11 wire decoding is C01's)",
            "contract-based deductive verification of the packing loop (z3) + labelled bounded relational comparison",
            "DESIGN.md section 4 C18"),
    'C16': ("Contract of get_polymorphic_target decided by complete case analysis over a depth-3 class tree with a sibling "
            "branch (declared class, customised variant, array member) against the live class-hierarchy facts. Marker "
            "round trips (bounded, labelled): subclass instances returned where the base is declared, single and in a "
            "mixed array, polymorphic on/off, through the real pipeline of XmlDocument/Soap11/Soap12 and of "
            "JSON/YAML/MessagePack with wrapper keys: ancestors' fields first, type marker present and resolvable inside "
            "the transmitted document, the transmitted value sent back reconstructs the same subclass with equal fields. The tree has a member renamed with sub_name in the root, and the signatures also declare a customised variant of a non-root class and Array(non-root).",
            "one class tree (subclasses in the namespace of their base); bounded parts listed in the evidence",
            "contract-based deductive verification of the xsi:type marker resolution (z3 strings, VCs from the live AST) + case analysis over live class-hierarchy facts + labelled bounded round trips",
            "DESIGN.md section 4 C16"),
    'C01': ("Occurrence lemmas of the structural XML codec proved with symbolic min_occurs/max_occurs: "
            "_get_members_etree emits exactly the children the schema convention prescribes (nothing / one xsi:nil / one "
            "per item in order / one scalar, siblings in declaration order) and complex_from_element reads them back, "
            "rejecting under soft validation iff the count is out of bounds; leaf text forms are C08's lemmas. Bounded "
            "(labelled): requests built by an independent reference encoder for 6 generated signatures with boundary "
            "values through the real XmlDocument/Soap11/Soap12 pipeline x {None, soft, lxml} (user function invoked once "
            "with equal values; response read by an independent reference decoder denotes the returned value), SOAP "
            "headers, and the Spyne client looped back onto the server. Also bounded: 5 document encodings x declaration / charset parameter combinations deliver the exact text. Round 3 additions (bounded): three declared SOAP header classes in every subset and order; members renamed with sub_name in a base class and in a mixin-using subclass; values produced by the function itself (several byte chunks) checked by a strict reference decoder.",
            "lxml keeps order/text/attributes; the schema-driven third-party client clause is not decidable here (external "
            "program) -- C06's schema-truthfulness obligations are the in-family substitute",
            "contract-based deductive verification of occurrence lemmas (z3) + labelled bounded differential round trips",
            "DESIGN.md section 4 C01"),
    'C02': ("Proved (symbolic, every integer): MessagePack's integer split (the integer itself iff it fits the native "
            "range, else decimal text; the decoder inverts both) and the number pass-through handlers of JSON/YAML. "
            "Bounded (labelled): requests built by an independent reference encoder for generated signatures and boundary "
            "values (2**70, -2**63, 30-digit decimals, non-BMP text, empty containers) through the real pipeline of "
            "JSON/YAML/MessagePack x ignore_wrappers x complex_as {dict, list} x validator {None, soft} (MessagePack with "
            "str and bytes keys); the function is invoked once with equal values and the response read by an independent "
            "reference decoder denotes the returned values. The polymorphic setting (subclass instances under a base, a customised variant or Array(base)) is checked with C16's marker round trips. Also: produced values (multi-chunk bytes), renamed members; open finding for members that declare both sub_name and sub_ns.",
            "json/yaml/msgpack wire (de)serialisers are lossless on their own value model; positional form for fully "
            "populated objects only (as the property states)",
            "contract-based deductive verification of integer handlers (z3) + labelled bounded differential round trips",
            "DESIGN.md section 4 C02"),
    'C07': ("Proved (symbolic, every namespace string and every counter value): the prefix allocator "
            "get_namespace_prefix never rebinds a prefix or a namespace (tables gain exactly the requested binding). "
            "Determinism: the interface is populated and the documents are built by the interpreted real code while an "
            "adversary fixes the iteration order of every set (3 orders, labelled bounded); all orders must give "
            "byte-identical documents; violations are replayed natively in fresh processes under 4 hash seeds x shifted "
            "memory layouts. Closure and one-operation-per-method (bounded, labelled): an independent reference resolver "
            "over the WSDL of generated applications (custom operation/message names, one and several in/out headers from "
            "foreign namespaces, declared faults, port types, five namespaces, inheritance across namespaces, enumerations, "
            "all body styles). Foreign client (bounded, labelled): zeep generated from ?wsdl alone builds one request per "
            "method, the interpreted real server accepts it, zeep decodes bodies, output headers and a declared fault. Repeated builds (same builder, second builder, builder after the validation schema) give identical bytes; an application that binds the XSD namespace to another prefix is among the generated ones.",
            "generated applications are a bounded program space; zeep is assumed to implement WSDL 1.1/SOAP 1.1",
            "contract-based deductive verification of the prefix allocator (z3 strings) + order-adversary execution of the "
            "real builders + labelled bounded reference-resolver / foreign-client checks",
            "DESIGN.md section 4 C07"),
    'C06': ("Proved (symbolic facet values, every integer): the restriction emitters publish exactly the declared facets "
            "-- ge/gt/le/lt/total_digits of the integer family, min_len/max_len/pattern of Unicode, min_occurs/max_occurs/"
            "nillable/name/type/order of members -- each with the canonical literal of the declared value and no facet for "
            "a default; with C05 (soft validation == the declared constraint, proved) this yields lxml/soft agreement for "
            "every facet value, assuming libxml2 implements the XSD facets. Bounded (labelled): three generated type "
            "universes compile; every response of the real pipeline and every request of the Spyne client for conformant "
            "boundary values (C01's signatures, a 37-member facet type with enumerations on every primitive, binary "
            "encodings, choice group, cross-namespace inheritance, required attribute) validates against the generated "
            "schema; lxml and soft validation agree with each other and with an XSD reference predicate on 140 boundary "
            "probes x XmlDocument/Soap11/Soap12. Also bounded: schema evolution (insert_field / append_field on a class that already has variants), polymorphic responses over a 4-level hierarchy, lexical-form verdicts for 126 literals; open findings: sub_ns members are not published in their namespace, subclasses in a foreign namespace are not published, 24 lexical leniencies of soft validation, Decimal exponent notation.",
            "libxml2's XSD facet semantics assumed (audited by the probes); totalDigits/fractionDigits and use=required are "
            "published but have no soft-validation code (not 'implemented by both'); open known finding: Decimal exponent "
            "notation",
            "contract-based deductive verification of the schema emitters (z3, ghost attributes for lxml) + labelled bounded "
            "differential validation against the generated schema",
            "DESIGN.md section 4 C06"),
    'C12': ("REDUCED CLAIM -- contracts cannot quantify over schedules. Decided on the real code instead: the rely/guarantee "
            "discipline that makes the schedule irrelevant, as structural obligations on every interpreted path of the "
            "request pipeline (5 protocol configurations x request kinds x cold/warm): G1 every store or native mutation "
            "reaching an object shared between requests is made under a lock or fills an empty lazy location; G2 nothing "
            "reachable from a value published into a shared location outside a lock is mutated afterwards; G3 the value a "
            "location receives does not depend on the filling request; G4 state mutated under a lock is read outside it only "
            "where the stored value is immutable; locks are released on every path. Stability under the allowed "
            "interference (bounded, labelled): cold vs warm instances; the interpreter as scheduler suspends a request "
            "after each of its shared writes and runs a complete other request (preemption bound 1); a requester preempted "
            "right before the WSDL build lock while another builds -- one build, same complete bytes for every requester, "
            "lock released after a failing build. G5: an entry stored more than once with different values while a lock is held is not read outside the lock (dict item reads are observed); every event manager of the monitored application has listeners.",
            "not covered: arbitrary interleavings at bytecode granularity, more than one preemption, real parallelism inside "
            "native code; single dict/list operations assumed atomic (GIL); open known finding: lxml error_log shared",
            "contract-based verification of a sharing discipline (frame / publication / lock-state rules checked by store, "
            "load and lock hooks on the interpreted real code) + labelled bounded schedule injection",
            "DESIGN.md section 4 C12", "other"),
}
NOT_YET = {}
for i in range(1, 19):
    k = 'C%02d' % i
    if k not in CLAIMED:
        NOT_YET[k] = "contracts for this property are not built yet in this checkout (see DESIGN.md section 4 for the plan)"


# additions of the last session (round 4 of the seeded regressions, path isolation, thorough tier), appended to the texts
ROUND4 = {
    'C01': "Round 4: a derived complex result given as instance / full or partial sequence / dict; a 27 kB value of 3-byte characters spanning four transport blocks. Thorough tier: 60 more value vectors generated from VERIF_SEED.",
    'C02': "Round 4: the same return forms and multi-block value as C01. Thorough tier: 60 generated value vectors.",
    'C03': "Round 4: the zero / false / empty value of every primitive as HttpRpc result; argument names that begin with words the transport interprets (wsdl_location, xsd_url, the method's name) under all 24 pair orders.",
    'C04': "Round 4: every primitive model exported by spyne.model.primitive (found by introspection, about 55) x 20 scalar value kinds x 4 dict-document families.",
    'C05': "Round 4: objects spelled positionally in dict documents; a warm application (the parent class served first).",
    'C06': "Round 4: url-safe base64 members; every facet-carrying member derived once more without touching a facet (occurrence-only customisation, array item type).",
    'C07': "Round 4: a class with three choice groups, attribute, wildcard, default and documentation in every generated application. Thorough tier: 40 fresh processes instead of 8.",
    'C08': "Round 4: digit-restricted Decimals derived again (defect found and fixed); MessagePack's integer text form (C02's proved split) registered here too. Thorough tier: 1500 generated values per type x 3 protocols.",
    'C09': "Round 4: four classes of raised fault (library class, subclass, subclasses declaring a class-level CODE) in the pipeline and in the symbolic serialiser contracts; the method choosing the output protocol of the request.",
    'C10': "Round 4: a method name that is not text (two defects found by the thorough tier and fixed). Thorough tier: 12 single-byte edits at every byte position of the valid request of 7 families.",
    'C11': "Round 4: XML default-namespace spellings of foreign and target names; service classes whose module / class names differ only in a fragment.",
    'C12': "Round 4: SOAP 1.2, YAML and MessagePack families; lxml re-parenting counts as mutation of the moved (published) element. Thorough tier: 120 switch points per pair and four more families in the interference obligations.",
    'C13': "Round 4: header values set by the method reach start_response as str; the size limit for every body-carrying family and for SOAP with attachments.",
    'C14': "Round 4: complete case analysis of the four @rpc keywords for event managers and the event contract under each; NullServer as a third transport (two defects found and fixed: no method_context_closed on a failing call, no method_exception_object for an unknown method).",
    'C15': "Round 4: operations that share their argument dicts across a history; result contracts for child_attrs(_noexc) and Mandatory(). Thorough tier: all 24389 histories of three operations.",
    'C16': "Round 4: the class tree grows after it has served a polymorphic exchange (5 protocol families).",
    'C17': "Round 4: AnyDict and AnyXml slots in the corpus; the schema reader (the package's other XML parser) against external DTD subsets and entities.",
    'C18': "Round 4: one object returned twice (two return values, array items).",
}

ROUND5 = {
    'C01': "Round 5: requests spelled with other literals of the same lexical space; XmlData members and attributes of non-text types; constrained members with non-ASCII conformant values.",
    'C02': "Round 5: the same model additions (two defects of the dict-document family found and fixed: XmlAttribute of non-text types, XmlData members).",
    'C03': "Round 5: four hierarchy delimiters and the public helper called twice with every ordered pair of them; a later response does not repeat an earlier one's headers.",
    'C05': "Round 5: Date / DateTime members probed with the other ISO 8601 spellings; MessagePack-RPC as ninth pipeline configuration.",
    'C07': "Round 5: restricted simple types of every facet family in the generated application (schemas must compile); a SOAP 1.2 application (binding namespace, zeep client).",
    'C08': "Round 5: all 113 quarter-hour UTC offsets enumerated (concrete companion of the symbolic proof); datetime values where a Date is declared.",
    'C09': "Round 5: every Fault class of spyne.error against the status documented for its code.",
    'C10': "Round 5: the non-default protocol configurations (wrapper keys kept, objects as lists, polymorphic).",
    'C11': "Round 5: two functions of one service under one name (defect found and fixed).",
    'C12': "Round 5: SOAP multi-reference requests; the package's classes and module-level containers are roots of the shared heap.",
    'C13': "Round 5: HttpRpc as output protocol.",
    'C14': "Round 5: HttpRpc as output protocol; bytes that are not UTF-8 as a request kind of every family.",
    'C15': "Round 5: recursive models (SelfReference) and pattern removal as operations with result contracts.",
    'C16': "Round 5: a repeated member (array without wrapper element) of the base class with subclass items.",
    'C18': "Round 5: falsy and absent fields of a bare complex argument; the NullServer result against reference-decoded XML and SOAP replies.",
}

ROUND6 = {
    'C01': "Round 6: argument-less bare methods; fixed-width integers at both ends of their ranges. Deductive: the Spyne client's argument packing for symbolic values.",
    'C05': "Round 6: an unwrapped array whose item type carries the bound.",
    'C06': "Round 6: every primitive model of the package in one schema that must compile (defect found and fixed: MimeType / MediaType patterns).",
    'C07': "Round 6: attributes of enumerated types with a namespace of their own; proved: the binding namespace for every protocol type string.",
    'C08': "Round 6: protocol classes that override single readers (HttpRpc, Soap12) against the literals of the lexical space.",
    'C10': "Round 6: SOAP header blocks that are foreign, repeated, unqualified or malformed.",
    'C11': "Round 6: MessagePack-RPC method names with stray non-UTF-8 bytes; proved: the interface key for every module name.",
    'C12': "Round 6: a method published under an address pattern.",
    'C14': "Round 6: a listener that deregisters itself while it runs.",
    'C15': "Round 6: default_factory through further derivations.",
    'C16': "Round 6: the class tree served first by an application with another target namespace.",
    'C18': "Round 6: Duration / DateTime / Decimal / Double / Date values. Deductive: get_serialization_instance for sequences / dicts of symbolic values.",
}
_LEM = ("the primitive-codec lemmas this property's contracts assume (C08.integer.*.roundtrip, deductive over every integer of "
        "each fixed-width type; C08.decimal.digit_restricted, bounded) are discharged again by this check (lemma import).")
ROUND7 = {
    'C01': "Round 7: " + _LEM,
    'C02': "Round 7: " + _LEM,
    'C03': "Round 7: " + _LEM,
    'C04': "Round 7: _to_native_values (flat documents) under contract for every raw value kind a transport delivers, uploaded multipart parts included (defect found and fixed: a file part reached a Unicode member).",
    'C09': "Round 7: a fault with an empty, non-None detail: presence of the detail is part of 'intact' for the typed document families.",
    'C13': "Round 7, deductive: _gen_http_headers for symbolic header texts, scalar / list / tuple values.",
    'C16': "Round 7, deductive: the xsi:type resolution of from_element for every attribute text, prefix and bound namespace (z3 strings) against the live registry; bounded: the six util.dictdoc document helpers with polymorphic on and off.",
}
ISOLATION = (" Every path runs in a forked child of the worker (no process-wide state of the code under contract is shared "
             "between paths; native replays start from the freshly loaded state).")


def main():
    m = dict(
        version=1,
        setup_cmd="bin/ensure_env.sh",
        hooks=dict(guard="ARSKOM_SPYNE_VERIF", enable="no hooks: checks read /repo's working tree as is",
                   baseline_off_cmd="cd /repo && /venv/bin/python -m pytest -ra -q -p no:cacheprovider --timeout=900 --continue-on-collection-errors",
                   source_commits=[], add_only=True),
        engines=[dict(name="pyvc", path="pyvc/", serves_properties=sorted(CLAIMED),
                      kind_free_text="symbolic interpreter over the AST of live spyne functions generating verification "
                                     "conditions from sidecar contracts (contracts/*.py), discharged per path by z3 5.1 "
                                     "with cvc5 as second solver; counter-models replayed on the real code")],
        checks=[], not_applicable=[], notes="exit codes: 0 held, 1 VIOLATION, 2 undecided, 3 checker error")
    for k in sorted(CLAIMED):
        text, note, tech, ref = CLAIMED[k][:4]
        text = text + ' ' + ROUND4.get(k, '') + ' ' + ROUND5.get(k, '') + ' ' + ROUND6.get(k, '') + ' ' + ROUND7.get(k, '') + ISOLATION
        cat = CLAIMED[k][4] if len(CLAIMED[k]) > 4 else 'proof'
        m['checks'].append(dict(
            property_id=k, quick_cmd="bin/check %s --tier quick" % k, thorough_cmd="bin/check %s --tier thorough" % k,
            evidence_file="evidence/%s.json" % k, replay_cmd_template="bin/check --replay {path}", engine="pyvc",
            level_claimed=dict(category=cat, text=text, design_ref=ref), level_note=note, technique=tech))
    for k in sorted(NOT_YET):
        m['not_applicable'].append(dict(property_id=k, reason=NOT_YET[k]))
    json.dump(m, open(os.path.join(ROOT, 'MANIFEST.json'), 'w'), indent=1)
    import jsonschema
    jsonschema.validate(m, json.load(open('/root/.vp/MANIFEST.schema.json')))
    print("MANIFEST.json written:", len(m['checks']), "checks,", len(m['not_applicable']), "not applicable")

if __name__ == '__main__':
    main()
