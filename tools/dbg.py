"""usage: dbg.py <obligation id> [max paths]  -- print every symbolic path's checks with details."""
import sys, os, logging, warnings
sys.path.insert(0, os.path.dirname(os.path.dirname(os.path.abspath(__file__))))
warnings.filterwarnings('ignore'); logging.disable(logging.CRITICAL)
import z3
from pyvc import oblig, cli
from pyvc.path import Path
from pyvc.interp import Interp
from pyvc.sym import PathAbort, Unsupported, SymbolicLeak
oid = sys.argv[1]
cli.load_contracts(oid.split('.')[0])
ob = oblig.REGISTRY[oid]
work = [[]]; n = 0
stats = dict(queries=0, solver_s=0.0)
while work and n < int(sys.argv[2] if len(sys.argv) > 2 else 20):
    prefix = work.pop(); n += 1
    p = Path(prefix, work, stats); it = Interp(p); c = oblig.Ctx(p, it)
    try:
        ob.fn(c); st = 'done'
    except PathAbort as e: st = 'cut:%s' % e
    except (Unsupported, SymbolicLeak) as e: st = 'UNSUPPORTED: %s' % e
    except BaseException as e:
        import traceback; traceback.print_exc(); st = 'CRASH %r' % e
    finally: it.cleanup()
    print('--- path', n, st, 'choices', p.choices)
    for chk in p.checks:
        s = z3.Solver(); [s.add(x) for x in chk.pc]; s.add(z3.Not(chk.cond)); r = s.check()
        print('   ', chk.label, 'VALID' if r == z3.unsat else ('REFUTED ' + str(s.model())[:200] if r == z3.sat else 'unknown'), '' if r == z3.unsat else ('detail=%r' % (chk.detail,))[:int(os.environ.get('DBG_DETAIL', 400))])
