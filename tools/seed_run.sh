#!/bin/sh
# usage: seed_run.sh [seed ids...]   (default: all under seeded/)
# Applies each seeded regression to /repo, runs the property's quick check, reverts, records the verdict.
cd /verif
[ -z "$(git -C /repo status --porcelain)" ] || { echo "/repo is dirty"; exit 2; }
IDS="$@"; [ -n "$IDS" ] || IDS=$(ls seeded | grep -v RESULTS)
mkdir -p seeded
for id in $IDS; do
  d=seeded/$id; P=$(echo $id | cut -d- -f1)
  if ! git -C /repo apply --check /verif/$d/patch.diff 2>/dev/null; then echo "$id: patch does not apply"; continue; fi
  git -C /repo apply /verif/$d/patch.diff
  T0=$(date +%s)
  # the evidence file and the replay directory describe the unchanged tree: keep them out of the seeded run
  cp evidence/$P.json /verif/.evidence_keep.$P 2>/dev/null
  rm -rf /verif/.replay_keep.$P; cp -r replay/$P /verif/.replay_keep.$P 2>/dev/null
  OUT=$(bin/check $P --tier quick 2>&1); RC=$?
  git -C /repo checkout -- . ; git -C /repo clean -fdq spyne 2>/dev/null
  [ -f /verif/.evidence_keep.$P ] && mv /verif/.evidence_keep.$P evidence/$P.json
  rm -rf replay/$P; [ -d /verif/.replay_keep.$P ] && mv /verif/.replay_keep.$P replay/$P
  NV=$(echo "$OUT" | grep -c '^VIOLATION')
  FIRST=$(echo "$OUT" | grep '^VIOLATION' | head -2 | tr '\n' ';')
  UND=$(echo "$OUT" | grep -c '^UNDECIDED')
  echo "$id: exit=$RC violations=$NV undecided=$UND $(($(date +%s)-T0))s  $FIRST"
  printf '%s\n' "$OUT" | grep '^VIOLATION\|^UNDECIDED\|^CHECKER' | head -8 > $d/last_check_output.txt
  echo "exit=$RC" >> $d/last_check_output.txt
done
