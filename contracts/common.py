"""Helpers shared by the contracts: small real applications, recorders, input builders."""
import warnings

warnings.filterwarnings('ignore')

from spyne import Application, ServiceBase, rpc
from spyne.model.primitive import Integer, Unicode
from spyne.protocol.http import HttpRpc
from spyne.protocol.json import JsonDocument
from spyne.protocol.soap import Soap11
from spyne.protocol.xml import XmlDocument
from spyne.server.wsgi import WsgiApplication


def accepts_sym(f):
    f._pyvc_native = True
    f._pyvc_accepts_sym = True
    return f


def echo_service(body=None):
    class EchoService(ServiceBase):
        @rpc(Integer, _returns=Integer)
        def echo(ctx, i):
            return i
    return EchoService


def make_app(services=None, in_protocol=None, out_protocol=None, tns='verif.tns', name='VApp'):
    return Application(services or [echo_service()], tns=tns, name=name,
                       in_protocol=in_protocol or HttpRpc(),
                       out_protocol=out_protocol or JsonDocument())


def make_wsgi(app=None, **kw):
    return WsgiApplication(app or make_app(), **kw)
