"""C02: dict-document wire fidelity (JSON, YAML, MessagePack).

Proved (symbolic): MessagePack's integer split (the integer itself iff it fits the native range, else its
decimal text, and the decoder inverts both branches) for every integer; number pass-through of JSON/YAML.
Bounded (labelled): requests built by the independent reference encoder (spec/dictref.py) for generated
signatures and boundary values through the real pipeline of each protocol x ignore_wrappers x complex_as x
validator; the user function is invoked once with equal values and the response, read by the reference
decoder, denotes the returned values."""
import datetime as dt
import decimal
import io
import json
import uuid

from pyvc.oblig import obligation
from pyvc.sym import And, Or, Not, Implies, Iff, SInt
from pyvc.text import FmtStr
from spec import xmlref, dictref

from spyne import Application, ServiceBase, rpc
from spyne.model.complex import ComplexModel, Array
from spyne.model.primitive import Integer, Unicode
from spyne.protocol.json import JsonDocument
from spyne.protocol.msgpack import MessagePackDocument, MessagePackRpc
from spyne.protocol.yaml import YamlDocument
from spyne.server.wsgi import WsgiApplication

from .pipeline import TNS
from .c01_xml_fidelity import (PRIMS, PRIM_VALUES, outer_values, ARRAY_VALUES, Outer, Inner, Sub, Sub2, _services,
                               _shared, renamed_values, Renamed, RenamedSub, return_forms, prim_values, GENERATED, Amount, Flag)


@obligation('C02.msgpack.integer_split', targets=['spyne.protocol.msgpack:MessagePackDocument.integer_to_bytes',
                                                   'spyne.protocol.msgpack:MessagePackDocument.integer_from_bytes'],
            desc="for every integer v: integer_to_bytes returns v itself iff -2**63 <= v < 2**64 (MessagePack's native "
                 "range) and otherwise its decimal text; integer_from_bytes maps either form back to v -- integers of any "
                 "magnitude survive unchanged",
            assumptions=["str(n)/int(text) are inverse (CPython)", "magnitudes below 10**40 for the text branch (the "
                         "1024-character guard of integer_from_bytes; see C08)"])
def integer_split(c):
    prot = MessagePackDocument()
    v = c.int('value')
    c.assume(And(v > -10 ** 40, v < 10 ** 40))
    out = c.run(prot.integer_to_bytes, Integer, v)
    c.check('encodes', out.returned, detail=repr(out))
    if not out.returned:
        return
    w = out.value
    native = And(v >= -2 ** 63, v < 2 ** 64)
    is_int = isinstance(w, (int, SInt)) and not isinstance(w, bool)
    c.check('native_range_iff_sent_as_integer', Iff(native, is_int), detail=repr(w))
    if is_int:
        c.check('integer_unchanged', w == v, detail=repr(w))
    else:
        c.check('text_form', isinstance(w, (str, bytes, FmtStr)), detail=repr(w))
    back = c.run(prot.integer_from_bytes, Integer, w)
    c.check('decodes', back.returned, detail=repr(back))
    if back.returned:
        c.check('roundtrip_equal', back.value == v, detail=repr(back.value))


def _mk_passthrough(pname, P):
    @obligation('C02.number.passthrough.%s' % pname, targets=['spyne.protocol.json:JsonDocument._ret_number'],
                desc="numbers travel as numbers: _ret_number returns every integer unchanged (any magnitude) and the "
                     "serialiser side hands the integer itself to the document")
    def ob(c):
        prot = P()
        v = c.int('value')
        out = c.run(prot._ret_number, Integer, v)
        c.check('returns', out.returned, detail=repr(out))
        if out.returned:
            c.check('unchanged', out.value == v, detail=repr(out.value))
        o2 = c.run(prot._to_unicode_handlers[Integer], Integer, v)
        c.check('serialised_as_itself', o2.returned and ((o2.value is v) if not c.concrete else o2.value == v),
                detail=repr(o2))
    return ob


for _pn, _P in (('JsonDocument', JsonDocument), ('YamlDocument', YamlDocument)):
    _mk_passthrough(_pn, _P)


FAMS = {'json': JsonDocument, 'yaml': YamlDocument, 'msgpack': MessagePackDocument}


def _codec(family):
    if family == 'json':
        return (lambda d: json.dumps(d, ensure_ascii=False).encode('utf8')), (lambda b: json.loads(b.decode() or 'null')), 'application/json'
    if family == 'yaml':
        import yaml
        return (lambda d: yaml.safe_dump(d, allow_unicode=True).encode('utf8')), (lambda b: yaml.safe_load(b.decode('utf8'))), 'text/yaml'
    import msgpack
    return (lambda d: msgpack.packb(d, use_bin_type=True)), (lambda b: msgpack.unpackb(b, raw=False, strict_map_key=False) if b else None), \
        'application/x-msgpack'


def _full(o):
    """A fully populated variant of an Outer (positional form is documented for fully populated objects)."""
    return Outer(n=1, inner=Inner(x=1, s='a', t='tt'), sub=Sub(x=9, s='s', t='u', extra=3), sub2=Sub2(fb=1, fs='f', own=2),
                 items=[Inner(x=1, s='a', t='b'), Inner(x=2, s='c', t='d')], tags=['p', 'q'],
                 when=dt.datetime(2020, 1, 1, 0, 0, 0, 5, PRIM_VALUES[2]['t'].tzinfo), amount=decimal.Decimal('1.50'), code=7,
                 must=5, amount2=Amount(value=decimal.Decimal('0'), unit='kg', ratio=decimal.Decimal('1.5'), since=dt.date(2020, 1, 2)), flag=Flag(on=False, count=0), word=u'Gr\xf6\xdfe', digits=u'42', small=5, i8=-2 ** 7, i16=2 ** 15 - 1, i64=-2 ** 63, u8=255, u64=2 ** 64 - 1)


def _mk_roundtrip(family, wrappers, as_list, validator):
    cfgname = '%s.%s.%s.%s' % (family, 'wrappers' if wrappers else 'nowrappers', 'list' if as_list else 'dict',
                               validator or 'none')

    @obligation('C02.roundtrip.' + cfgname, targets=['spyne.protocol.dictdoc.hier:HierDictDocument.deserialize',
                                                     'spyne.protocol.dictdoc.hier:HierDictDocument.serialize',
                                                     'spyne.protocol.dictdoc.hier:HierDictDocument._doc_to_object',
                                                     'spyne.protocol.dictdoc.hier:HierDictDocument._object_to_doc'],
                bounded="7 signatures (10 primitives x 6 boundary value vectors incl. 2**70 and -2**63, 30-digit decimals, "
                        "non-BMP text, empty containers, a 27 kB text of 3-byte characters spanning four transport blocks; "
                        "nested/inherited complex type; wrapped, repeated and complex arrays; values built by the function; "
                        "renamed members; a derived complex return value given as instance / sequence / dict); MessagePack "
                        "with str and bytes keys; positional form for fully populated objects",
                desc="a request built by the independent reference encoder invokes the user function exactly once with "
                     "equal values; the response read by the independent reference decoder denotes exactly the values "
                     "returned")
    def ob(c):
        got = []
        P = FAMS[family]
        mk = lambda: P(ignore_wrappers=not wrappers, complex_as=list if as_list else dict, validator=validator)
        app = Application([_services(got)], TNS, name='VApp', in_protocol=mk(), out_protocol=mk())
        wsgi = WsgiApplication(app)
        cfg = dict(wrappers=wrappers, as_list=as_list, family=family)
        packb, unpackb, ctype = _codec(family)
        meth = c.choose(['prims', 'struct', 'arrays', 'shared', 'produce', 'renamed', 'forms'], 'method')
        d = app.interface.service_method_map['{%s}%s' % (TNS, meth)][0]
        if meth == 'shared':
            args = []
        elif meth == 'produce':
            args = [c.choose(list(range(len(PRIM_VALUES))), 'values')]
        elif meth == 'forms':
            args = [c.choose(list(range(len(return_forms()))), 'values')]
        elif meth == 'renamed':
            args = [RenamedSub(plain=3, alias='b', far=4, many=['p', 'q'], m1=5, m2='mm', own=6,
                               nested=Renamed(plain=1, alias='a', far=2, many=['x'])) if as_list
                    else renamed_values()[c.choose([0, 1, 2, 3], 'values')]]
        elif meth == 'prims':
            vals = prim_values(c, c.choose(list(range(len(PRIM_VALUES) + (GENERATED if c.thorough else 0))), 'values'))
            args = [vals[k] for k, _ in PRIMS]
        elif meth == 'struct':
            args = [_full(None)] if as_list else [outer_values()[c.choose([0, 1, 2, 3, 4], 'values')]]
        else:
            av = ARRAY_VALUES[c.choose(list(range(len(ARRAY_VALUES))), 'values')]
            if as_list:
                av = ([1, 2], [3], [Inner(x=1, s='a', t='b')])
            args = list(av)
        in_ti = list(d.in_message._type_info.items())
        if as_list:
            argdoc = [dictref.enc(t, v, cfg) for (k, t), v in zip(in_ti, args)]
        else:
            argdoc = {k: dictref.enc(t, v, cfg) for (k, t), v in zip(in_ti, args) if v is not None}
        key = meth
        if family == 'msgpack' and c.choose(['bytes', 'str'], 'msgpack_key_kind') == 'bytes':
            def bk(o):
                if isinstance(o, dict):
                    return {k.encode('utf8'): bk(v) for k, v in o.items()}
                if isinstance(o, list):
                    return [bk(x) for x in o]
                return o
            doc = bk({key: argdoc})
        else:
            doc = {key: argdoc}
        body = packb(doc)
        env = {'REQUEST_METHOD': 'POST', 'PATH_INFO': '/', 'QUERY_STRING': '', 'SERVER_NAME': 'h', 'SERVER_PORT': '80',
               'wsgi.url_scheme': 'http', 'wsgi.input': io.BytesIO(body), 'CONTENT_TYPE': ctype,
               'CONTENT_LENGTH': str(len(body))}
        seen = []

        def sr(status, headers, exc_info=None):
            seen.append(status)
        sr._pyvc_native = True
        out = c.run(wsgi, env, sr)
        c.check('callable_returns', out.returned, detail=repr(out))
        if not out.returned:
            return
        chunks = []
        c.run(lambda: chunks.extend(list(out.value)))
        resp = b''.join(chunks)
        c.check('status_200', bool(seen) and seen[0].startswith('200'), detail=(seen, resp[:300], body[:300]))
        c.check('function_invoked_exactly_once', len(got) == 1, detail=(len(got), resp[:300]))
        if len(got) != 1 or not seen[0].startswith('200'):
            return
        recv = got[0][1]
        for (k, t), sent, r in zip(in_ti, args, recv):
            c.check('argument_equal[%s]' % k, xmlref.norm(t, r) == xmlref.norm(t, sent),
                    detail=(k, xmlref.norm(t, r), xmlref.norm(t, sent)))
        rdoc = dictref.strkeys(unpackb(resp))
        out_ti = list(d.out_message._type_info.items())
        if wrappers and isinstance(rdoc, dict) and len(rdoc) == 1:
            (_, rdoc), = rdoc.items()
        rets = args
        if meth == 'shared':
            o = _shared()
            rets = [o, [o.inner] * 3]
        if meth == 'produce':
            rets = [PRIM_VALUES[args[0]][k] for k, _ in PRIMS]
        if meth == 'forms':
            rets = [return_forms()[args[0]][1]]
        for i, ((k, t), ret) in enumerate(zip(out_ti, rets)):
            if len(out_ti) == 1 and not wrappers:
                piece = rdoc
            elif isinstance(rdoc, dict):
                piece = rdoc.get(k)
            elif isinstance(rdoc, list):
                piece = rdoc[i] if i < len(rdoc) else None
            else:
                piece = None
            try:
                decd = dictref.dec(t, piece, cfg)
            except Exception as e:
                # the reference decoder cannot read what was sent: the response does not denote the value
                c.check('response_denotes_returned_value', False, detail=(k, repr(e), repr(piece)[:200]))
                continue
            c.check('response_denotes_returned_value', xmlref.norm(t, decd) == xmlref.norm(t, ret),
                    detail=(k, xmlref.norm(t, decd), xmlref.norm(t, ret), repr(rdoc)[:300]))
    return ob


for _f in FAMS:
    for _w in (False, True):
        for _l in (False, True):
            for _v in (None, 'soft'):
                _mk_roundtrip(_f, _w, _l, _v)


# polymorphic setting (shared with C16): subclass instances where the base, a customised variant of it, or Array(base) is
# declared -- the response names the runtime class and carries all of its fields, and decodes back to an equal value
from .c16_polymorphism import _mk_dict as _mk_polymorphic     # noqa: E402

for _f in FAMS:
    _mk_polymorphic(_f, oid='C02.polymorphic.%s' % _f)


@obligation('C02.sub_ns_and_sub_name', targets=['spyne.protocol.dictdoc.hier:HierDictDocument._doc_to_object',
                                                 'spyne.protocol.dictdoc.hier:HierDictDocument._get_member_pairs'],
            bounded="one member that declares both sub_name and sub_ns, JSON",
            desc="a member that travels under another name is read back under the key it is written with")
def sub_ns_and_sub_name(c):
    from spyne.model.complex import ComplexModel as CM

    class N(CM):
        __namespace__ = TNS
        far = Integer(sub_name='farName', sub_ns='verif.sub')
    got = []

    class NSvc(ServiceBase):
        @rpc(N, _returns=N)
        def g(ctx, n):
            got.append(n.far)
            return n
    app = Application([NSvc], TNS, name='VApp', in_protocol=JsonDocument(), out_protocol=JsonDocument())
    body = json.dumps({'g': {'n': {'farName': 4}}}).encode()
    env = {'REQUEST_METHOD': 'POST', 'PATH_INFO': '/', 'QUERY_STRING': '', 'SERVER_NAME': 'h', 'SERVER_PORT': '80',
           'wsgi.url_scheme': 'http', 'wsgi.input': io.BytesIO(body), 'CONTENT_TYPE': 'application/json', 'CONTENT_LENGTH': str(len(body))}

    def sr(status, headers, exc_info=None):
        pass
    sr._pyvc_native = True
    out = c.run(WsgiApplication(app), env, sr)
    c.check('callable_returns', out.returned, detail=repr(out))
    if out.returned:
        c.run(lambda: list(out.value))
    # open known finding: the serializer writes the key 'farName', the deserializer only knows '{verif.sub}farName'
    c.known_region('C02-sub-ns-and-sub-name-key-asymmetry', True)
    c.check('value_read_under_the_key_it_is_written_with', got == [4], detail=got)
