"""C13: the bounded request-body reader WsgiApplication.__wsgi_input_to_iterable.

Contract (from the property statement): at most max_content_length bytes are ever read from the
input stream, for every declared length, block_length >= 1 and every stream that returns at most the
requested number of bytes per read; a declared length above the limit raises RequestTooLongError
before any read; the bytes handed on are exactly the bytes read.
"""
from pyvc.oblig import obligation
from pyvc.interp import LoopSpec
from pyvc.sym import And, Or, Not, Implies, Iff, If
from pyvc.text import FmtStr, Dec

from spyne.error import RequestTooLongError
from spyne.server.wsgi import WsgiApplication

from .common import make_wsgi, accepts_sym

READER = WsgiApplication._WsgiApplication__wsgi_input_to_iterable
QN = 'WsgiApplication.__wsgi_input_to_iterable'


class Stream(object):
    """wsgi.input model.  Assumed contract (PEP 3333 / io): read(n) returns at most n bytes."""

    def __init__(self, c, avail=None, cap=None):
        self.c = c
        self.avail = avail
        self.cap = cap

    @accepts_sym
    def read(self, n=-1):
        c = self.c
        g = c.ghost
        g['reads'] = g['reads'] + 1
        c.check('read.size_nonnegative', n >= 0)
        c.check('read.within_limit', g['read_total'] + n <= g['limit'])
        want = c.int('read_len_%d' % g['reads'] if isinstance(g['reads'], int) else 'read_len_k')
        if c.concrete:
            data = b'x' * max(0, min(n, want))
        else:
            data = c.bytes('data', declare=False)
            ln = len_(c, data)
            c.assume(And(ln >= 0, ln <= n, ln == want))
        g['read_total'] = g['read_total'] + len_(c, data)
        return data


def len_(c, v):
    if c.concrete:
        return len(v)
    return c.interp.call(len, (v,), {})


def _declared(c, app, env):
    """Forks over the forms of CONTENT_LENGTH; returns the declared length as the spec sees it."""
    k = c.choose(3, 'content_length_form')
    if k == 0:
        return app.max_content_length            # absent: the limit itself is assumed
    if k == 1:
        env['CONTENT_LENGTH'] = ''
        return 0
    n = c.int('content_length')
    c.assume(n >= 0)
    env['CONTENT_LENGTH'] = str(n) if c.concrete else FmtStr([Dec(n.t, 0, False)], str)
    return n


@obligation('C13.reader.bounded_read', targets=['spyne.server.wsgi:' + QN],
            desc="bytes read <= max_content_length; too-long requests refused before any read; yielded == read",
            assumptions=["wsgi.input.read(n) returns at most n bytes (PEP 3333 server obligation)",
                         "CONTENT_LENGTH, when present, is '' or a canonical non-negative decimal (malformed "
                         "values are C10's obligation)",
                         "int(str(n)) == n, len(str(n)) >= 1 (CPython)"])
def reader(c):
    app = make_wsgi()
    mx = c.int('max_content_length')
    blk = c.int('block_length')
    c.assume(And(mx >= 0, blk >= 1))
    app.max_content_length = mx
    app.block_length = blk
    env = {'wsgi.input': Stream(c)}
    L = _declared(c, app, env)
    g = c.ghost
    g.update(read_total=0, yield_total=0, reads=0, limit=mx)

    def on_yield(data):
        g['yield_total'] = g['yield_total'] + len_(c, data)
        c.check('yield.is_bytes', isinstance(data, bytes) if c.concrete else issubclass(data.pytype, bytes))

    if c.concrete:
        def drive():
            for chunk in READER(app, env):
                on_yield(chunk)
        out = c.run(drive)
    else:
        c.loop(QN, 'while bytes_read < length', LoopSpec(
            invariant=lambda e: And(e.bytes_read == g['read_total'], e.bytes_read == g['yield_total'],
                                    0 <= e.bytes_read, e.bytes_read <= e.length,
                                    e.length <= mx, g['reads'] >= 0),
            modifies=['bytes_read'], ghost_modifies=['read_total', 'yield_total', 'reads'],
            variant=lambda e: e.length - e.bytes_read))
        c.interp.yield_hook = (QN, on_yield)
        out = c.run(READER, app, env)

    too_long = L > mx
    c.check('too_long.raises', Implies(too_long, out.raised_a(RequestTooLongError)), detail=repr(out))
    c.check('too_long.no_read', Implies(too_long, g['reads'] == 0))
    c.check('raises_only_too_long', Implies(out.raised, And(too_long, out.raised_a(RequestTooLongError))),
            detail=repr(out))
    c.check('total_read_within_limit', g['read_total'] <= mx)
    c.check('yielded_equals_read', g['yield_total'] == g['read_total'])
