"""C03: the sparse-to-contiguous index mapping inserter _s2cmi, for maps of any size.

Abstract view: m is a *rank map* -- it maps each key to the number of smaller keys (strictly increasing in
the key, image exactly 0..n-1).  Contract: requires rank_map(m, n) and nidx not in m; ensures
rank_map(m', n+1), dom m' = dom m + {nidx}, result == m'[nidx], smaller keys keep their rank, larger keys
move up by one.  This is what makes every array end up in index order whatever the order of the pairs."""
import z3

from pyvc.oblig import obligation
from pyvc.sym import SInt, SBool, And, Or, Not, Implies
from pyvc.symmap import SymMap, MapItemsLoop, IntSet, IntMap

from spyne.protocol.dictdoc.simple import _s2cmi

I = z3.IntSort()


def rank_map(dom, val, n, inv):
    """dom/val: z3 arrays; n: Int; inv: Skolem inverse Int->Int (rank -> key)."""
    j, k, r = z3.Ints('j k r')
    return z3.And(
        n >= 0,
        z3.ForAll([k], z3.Implies(z3.Select(dom, k), z3.And(0 <= z3.Select(val, k), z3.Select(val, k) < n))),
        z3.ForAll([j, k], z3.Implies(z3.And(z3.Select(dom, j), z3.Select(dom, k)),
                                     (j < k) == (z3.Select(val, j) < z3.Select(val, k)))),
        z3.ForAll([r], z3.Implies(z3.And(0 <= r, r < n), z3.And(z3.Select(dom, inv(r)), z3.Select(val, inv(r)) == r))),
    )


@obligation('C03.s2cmi.rank_map', targets=['spyne.protocol.dictdoc.simple:_s2cmi'],
            desc="_s2cmi(m, nidx): for a rank map m of any size and a new index nidx, m stays a rank map, gains exactly the "
                 "key nidx, the result is its rank; ranks of smaller keys are unchanged, larger ones shift by one "
                 "(inductive invariant over the set of visited keys; unbounded)",
            assumptions=["dict iteration visits every key of the entry domain exactly once (order unspecified)",
                         "quantified VCs discharged by z3 E-matching with an explicit Skolem inverse for surjectivity"],
            replay=True)
def s2cmi(c):
    if c.concrete:
        # replay / refutation search: every rank map over keys 0..5 (64 maps) x every new index 0..6, natively
        import itertools
        fails = {}
        clauses = ['returns', 'domain_gains_exactly_nidx', 'result_is_rank_of_nidx', 'smaller_keys_keep_rank',
                   'larger_keys_shift_by_one', 'range_after', 'strictly_increasing_after', 'onto_0_to_n_after',
                   'result_counts_smaller_keys']
        for mask in range(64):
            keys = [k for k in range(6) if mask >> k & 1]
            for nidx in range(7):
                if nidx in keys:
                    continue
                m0 = {k: r for r, k in enumerate(keys)}
                m = dict(m0)
                try:
                    res = _s2cmi(m, nidx)
                except Exception as e:
                    fails.setdefault('returns', (m0, nidx, repr(e)))
                    continue
                ok = {
                    'domain_gains_exactly_nidx': set(m) == set(m0) | {nidx},
                    'result_is_rank_of_nidx': m.get(nidx) == res,
                    'smaller_keys_keep_rank': all(m.get(k) == m0[k] for k in m0 if k < nidx),
                    'larger_keys_shift_by_one': all(m.get(k) == m0[k] + 1 for k in m0 if k > nidx),
                    'range_after': all(isinstance(v, int) and 0 <= v < len(m0) + 1 for v in m.values()),
                    'strictly_increasing_after': all((j < k) == (m[j] < m[k]) for j in m for k in m),
                    'onto_0_to_n_after': sorted(m.values()) == list(range(len(m0) + 1)),
                    'result_counts_smaller_keys': res == sum(1 for k in m0 if k < nidx),
                }
                for cl, good in ok.items():
                    if not good:
                        fails.setdefault(cl, (m0, nidx, m, res))
        for cl in clauses:
            c.check(cl, cl not in fails, detail=fails.get(cl))
        return
    dom0 = z3.Const('dom0', IntSet)
    val0 = z3.Const('val0', IntMap)
    n = z3.Int('n')
    inv = z3.Function('inv', I, I)
    nidx = c.int('nidx')
    c.assume(SBool(rank_map(dom0, val0, n, inv)))
    c.assume(SBool(z3.Not(z3.Select(dom0, nidx.t))))
    m = SymMap(dom0, val0)
    k = z3.Int('k')

    def invariant(env, done):
        nv = env.nv.t if isinstance(env.nv, SInt) else z3.IntVal(env.nv)
        mv = env.m.val
        return SBool(z3.And(
            nv >= -1,
            z3.ForAll([k], z3.Implies(z3.Select(dom0, k), z3.Select(mv, k) == z3.If(
                z3.And(z3.Select(done, k), k >= nidx.t), z3.Select(val0, k) + 1, z3.Select(val0, k)))),
            z3.ForAll([k], z3.Implies(z3.And(z3.Select(done, k), k < nidx.t), z3.Select(val0, k) <= nv)),
            z3.Or(nv == -1, z3.Exists([k], z3.And(z3.Select(done, k), k < nidx.t, z3.Select(val0, k) == nv))),
        ))
    c.loop('_s2cmi', 'for (i, v) in m.items()', MapItemsLoop(invariant, modifies=['nv']))
    out = c.run(_s2cmi, m, nidx)
    c.check('returns', out.returned, detail=repr(out))
    if not out.returned:
        return
    res = out.value
    rt = res.t if isinstance(res, SInt) else z3.IntVal(res)
    dom1, val1 = m.dom, m.val
    c.check('domain_gains_exactly_nidx', SBool(z3.ForAll([k], z3.Select(dom1, k) == z3.Or(z3.Select(dom0, k), k == nidx.t))))
    c.check('result_is_rank_of_nidx', SBool(z3.Select(val1, nidx.t) == rt))
    c.check('smaller_keys_keep_rank', SBool(z3.ForAll([k], z3.Implies(z3.And(z3.Select(dom0, k), k < nidx.t),
                                                                       z3.Select(val1, k) == z3.Select(val0, k)))))
    c.check('larger_keys_shift_by_one', SBool(z3.ForAll([k], z3.Implies(z3.And(z3.Select(dom0, k), k > nidx.t),
                                                                         z3.Select(val1, k) == z3.Select(val0, k) + 1))))
    j = z3.Int('j')
    c.check('range_after', SBool(z3.ForAll([k], z3.Implies(z3.Select(dom1, k),
                                                          z3.And(0 <= z3.Select(val1, k), z3.Select(val1, k) < n + 1)))))
    c.check('strictly_increasing_after', SBool(z3.ForAll([j, k], z3.Implies(
        z3.And(z3.Select(dom1, j), z3.Select(dom1, k)), (j < k) == (z3.Select(val1, j) < z3.Select(val1, k))))))
    r = z3.Int('r')
    w = z3.If(r < rt, inv(r), z3.If(r == rt, nidx.t, inv(r - 1)))
    c.check('onto_0_to_n_after', SBool(z3.ForAll([r], z3.Implies(z3.And(0 <= r, r < n + 1),
                                                                z3.And(z3.Select(dom1, w), z3.Select(val1, w) == r)))))
    c.check('result_counts_smaller_keys', SBool(z3.And(
        z3.ForAll([k], z3.Implies(z3.And(z3.Select(dom0, k), k < nidx.t), z3.Select(val0, k) < rt)),
        z3.ForAll([k], z3.Implies(z3.And(z3.Select(dom0, k), k > nidx.t), z3.Select(val0, k) >= rt)))))
