"""C04: user code only ever receives values of the declared types."""
import datetime as dt
import decimal
import io
import json
import uuid

from pyvc.oblig import obligation

from spyne import Application, ServiceBase, rpc, Fault
from spyne.error import ValidationError
from spyne.model.binary import ByteArray
from spyne.model.complex import ComplexModel, Array
from spyne.model.primitive import (Integer, Unicode, Date, DateTime, Decimal, Double, Boolean, Duration, Uuid, AnyUri,
                                   Integer32)
from spyne.protocol.json import JsonDocument
from spyne.protocol.msgpack import MessagePackDocument
from spyne.protocol.soap import Soap11
from spyne.protocol.xml import XmlDocument
from spyne.protocol.yaml import YamlDocument
from spyne.server.wsgi import WsgiApplication

from .pipeline import protocols, soap_env, SOAP11_NS, SOAP12_NS, TNS
from .c10_malformed import KINDS, VALID, XML_ARGS

XSI = 'http://www.w3.org/2001/XMLSchema-instance'
XS = 'http://www.w3.org/2001/XMLSchema'


class Base(ComplexModel):
    __namespace__ = TNS
    x = Integer
    s = Unicode


class Derived(Base):
    __namespace__ = TNS
    extra = Integer


class Other(ComplexModel):
    __namespace__ = TNS
    x = Unicode
    q = Date


class Inner(ComplexModel):
    __namespace__ = TNS
    x = Integer
    s = Unicode


ARGS = [('i', Integer), ('u', Unicode), ('d', Date), ('t', DateTime), ('b', ByteArray), ('a', Array(Integer)),
        ('c', Base), ('n', Decimal), ('f', Double), ('o', Boolean), ('r', Duration), ('z', Uuid), ('l', Array(Base))]


def conforms(model, v, depth=0):
    """The value delivered for a slot of type `model` is None, of the model's native type, or a list of such."""
    if v is None:
        return True
    if issubclass(model, Array):
        (inner,) = model._type_info.values()
        return isinstance(v, (list, tuple)) and all(conforms(inner, x, depth + 1) for x in v)
    if issubclass(model, ComplexModel):
        orig = model.__orig__ or model
        if not isinstance(v, orig):
            return isinstance(v, list) and all(isinstance(x, orig) for x in v)
        return all(conforms(t, getattr(v, k, None), depth + 1) for k, t in type(v).get_flat_type_info(type(v)).items())
    if issubclass(model, Boolean):
        return isinstance(v, bool)
    if issubclass(model, Integer):
        return isinstance(v, int) and not isinstance(v, bool)
    if issubclass(model, Double):
        return isinstance(v, (int, float)) and not isinstance(v, bool)
    if issubclass(model, Decimal):
        return isinstance(v, decimal.Decimal)
    if issubclass(model, Uuid):
        return isinstance(v, uuid.UUID)
    if issubclass(model, Unicode):
        return isinstance(v, str)
    if issubclass(model, Date):           # Date derives from DateTime in spyne: test it first
        return isinstance(v, dt.date) and not isinstance(v, dt.datetime)
    if issubclass(model, DateTime):
        return isinstance(v, dt.datetime)
    if issubclass(model, Duration):
        return isinstance(v, dt.timedelta)
    if issubclass(model, ByteArray):
        return isinstance(v, (list, tuple)) and all(isinstance(x, (bytes, memoryview)) for x in v) or isinstance(v, bytes)
    from spyne.model.primitive import Time as _Time
    if issubclass(model, _Time):
        return isinstance(v, dt.time)
    return True


def _svc(received):
    def m(ctx, i, u, d, t, b, a, c, n, f, o, r, z, l):
        received.append((i, u, d, t, b, a, c, n, f, o, r, z, l))
        return 1
    m._pyvc_native = True

    def other(ctx, p, q):
        return 1
    other._pyvc_native = True
    return type(ServiceBase)('Svc', (ServiceBase,), {'m': rpc(*[t for _, t in ARGS], _returns=Integer)(m),
                                                     'other': rpc(Other, Derived, _returns=Integer)(other)})


def _run(c, family, validator, body, ctype, polymorphic=False):
    received = []
    inp, outp = protocols(family, validator)
    if polymorphic:
        inp.polymorphic = True
    app = Application([_svc(received)], TNS, name='VApp', in_protocol=inp, out_protocol=outp)
    wsgi = WsgiApplication(app)
    env = {'REQUEST_METHOD': 'POST', 'PATH_INFO': '/', 'QUERY_STRING': '', 'SERVER_NAME': 'h', 'SERVER_PORT': '80',
           'wsgi.url_scheme': 'http', 'wsgi.input': io.BytesIO(body), 'CONTENT_TYPE': ctype,
           'CONTENT_LENGTH': str(len(body))}
    seen = []

    def sr(status, headers, exc_info=None):
        seen.append(status)
    sr._pyvc_native = True
    out = c.run(wsgi, env, sr)
    resp = None
    if out.returned:
        chunks = []
        c.run(lambda: chunks.extend(list(out.value)))
        resp = b''.join(x for x in chunks if isinstance(x, bytes))
    return out, seen, resp, received, app


def _types_ok(c, received, detail):
    for args in received:
        for (name, model), v in zip(ARGS, args):
            c.check('declared_type[%s]' % name, conforms(model, v), detail=(name, type(v).__name__, repr(v)[:120], detail))


VALID4 = dict(VALID)
VALID4['c'] = {'x': 1, 's': 'y'}
VALID4['l'] = [{'x': 1, 's': 'y'}, {'x': 2, 's': 'z'}]
KINDS4 = KINDS + [1, 0, 1.0, 'true', [{'x': 'str'}], {'x': [1]}, {'x': {'y': 1}}, [None], ['a', 1], [[1, 2]]]


def _mk_kinds(family):
    @obligation('C04.kinds.%s' % family, targets=['spyne.protocol.dictdoc.hier:HierDictDocument._from_dict_value',
                                                  'spyne.protocol.dictdoc.hier:HierDictDocument._doc_to_object'],
                bounded="13 argument positions (incl. nested field, array member, array of objects) x 22 value kinds, soft "
                        "validation",
                desc="dict documents under soft validation: whatever value kind is put at whatever position, every value "
                     "that reaches user code is None, of the declared native type, or a list of such")
    def ob(c):
        pos = c.choose([a for a, _ in ARGS] + ['c.x', 'c.s', 'l[0].x', 'a[0]'], 'position')
        kind = c.choose(list(range(len(KINDS4))), 'value_kind')
        v = KINDS4[kind]
        args = json.loads(json.dumps(VALID4))
        if pos == 'c.x':
            args['c']['x'] = v
        elif pos == 'c.s':
            args['c']['s'] = v
        elif pos == 'l[0].x':
            args['l'][0]['x'] = v
        elif pos == 'a[0]':
            args['a'][0] = v
        else:
            args[pos] = v
        if family.startswith('msgpack') and pos != 'b':
            args['b'] = b'abc'                 # MessagePack carries binary data as bin, not as base64 text
        doc = {'m': args}
        if family == 'json':
            body, ctype = json.dumps(doc).encode(), 'application/json'
        elif family == 'yaml':
            import yaml
            body, ctype = yaml.safe_dump(doc).encode(), 'text/yaml'
        else:
            import msgpack

            def enc(o):
                if isinstance(o, dict):
                    return {(k.encode() if isinstance(k, str) else k): enc(x) for k, x in o.items()}
                if isinstance(o, list):
                    return [enc(x) for x in o]
                if isinstance(o, int) and not isinstance(o, bool) and not (-2 ** 63 <= o < 2 ** 64):
                    return str(o)
                return o
            if family == 'msgpackrpc':
                # MessagePack-RPC: [type, msgid, method, [positional arguments]]
                doc = [0, 1, 'm', [args[k] for k, _ in ARGS]]
            body, ctype = msgpack.packb(enc(doc)), 'application/x-msgpack'
        out, seen, resp, received, app = _run(c, family, 'soft', body, ctype)
        c.check('no_exception_escapes', out.returned, detail=(repr(out), pos, repr(v)))
        _types_ok(c, received, (pos, repr(v)))
    return ob


for _f in ('json', 'yaml', 'msgpack', 'msgpackrpc'):
    _mk_kinds(_f)


# every primitive model the package exports (not only the ones in the main signature): one method per model
def _all_primitives():
    import spyne.model.primitive as P
    from spyne.model import SimpleModel
    skip = ('Any', 'AnyDict', 'AnyXml', 'AnyHtml')      # declared to carry anything / documents: no type to substitute
    out = {}
    for k, v in sorted(vars(P).items()):
        if isinstance(v, type) and issubclass(v, SimpleModel) and hasattr(v, 'Attributes') and k not in skip:
            out[k] = v
    return out


SCALAR_KINDS = [None, True, False, 0, 1, -1, 7, 200, 2 ** 70, 5.5, 1.0, -0.5, 'text', '7', '5.5', '', [], [1], {}, {'a': 1}]


def _native_ok(T, v):
    """None or an instance of the native type of primitive model T (by the model's place in the class tree)."""
    import spyne.model.primitive as P
    if v is None:
        return True
    if issubclass(T, P.Boolean):
        return isinstance(v, bool)
    if issubclass(T, P.Integer):
        return isinstance(v, int) and not isinstance(v, bool)
    if issubclass(T, P.Double):
        return isinstance(v, (int, float)) and not isinstance(v, bool)
    if issubclass(T, P.Decimal):
        return isinstance(v, (decimal.Decimal, int)) and not isinstance(v, bool)
    if issubclass(T, P.Uuid):
        return isinstance(v, uuid.UUID)
    if issubclass(T, P.Unicode):
        return isinstance(v, str)
    if issubclass(T, P.Date):
        return isinstance(v, dt.date) and not isinstance(v, dt.datetime)
    if issubclass(T, P.DateTime):
        return isinstance(v, dt.datetime)
    if issubclass(T, P.Time):
        return isinstance(v, dt.time)
    if issubclass(T, P.Duration):
        return isinstance(v, dt.timedelta)
    return True


def _mk_every_primitive(family):
    @obligation('C04.kinds.every_primitive.%s' % family,
                targets=['spyne.protocol.dictdoc.hier:HierDictDocument._from_dict_value',
                         'spyne.model.primitive.number:Decimal.validate_native',
                         'spyne.model.primitive.number:Integer.validate_native'],
                bounded="every primitive model exported by spyne.model.primitive (about 55, found by introspection) x 20 "
                        "scalar value kinds (null, booleans, integers incl. 2**70, integral and fractional floats, numeric "
                        "and other text, empty and non-empty list and map), soft validation",
                desc="dict documents under soft validation: whatever value kind is sent for an argument of whatever "
                     "primitive model, user code receives None or an instance of the model's native type, or the request "
                     "is refused")
    def ob(c):
        prims = _all_primitives()
        name = c.choose(sorted(prims), 'model')
        T = prims[name]
        received = []

        def m(ctx, v):
            received.append(v)
            return 1
        m._pyvc_native = True
        Svc = type(ServiceBase)('PSvc', (ServiceBase,), {'p': rpc(T, _returns=Integer)(m)})
        inp, outp = protocols(family, 'soft')
        app = Application([Svc], TNS, name='VApp', in_protocol=inp, out_protocol=outp)
        wsgi = WsgiApplication(app)
        bad = []
        escaped = []
        for v in SCALAR_KINDS:
            if family == 'json':
                body, ctype = json.dumps({'p': {'v': v}}).encode(), 'application/json'
            elif family == 'yaml':
                import yaml
                body, ctype = yaml.safe_dump({'p': {'v': v}}).encode(), 'text/yaml'
            else:
                import msgpack
                w = str(v) if isinstance(v, int) and not isinstance(v, bool) and not (-2 ** 63 <= v < 2 ** 64) else v
                doc = [0, 1, 'p', [w]] if family == 'msgpackrpc' else {b'p': {b'v': w}}
                body, ctype = msgpack.packb(doc), 'application/x-msgpack'
            env = {'REQUEST_METHOD': 'POST', 'PATH_INFO': '/', 'QUERY_STRING': '', 'SERVER_NAME': 'h', 'SERVER_PORT': '80',
                   'wsgi.url_scheme': 'http', 'wsgi.input': io.BytesIO(body), 'CONTENT_TYPE': ctype,
                   'CONTENT_LENGTH': str(len(body))}

            def sr(status, headers, exc_info=None):
                pass
            sr._pyvc_native = True
            del received[:]
            out = c.run(wsgi, env, sr)
            if out.returned:
                c.run(lambda: list(out.value))
            else:
                escaped.append((repr(v), repr(out)[:200]))
            for r in received:
                if not _native_ok(T, r):
                    bad.append((repr(v), type(r).__name__, repr(r)[:60]))
        c.check('no_exception_escapes', not escaped, detail=(name, escaped[:3]))
        c.check('argument_is_of_the_declared_native_type', not bad, detail=(name, bad[:4]))
    return ob


for _f in ('json', 'yaml', 'msgpack', 'msgpackrpc'):
    _mk_every_primitive(_f)


XML_ARGS4 = XML_ARGS.replace('<tns:c><tns:x>1</tns:x><tns:s>y</tns:s></tns:c>',
                             '<tns:c><tns:x>1</tns:x><tns:s>y</tns:s></tns:c>') + \
    '<tns:l><tns:Base><tns:x>1</tns:x><tns:s>y</tns:s></tns:Base><tns:Base><tns:x>2</tns:x><tns:s>z</tns:s></tns:Base></tns:l>'
XSI_TYPES = ['xs:string', 'xs:integer', 'xs:date', 'xs:dateTime', 'xs:boolean', 'xs:decimal', 'xs:anyType', 'tns:Base',
             'tns:Derived', 'tns:Other', 'tns:integerArray', 'tns:BaseArray', 'tns:nope', 'nope:Base', 'Base']
RETAG_POS = ['i', 'u', 'd', 't', 'a', 'c', 'n', 'o', 'l', 'c.x', 'l.Base', 'a.integer']


def _retag(xml, pos, xsi_type):
    attr = ' xmlns:xsi="%s" xmlns:xs="%s" xsi:type="%s"' % (XSI, XS, xsi_type)
    tag = pos.split('.')[-1]
    if '.' in pos:
        parent = pos.split('.')[0]
        i = xml.index('<tns:%s>' % parent)
        j = xml.index('<tns:%s>' % tag, i)
    else:
        j = xml.index('<tns:%s>' % tag)
    return xml[:j] + '<tns:%s%s>' % (tag, attr) + xml[j + len('<tns:%s>' % tag):]


def _mk_xsi(family, validator):
    @obligation('C04.xsi_type.%s.%s' % (family, validator or 'none'),
                targets=['spyne.protocol.xml:XmlDocument.from_element'],
                bounded="12 element positions x 15 xsi:type values (every class the interface knows, builtins, unknown "
                        "names and prefixes)",
                desc="XML families: retagging any element with xsi:type of any class cannot substitute a value of an "
                     "unrelated type -- user code receives the declared type (or a registered subclass of a declared "
                     "complex type) or the request is answered with a client fault")
    def ob(c):
        pos = c.choose(RETAG_POS, 'position')
        xt = c.choose(XSI_TYPES, 'xsi_type')
        inner = _retag(XML_ARGS4, pos, xt)
        body = '<tns:m>%s</tns:m>' % inner
        if family == 'xml':
            data = body.replace('<tns:m>', '<tns:m xmlns:tns="%s">' % TNS, 1).encode()
        else:
            data = soap_env(SOAP11_NS if family == 'soap11' else SOAP12_NS, body)
        out, seen, resp, received, app = _run(c, family, validator, data, 'text/xml', polymorphic=True)
        c.check('no_exception_escapes', out.returned, detail=(repr(out), pos, xt))
        _types_ok(c, received, (pos, xt))
    return ob


for _f in ('xml', 'soap11'):
    for _v in ('soft', None, 'lxml'):
        _mk_xsi(_f, _v)


@obligation('C04.xml.nil', targets=['spyne.protocol.xml:XmlDocument.from_element'],
            bounded="xsi:nil in {absent, true, 1, false, 0, junk} x 3 slot types x validators",
            desc="xsi:nil marks a null only when its value is true or 1 (XML Schema instance)")
def xml_nil(c):
    nil = c.choose([None, 'true', '1', 'false', '0', 'junk'], 'xsi_nil')
    validator = c.choose(['soft', None], 'validator')
    attr = '' if nil is None else ' xmlns:xsi="%s" xsi:nil="%s"' % (XSI, nil)
    inner = XML_ARGS4.replace('<tns:i>5</tns:i>', '<tns:i%s>5</tns:i>' % attr)
    data = ('<tns:m xmlns:tns="%s">%s</tns:m>' % (TNS, inner)).encode()
    out, seen, resp, received, app = _run(c, 'xml', validator, data, 'text/xml')
    c.check('no_exception_escapes', out.returned, detail=repr(out))
    is_nil = nil in ('true', '1')
    if nil in (None, 'true', '1', 'false', '0'):
        c.check('function_called', len(received) == 1, detail=(seen, (resp or b'')[:200]))
        if received:
            c.check('nil_iff_true_or_1', (received[0][0] is None) == is_nil and (is_nil or received[0][0] == 5),
                    detail=(nil, received[0][0]))


@obligation('C04.wrapper.subclass_check', targets=['spyne.protocol.dictdoc.hier:HierDictDocument._doc_to_object'],
            bounded="wrapper keys: declared class, registered subclass, unrelated class, case/prefix variants, two keys",
            desc="dict documents with ignore_wrappers=False: the wrapper key can select the declared class or a registered "
                 "subclass only; anything else is a validation fault")
def wrapper(c):
    prot = JsonDocument(ignore_wrappers=False, validator='soft', polymorphic=True)
    app = Application([_svc([])], TNS, in_protocol=prot, out_protocol=JsonDocument())
    key = c.choose(['Base', 'Derived', 'Other', 'base', 'Bas', 'BaseX', '', 'Inner'], 'wrapper_key')
    doc = {key: {'x': 1, 's': 'y'}}
    out = c.run(prot._doc_to_object, None, Base, doc, prot.validator)
    if key in ('Base', 'Derived'):
        c.check('accepted', out.returned and isinstance(out.value, Base) and type(out.value).__name__ == key,
                detail=repr(out))
    else:
        c.check('rejected_with_validation_fault', out.raised_a(ValidationError), detail=repr(out))
    o2 = c.run(prot._doc_to_object, None, Base, {'Base': {'x': 1}, 'Derived': {'x': 2}}, prot.validator)
    c.check('two_wrapper_keys_rejected', o2.raised_a(ValidationError), detail=repr(o2))


KIND_VALUES = [None, True, False, 'int', 2.5, float('inf'), 'x', '', b'x', [], [1], (), (1,), {}, {'a': 1}]


def _mk_ret(pname, P):
    @obligation('C04.scalar_kinds.%s' % pname,
                targets=['spyne.protocol.json:JsonDocument._ret_number', 'spyne.protocol.json:JsonDocument._ret_bool'],
                desc="complete case analysis over the value kinds a document parser can produce (null, bool, any integer "
                     "[symbolic], float, text, bytes, list, tuple, map): _ret_number returns a number or raises "
                     "ValidationError; _ret_bool returns a bool/None or raises ValidationError")
    def ob(c):
        prot = P()
        v = c.choose(list(range(len(KIND_VALUES))), 'value')
        v = KIND_VALUES[v]
        if isinstance(v, tuple) and P is not MessagePackDocument:
            c.end("json/yaml parsers produce lists, never tuples")
        if v == 'int':
            v = c.int('integer_value')
        o = c.run(prot._ret_number, Integer, v)
        from pyvc.sym import SInt, SBool
        num_ok = o.returned and (o.value is None or isinstance(o.value, SInt) or (
            isinstance(o.value, (int, float)) and not isinstance(o.value, bool)))
        c.check('ret_number', num_ok or o.raised_a(ValidationError), detail=(repr(v), repr(o)))
        b = c.run(prot._ret_bool, Boolean, v)
        c.check('ret_bool', (b.returned and (b.value is None or isinstance(b.value, (bool, SBool)))) or
                b.raised_a(ValidationError), detail=(repr(v), repr(b)))
    return ob


for _pn, _P in (('JsonDocument', JsonDocument), ('YamlDocument', YamlDocument), ('MessagePackDocument', MessagePackDocument)):
    _mk_ret(_pn, _P)


def _mk_from_element(pname, P):
    @obligation('C04.from_element.%s' % pname, targets=['spyne.protocol.xml:XmlDocument.from_element'],
                desc="from_element(declared, element with xsi:type naming any class of the interface): the deserialization "
                     "handler is entered with a class whose original derives from the declared class' original, and with "
                     "the declared (customised) class itself when xsi:type only repeats it; otherwise ValidationError -- "
                     "for every (declared, named) pair of the interface's class registry and every validator",
                assumptions=["closed world: the class registry of the verification interface (builtins, two hierarchies, "
                             "arrays, a customised simple type)"], replay=False)
    def ob(c):
        from lxml import etree
        from spyne.context import MethodContext
        from spyne.server import ServerBase
        validator = c.choose(['soft', None], 'validator')
        prot = P(validator=validator)
        prot.polymorphic = True
        CInt = Integer(ge=10)
        svc = _svc([])
        app = Application([svc], TNS, in_protocol=prot, out_protocol=P())
        ctx = MethodContext(ServerBase(app), MethodContext.SERVER)
        classes = app.interface.classes
        keys = sorted(k for k in classes if k.startswith('{') and '}' in k)
        declared_pool = [Integer, CInt, Unicode, Date, Base, Derived, Other, Array(Integer), Base.customize(min_occurs=1)]
        di = c.choose(list(range(len(declared_pool))), 'declared')
        ki = c.choose(list(range(len(keys))), 'named_class')
        declared, key = declared_pool[di], keys[ki]
        ns, name = key[1:].split('}')
        elt = etree.fromstring('<v xmlns:q="%s" xmlns:xsi="%s" xsi:type="q:%s">5</v>' % (ns, XSI, name))
        entered = []

        class _Handlers(object):
            def __getitem__(self, cls):
                def handler(ctx_, cls_, element):
                    entered.append(cls_)
                    return None
                handler._pyvc_native = True
                return handler
        if c.concrete:
            c.end("symbolic-only: the handler table is replaced by a recorder")
        prot.deserialization_handlers = _Handlers()
        # history: every class of the interface has already been named legally (xsi:type repeating the declared class)
        # by earlier elements/requests on this protocol instance -- resolution must not depend on that
        for k2 in keys:
            ns2, name2 = k2[1:].split('}')
            warm = etree.fromstring('<v xmlns:q="%s" xmlns:xsi="%s" xsi:type="q:%s">5</v>' % (ns2, XSI, name2))
            o2 = getattr(classes[k2], '__orig__', None) or classes[k2]
            for k1 in keys:          # every legal use: the named class under each class it derives from
                o1 = getattr(classes[k1], '__orig__', None) or classes[k1]
                if issubclass(o2, o1):
                    c.run(prot.from_element, ctx, classes[k1], warm)
        del entered[:]
        out = c.run(prot.from_element, ctx, declared, elt)
        named = classes[key]
        o_decl = getattr(declared, '__orig__', None) or declared
        o_named = getattr(named, '__orig__', None) or named
        if out.returned:
            c.check('handler_entered_once', len(entered) == 1, detail=len(entered))
            got = entered[0]
            o_got = getattr(got, '__orig__', None) or got
            c.check('class_derives_from_declared', issubclass(o_got, o_decl), detail=(repr(got), repr(declared), key))
            if o_named is o_decl:
                c.check('declared_customisation_kept', got is declared, detail=(repr(got), repr(declared)))
        else:
            c.check('rejected_with_validation_error', out.raised_a(ValidationError), detail=repr(out))
            c.check('rejected_only_if_unrelated', not issubclass(o_named, o_decl), detail=(key, repr(declared)))
    return ob


for _pn, _P in (('XmlDocument', XmlDocument), ('Soap11', Soap11)):
    _mk_from_element(_pn, _P)


from spyne.model.enum import Enum

Colour = Enum('red', 'green', type_name='Colour')


class _Elt(object):
    def __init__(self, text):
        self.text = text
        self.tag = 'v'
        self.nsmap = {}
        self.attrib = {}

    def get(self, k, default=None):
        return default


def _mk_enum(pname, P):
    @obligation('C04.enum.%s' % pname, targets=['spyne.protocol.xml:XmlDocument.enum_from_element'],
                desc="an Enum slot filled from an element with arbitrary (symbolic) text yields a member of that Enum or a "
                     "ValidationError -- never another attribute of the enum class",
                assumptions=["getattr(cls, name) on a symbolic name forks over dir(cls)"])
    def ob(c):
        prot = P(validator='soft')
        text = c.str('text')
        out = c.run(prot.enum_from_element, None, Colour, _Elt(text))
        members = [getattr(Colour, n) for n in ('red', 'green')]
        if out.returned:
            c.check('member_of_the_enum', any(out.value is m for m in members), detail=repr(out.value))
        else:
            c.check('validation_error', out.raised_a(ValidationError), detail=repr(out))
    return ob


for _pn, _P in (('XmlDocument', XmlDocument), ('Soap11', Soap11)):
    _mk_enum(_pn, _P)


# ------------------------------------------------------------------------------------------ odd literals of every primitive

def _mk_lexical(family, validator):
    @obligation('C04.lexical_types.%s.%s' % (family, validator or 'none'),
                targets=['spyne.protocol._inbase:InProtocolBase.from_unicode', 'spyne.protocol.xml:XmlDocument.base_from_element',
                         'spyne.protocol.http:HttpRpc.decompose_incoming_envelope'],
                bounded="126 literals of 12 primitive types (canonical forms, redundant signs / zeros / blanks, exponent and "
                        "special values, other alphabets, near-miss spellings), one argument each",
                desc="whatever text is sent for a primitive argument, the user function is either not entered or receives a "
                     "value of exactly the declared native type (an int for an Integer -- not a Decimal or a float --, a "
                     "date for a Date, ...), or None")
    def ob(c):
        from .c06_schema import LEXICAL
        from urllib.parse import quote
        tname = c.choose(list(LEXICAL), 'type')
        mk, lits = LEXICAL[tname]
        lit = c.choose(lits, 'literal')
        calls = []

        def check(ctx, x):
            calls.append(x)
            return 1
        check._pyvc_native = True
        T = mk()
        Svc = type(ServiceBase)('Svc', (ServiceBase,), {'check': rpc(T, _returns=Integer)(check)})
        inp, outp = protocols(family, validator)
        app = Application([Svc], TNS, name='VApp', in_protocol=inp, out_protocol=outp)
        if family == 'http':
            env_kw = dict(REQUEST_METHOD='GET', PATH_INFO='/check', QUERY_STRING='x=' + quote(lit.encode('utf8')), body=b'')
        else:
            body = (u'<tns:check xmlns:tns="%s"><tns:x>%s</tns:x></tns:check>' % (TNS, lit)).encode('utf8')
            if family != 'xml':
                body = soap_env(SOAP11_NS, body.decode('utf8').replace(' xmlns:tns="%s"' % TNS, ''))
            env_kw = dict(REQUEST_METHOD='POST', PATH_INFO='/', QUERY_STRING='', body=body)
        body = env_kw.pop('body')
        env = dict(env_kw, SERVER_NAME='h', SERVER_PORT='80', CONTENT_TYPE='text/xml', CONTENT_LENGTH=str(len(body)))
        env['wsgi.url_scheme'] = 'http'
        env['wsgi.input'] = io.BytesIO(body)
        seen = []

        def sr(status, headers, exc_info=None):
            seen.append(status)
        sr._pyvc_native = True
        out = c.run(WsgiApplication(app), env, sr)
        c.check('callable_returns', out.returned, detail=repr(out))
        if out.returned:
            c.run(lambda: list(out.value))
        for v in calls:
            c.check('argument_is_of_the_declared_native_type', conforms(T, v), detail=(tname, lit, type(v).__name__, repr(v)[:80]))
    return ob


for _f in ('xml', 'soap11', 'http'):
    for _v in ('soft', None):
        _mk_lexical(_f, _v)


# ---------------------------------------------------------------------------------------------------------------
# flat documents (HttpRpc): what _to_native_values hands on, for every raw value kind a transport can deliver

def _mk_flat_native(vname, validator):
    @obligation('C04.flat.to_native_values.%s' % vname,
                targets=['spyne.protocol.dictdoc.simple:SimpleDictDocument._to_native_values'],
                bounded="9 declared member types x 6 raw value kinds a transport delivers (text, bytes, an uploaded multipart "
                        "part as File.Value, junk text, empty text, None) x 1..2 values",
                desc="_to_native_values(member, raw values): whatever the transport delivered for the key -- text, bytes or an "
                     "uploaded file part -- every value handed on is None or an instance of the declared member type's "
                     "native Python type; an uploaded part is only passed through for a File member")
    def ob(c):
        import datetime
        import decimal
        from spyne.model.binary import File, ByteArray
        from spyne.model.primitive import Boolean, Decimal, Double, Integer32
        from spyne.protocol.http import HttpRpc
        pool = [('Integer', Integer, (int,)), ('Integer32', Integer32, (int,)), ('Unicode', Unicode, (str,)),
                ('Date', Date, (datetime.date,)), ('Boolean', Boolean, (bool,)), ('Decimal', Decimal, (decimal.Decimal,)),
                ('Double', Double, (float,)), ('File', File, (File.Value,)), ('ByteArray', ByteArray, (list, tuple, bytes))]
        name, T, native = c.choose(pool, 'declared_member_type')
        raw_kind = c.choose(['text', 'bytes', 'file_part', 'junk', 'empty', 'none'], 'raw_value_kind')
        n = c.choose([1, 2], 'values')

        def raw():
            return {'text': u'5', 'bytes': b'5', 'junk': u'jun k', 'empty': u'', 'none': None,
                    'file_part': File.Value(name='up.bin', type='application/octet-stream', data=[b'5'])}[raw_kind]
        prot = HttpRpc(validator=validator)
        Holder = type(ComplexModel)('FlatHolder', (ComplexModel,), {'__namespace__': TNS, '_type_info': [('m', T)]})
        member = type('Member', (object,), {'type': T, 'path': ('m',), 'parent': Holder})()
        out = c.run(prot._to_native_values, Holder, member, 'm', 'm', [raw() for _ in range(n)], 'utf8', prot.validator)
        if not out.returned:
            c.end("refused: nothing is handed on")
        vals = list(out.value)
        c.check('handed_on_values_have_declared_native_type',
                all(v is None or (isinstance(v, native) and not (native == (int,) and isinstance(v, bool))) for v in vals),
                detail=(name, raw_kind, [type(v).__name__ for v in vals]))
        c.check('file_part_only_for_file_member', issubclass(T, File) or not any(isinstance(v, File.Value) for v in vals),
                detail=(name, raw_kind))
    return ob


for _vn, _v in (('soft', 'soft'), ('none', None)):
    _mk_flat_native(_vn, _v)
