"""C05 (f): the same logical request gets the same verdict -- accepted iff every value conforms --
over XML, SOAP, JSON, YAML, MessagePack and HttpRpc, with the user function not entered on rejection.

Composition step: the value-level verdicts are proved symbolically (c05_numbers / c05_strings); here
each protocol family's real enforcement path (WsgiApplication.__call__ down to from_element /
_from_dict_value / _to_native_values / the occurrence checks) is executed for boundary values of
every facet kind and compared with the spec predicate."""
import io
import json
from collections import OrderedDict

from pyvc.oblig import obligation

from spyne import Application, ServiceBase, rpc
from spyne.model.complex import ComplexModel, Array
from spyne.model.enum import Enum
from spyne.model.primitive import (Integer, Integer8, UnsignedInteger8, Integer32, Unicode, Decimal, Boolean, Date, DateTime)
from spyne.server.wsgi import WsgiApplication

from .pipeline import protocols, soap_env, SOAP11_NS, SOAP12_NS, TNS, FAMILIES_ALL

ABSENT = '__absent__'
Colour = Enum('red', 'green', type_name='Colour')

FIELDS = OrderedDict([
    ('b', dict(type=lambda: Integer8, ok=lambda v: -128 <= v <= 127, base=5, probe=[-129, -128, 127, 128])),
    ('u', dict(type=lambda: UnsignedInteger8, ok=lambda v: 0 <= v <= 255, base=5, probe=[-1, 0, 255, 256])),
    ('w', dict(type=lambda: Integer32, ok=lambda v: -2 ** 31 <= v <= 2 ** 31 - 1, base=5,
               probe=[-2 ** 31 - 1, -2 ** 31, 2 ** 31 - 1, 2 ** 31])),
    ('s', dict(type=lambda: Unicode(min_len=2, max_len=4, pattern='[a-z]+'),
               ok=lambda v: 2 <= len(v) <= 4 and v.isalpha() and v.islower() and v.isascii(), base='abc',
               probe=['a', 'ab', 'abcd', 'abcde', 'aB', 'ab1'])),
    ('e', dict(type=lambda: Colour, ok=lambda v: v in ('red', 'green'), base='red', probe=['green', 'blue', 'Red'])),
    ('r', dict(type=lambda: Integer(ge=10, lt=20), ok=lambda v: 10 <= v < 20, base=15, probe=[9, 10, 19, 20])),
    ('g', dict(type=lambda: Integer(gt=0, le=3), ok=lambda v: 0 < v <= 3, base=1, probe=[0, 1, 3, 4])),
    ('o', dict(type=lambda: Integer(min_occurs=1, max_occurs=2), ok=lambda v: 1 <= len(v) <= 2, base=[1],
               probe=[[], [1, 2], [1, 2, 3]], multi=True)),
    ('ow', dict(type=lambda: Array(Integer(max_occurs=2), wrapped=False), ok=lambda v: len(v) <= 2, base=[1],
                probe=[[1, 2], [1, 2, 3], [1, 2, 3, 4]], multi=True)),
    ('n', dict(type=lambda: Integer(min_occurs=1, nullable=False), ok=lambda v: v is not ABSENT, base=7,
               probe=['__absent__'])),
    ('v', dict(type=lambda: Integer(values=[2, 4]), ok=lambda v: v in (2, 4), base=2, probe=[4, 3])),
    ('d', dict(type=lambda: Integer, ok=lambda v: not isinstance(v, list), base=3, probe=[[1, 2], ABSENT])),
    # lexical well-formedness: only the XSD literal forms are dates / date-times (not the other ISO 8601 spellings)
    ('da', dict(type=lambda: Date, ok=lambda v: _is_xsd_date(v), base='2020-02-28',
                probe=['20200228', '2020-W09-5', '2020-02-30', '2020-02-28Z', '2020-02-28+05:30', '2020-059'])),
    ('dm', dict(type=lambda: DateTime, ok=lambda v: _is_xsd_datetime(v), base='2020-02-28T10:11:12',
                probe=['20200228T101112', '2020-02-28T10:11:12Z', '2020-02-28T10:11:12.5+01:00', '2020-W09-5T10:11:12',
                       '2020-02-28T25:00:00'])),
    # a complex argument whose class inherits constrained members: inherited and own members are enforced alike
    ('x', dict(type=lambda: SubArg, complex=True,
               ok=lambda v: 'im' in v and len(v.get('ir', [])) <= 2 and 'om' in v and (v['im'] is None or v['im'] >= 0),
               base=OrderedDict([('im', 1), ('om', 2)]),
               probe=[OrderedDict([('im', 0), ('ir', [1, 2]), ('om', 2)]), OrderedDict([('om', 2)]),
                      OrderedDict([('im', 1), ('ir', [1, 2, 3]), ('om', 2)]), OrderedDict([('im', 1)]),
                      OrderedDict([('im', -1), ('om', 2)])])),
    # a repeated complex member: occurrence bounds count the items
    ('xs', dict(type=lambda: SubArg.customize(min_occurs=1, max_occurs=2), complex_list=True,
                ok=lambda v: 1 <= len(v) <= 2 and all('im' in i and 'om' in i for i in v),
                base=[OrderedDict([('im', 1), ('om', 2)])],
                probe=[[], [OrderedDict([('im', 1), ('om', 2)]), OrderedDict([('im', 3), ('om', 4)])],
                       [OrderedDict([('im', 1), ('om', 2)])] * 3, [OrderedDict([('im', 1)])]])),
])


def _is_xsd_date(v):
    import datetime as dt
    import re
    m = re.fullmatch(r'(\d{4})-(\d{2})-(\d{2})(Z|[+-]\d{2}:\d{2})?', v)
    if not m:
        return False
    try:
        dt.date(int(m.group(1)), int(m.group(2)), int(m.group(3)))
    except ValueError:
        return False
    return True


def _is_xsd_datetime(v):
    import datetime as dt
    import re
    m = re.fullmatch(r'(\d{4})-(\d{2})-(\d{2})T(\d{2}):(\d{2}):(\d{2})(\.\d+)?(Z|[+-]\d{2}:\d{2})?', v)
    if not m:
        return False
    try:
        dt.datetime(*[int(m.group(i)) for i in range(1, 7)])
    except ValueError:
        return False
    return True


class BaseArg(ComplexModel):
    __namespace__ = TNS
    im = Integer(min_occurs=1, ge=0)
    ir = Integer(max_occurs=2)


class SubArg(BaseArg):
    __namespace__ = TNS
    om = Integer(min_occurs=1)


def _q(x):
    from urllib.parse import quote
    return quote(str(x), safe='')


def _positional(v):
    """the positional form of a BaseArg / SubArg value: all members in declaration order, parents first"""
    return [v.get('im'), v.get('ir'), v.get('om')]


def _ok_positional(v):
    # an unset member is spelled as null in the positional form: present and null, which a nillable member admits
    return len(v.get('ir') or []) <= 2 and (v.get('im') is None or v['im'] >= 0)


def build_request(family, args, meth='check', positional=False, _positional=_positional):
    """The request document that spells `args` (name -> value | list | ABSENT) by the family's conventions."""
    args = OrderedDict((k, v) for k, v in args.items() if v != ABSENT)
    if positional:
        args = OrderedDict((k, (_positional(v) if isinstance(v, dict) else [_positional(i) for i in v]
                                if isinstance(v, list) and v and isinstance(v[0], dict) else v)) for k, v in args.items())
    if family == 'http':
        parts = []
        for k, v in args.items():
            if isinstance(v, dict):
                for k2, v2 in v.items():
                    for x in (v2 if isinstance(v2, list) else [v2]):
                        parts.append('%s.%s=%s' % (k, k2, _q(x)))
                continue
            if isinstance(v, list) and v and isinstance(v[0], dict):
                for i, item in enumerate(v):
                    for k2, v2 in item.items():
                        parts.append('%s[%d].%s=%s' % (k, i, k2, _q(v2)))
                continue
            for x in (v if isinstance(v, list) else [v]):
                parts.append('%s=%s' % (k, _q(x)))
        return 'GET', '/' + meth, '&'.join(parts), b'', 'text/plain'
    if family == 'json':
        return 'POST', '/', '', json.dumps({meth: args}).encode(), 'application/json'
    if family == 'yaml':
        import yaml
        plain = lambda v: dict(v) if isinstance(v, dict) else ([plain(x) for x in v] if isinstance(v, list) else v)
        return 'POST', '/', '', yaml.safe_dump({meth: {k: plain(v) for k, v in args.items()}}).encode(), 'text/yaml'
    if family == 'msgpackrpc':
        # MessagePack-RPC: [type, msgid, method, [positional arguments]]; an argument that is not given is null
        import msgpack
        full = OrderedDict((k, None) for k in FIELDS) if meth == 'check' else OrderedDict()
        full.update(args)
        bk = lambda v: {k2: bk(v2) for k2, v2 in v.items()} if isinstance(v, dict) else (
            [bk(x) for x in v] if isinstance(v, list) else v)
        return 'POST', '/', '', msgpack.packb([0, 1, meth, [bk(v) for v in full.values()]]), 'application/x-msgpack'
    if family == 'msgpack':
        import msgpack
        bk = lambda v: {k2.encode(): v2 for k2, v2 in v.items()} if isinstance(v, dict) else (
            [bk(x) for x in v] if isinstance(v, list) else v)
        return 'POST', '/', '', msgpack.packb({meth.encode(): {k.encode(): bk(v) for k, v in args.items()}}), 'application/x-msgpack'
    elts = []
    for k, v in args.items():
        if isinstance(v, dict) or (isinstance(v, list) and v and isinstance(v[0], dict)):
            for item in (v if isinstance(v, list) else [v]):
                inner = ''.join('<tns:%s>%s</tns:%s>' % (k2, x, k2) for k2, v2 in item.items()
                                for x in (v2 if isinstance(v2, list) else [v2]))
                elts.append('<tns:%s>%s</tns:%s>' % (k, inner, k))
            continue
        for x in (v if isinstance(v, list) else [v]):
            elts.append('<tns:%s>%s</tns:%s>' % (k, x, k))
    body = '<tns:%s>%s</tns:%s>' % (meth, ''.join(elts), meth)
    if family == 'xml':
        return 'POST', '/', '', body.replace('<tns:%s>' % meth, '<tns:%s xmlns:tns="%s">' % (meth, TNS), 1).encode(), 'text/xml'
    return 'POST', '/', '', soap_env(SOAP11_NS if family == 'soap11' else SOAP12_NS, body), 'text/xml'


def _mk(family):
    @obligation('C05.pipeline.%s' % family, targets=['spyne.server.wsgi:WsgiApplication.__call__'],
                desc="soft validation over the whole request path: accepted (user function entered with the values) iff "
                     "every value conforms; otherwise the function is not entered and the fault is in the "
                     "Client.ValidationError family; boundary values of fixed-width bounds, length, pattern, enumeration, "
                     "ranges, occurrence and nullability",
                bounded="one probe value at a time around every boundary of 13 constrained arguments (50 requests); complex "
                        "arguments as maps and positionally (dict documents); on a fresh application and after another "
                        "method of the service (taking the parent class) has been served",
                assumptions=["request documents are built by the documented conventions of each protocol"])
    def ob(c):
        probes = [(None, None)] + [(k, p) for k, f in FIELDS.items() for p in f['probe']]
        field, probe = c.choose(probes, 'probe')
        args = OrderedDict((k, f['base']) for k, f in FIELDS.items())
        if field is not None:
            args[field] = probe
        # dict documents may spell an object as a map or positionally (a sequence aligned with the members)
        positional = family in ('json', 'yaml', 'msgpack', 'msgpackrpc') and field in (None, 'x', 'xs') and \
            c.choose(['map', 'positional'], 'object_shape') == 'positional'
        # the application may have served other requests before (the service's other method, same document shape)
        warm = field in (None, 'x', 'xs') and c.choose(['cold', 'warm'], 'history') == 'warm'
        if positional:
            expected_ok = all(f['ok'](args[k]) for k, f in FIELDS.items() if k not in ('x', 'xs')) and \
                _ok_positional(args['x']) and 1 <= len(args['xs']) <= 2 and all(_ok_positional(i) for i in args['xs'])
        else:
            expected_ok = all(f['ok'](args[k]) for k, f in FIELDS.items())
        names = list(FIELDS)
        types = [FIELDS[k]['type']() for k in names]
        calls = []

        ns_ = {}
        exec("def check(ctx, %s):\n    return _rec(%s)\n" % (', '.join(names), ', '.join(names)),
             dict(_rec=lambda *a: (calls.append(a), 1)[1]), ns_)
        check = ns_['check']
        check._pyvc_native = True
        def other(ctx, p):
            return 1
        other._pyvc_native = True
        Svc = type(ServiceBase)('Svc', (ServiceBase,), {'check': rpc(*types, _returns=Integer)(check),
                                                        'other': rpc(BaseArg, _returns=Integer)(other)})
        if family == 'http_strict_arrays':
            from spyne.protocol.http import HttpRpc
            from spyne.protocol.json import JsonDocument
            inp, outp = HttpRpc(validator='soft', strict_arrays=True), JsonDocument()
        else:
            inp, outp = protocols(family, 'soft')
        app = Application([Svc], TNS, name='VApp', in_protocol=inp, out_protocol=outp)
        wsgi = WsgiApplication(app)
        fam = 'http' if family == 'http_strict_arrays' else family
        if warm:
            wm, wp, wq, wb, wc = build_request(fam, OrderedDict([('p', OrderedDict([('im', 1)]))]), 'other', positional,
                                                 lambda v: [v.get('im'), v.get('ir')])
            wenv = {'REQUEST_METHOD': wm, 'PATH_INFO': wp, 'QUERY_STRING': wq, 'SERVER_NAME': 'h', 'SERVER_PORT': '80',
                    'wsgi.url_scheme': 'http', 'wsgi.input': io.BytesIO(wb), 'CONTENT_TYPE': wc, 'CONTENT_LENGTH': str(len(wb))}
            wseen = []

            def wsr(status, headers, exc_info=None):
                wseen.append(status)
            wsr._pyvc_native = True
            wo = c.run(wsgi, wenv, wsr)
            if wo.returned:
                c.run(lambda: list(wo.value))
            c.check('earlier_request_served', wo.returned and bool(wseen) and wseen[0].startswith('200'), detail=(repr(wo), wseen))
        method, path, qs, body, ctype = build_request(fam, args, 'check', positional)
        env = {'REQUEST_METHOD': method, 'PATH_INFO': path, 'QUERY_STRING': qs, 'SERVER_NAME': 'h', 'SERVER_PORT': '80',
               'wsgi.url_scheme': 'http', 'wsgi.input': io.BytesIO(body), 'CONTENT_TYPE': ctype,
               'CONTENT_LENGTH': str(len(body))}
        seen = []

        def start_response(status, headers, exc_info=None):
            seen.append(status)
        start_response._pyvc_native = True
        out = c.run(wsgi, env, start_response)
        c.check('callable_returns', out.returned, detail=repr(out))
        if not out.returned:
            return
        chunks = []
        o2 = c.run(lambda: chunks.extend(list(out.value)))
        resp = b''.join(x for x in chunks if isinstance(x, bytes))
        detail = dict(probe=(field, probe), status=seen, response=resp[:300], calls=calls)
        c.check('accepted_iff_conforms', (len(calls) == 1) == expected_ok, detail=detail)
        if expected_ok and len(calls) == 1:
            got = dict(zip(names, calls[0]))
            want = dict(args)
            norm = {k: (list(got[k]) if isinstance(got[k], (list, tuple)) else got[k]) for k in names}
            norm['e'] = str(getattr(norm['e'], 'name', norm['e'])) if not isinstance(norm['e'], str) else norm['e']
            c.check('values_delivered', all(norm[k] == (None if want[k] == ABSENT else want[k]) for k in names
                                            if k not in ('e', 'x', 'xs', 'da', 'dm')), detail=(norm, want))
            gxs = list(got['xs'] or [])
            c.check('repeated_complex_argument_delivered', [(i.im, i.om) for i in gxs] == [(w.get('im'), w.get('om')) for w in
                                                                                             want['xs']], detail=(gxs, want['xs']))
            gx = got['x']
            c.check('complex_argument_delivered', gx is not None and gx.im == want['x'].get('im') and gx.om == want['x'].get('om')
                    and list(gx.ir or []) == list(want['x'].get('ir', [])), detail=(repr(gx), want['x']))
        if not expected_ok:
            from spec import faultdoc
            try:
                doc = faultdoc.decode_fault('http' if family == 'http_strict_arrays' else family, resp)
            except Exception as e:
                doc = None
            code = (doc or {}).get('faultcode') or ''
            c.check('rejected_with_client_validation_fault', len(calls) == 0 and
                    (code == 'Client' or code.startswith('Client.')), detail=detail)
            if not family.startswith('soap'):
                c.check('rejected_status_4xx', bool(seen) and seen[0][:1] == '4', detail=detail)
    return ob


for _f in FAMILIES_ALL + ['http_strict_arrays']:
    _mk(_f)               # (MessagePack-RPC passes arguments positionally: an argument that is not given arrives as null)
