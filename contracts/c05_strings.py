"""C05: string-typed models: length facets (validate_string), whole-string pattern and enumeration
(validate_native), enum membership; for an arbitrary (symbolic) input string."""
import re

import z3

from pyvc.oblig import obligation
from pyvc.sym import And, Or, Not, Implies, Iff, If, Len, SBool
from pyvc import regexmodel

from spyne.model.enum import Enum
from spyne.model.primitive import Unicode, AnyUri, Uuid
from spyne.model.primitive._base import re_match_with_span

PATTERNS = [None, '[0-9]{5}', 'a|ab', '[a-z]+@[a-z]+\\.com', 'x*', '(ab)+c?', '[^/]+/[^/]*']


def in_language(c, pattern, s):
    """Spec: s is in the language of the declared pattern (whole string)."""
    if pattern is None:
        return True
    if c.concrete:
        return re.compile(pattern).fullmatch(s) is not None
    return SBool(z3.InRe(s.t, regexmodel.language(re.compile(pattern))))


def _mk_validate_string(T, name):
    @obligation('C05.string.%s.validate_string.equiv' % name,
                targets=['spyne.model.primitive.string:Unicode.validate_string'],
                desc="validate_string(cls, s) <=> nullable if s is None else min_len <= len(s) <= max_len, for symbolic "
                     "length facets and an arbitrary string",
                assumptions=["len() of a str is its number of code points (z3 sequence length)"])
    def ob(c):
        nullable = c.bool('nullable')
        min_len = c.int('min_len')
        has_max = c.choose(2, 'max_len_declared')
        max_len = c.int('max_len') if has_max else None
        kw = dict(nullable=nullable, min_len=min_len)
        if has_max:
            kw['max_len'] = max_len
        if c.concrete:
            cls = T.customize(**kw)
        else:
            cls = T.customize()
            for k, v in kw.items():
                setattr(cls.Attributes, k, v)
        is_none = bool(c.choose(2, 'value_is_none'))
        s = None if is_none else c.str('value')
        out = c.run(T.validate_string, cls, s)
        c.check('returns', out.returned, detail=repr(out))
        if out.returned:
            if is_none:
                spec = nullable
            else:
                spec = And(min_len <= Len(s), True if max_len is None else Len(s) <= max_len)
            c.check('equiv', Iff(out.value, spec))
    return ob


_mk_validate_string(Unicode, 'Unicode')
_mk_validate_string(AnyUri, 'AnyUri')


def _mk_validate_native(T, name):
    @obligation('C05.string.%s.validate_native.equiv' % name,
                targets=['spyne.model.primitive.string:Unicode.validate_native',
                         'spyne.model.primitive._base:re_match_with_span'],
                desc="validate_native(cls, s) <=> nullable if s is None else (s in L(pattern), whole string) and "
                     "(no enumeration or s in values), for representative patterns and an arbitrary string",
                assumptions=["re engine: p.fullmatch(s) is not None <=> s in L(p); p.match(s) finds some prefix in L(p) "
                             "(pyvc/regexmodel.py; sre parse tree -> z3 regex for the supported constructs)"])
    def ob(c):
        nullable = c.bool('nullable')
        pattern = c.choose(PATTERNS, 'pattern')
        values = c.choose([[], ['ab', '12345', 'xx']], 'values')
        kw = dict(nullable=nullable)
        if pattern is not None:
            kw['pattern'] = pattern
        if values:
            kw['values'] = values
        if c.concrete:
            cls = T.customize(**kw)
        else:
            kw.pop('nullable')
            cls = T.customize(**kw)
            cls.Attributes.nullable = nullable
        is_none = bool(c.choose(2, 'value_is_none'))
        s = None if is_none else c.str('value')
        out = c.run(T.validate_native, cls, s)
        c.check('returns', out.returned, detail=repr(out))
        if out.returned:
            if is_none:
                spec = nullable
            else:
                spec = And(in_language(c, pattern, s), Or(*[s == v for v in values]) if values else True)
            c.check('equiv', Iff(out.value, spec))
    return ob


_mk_validate_native(Unicode, 'Unicode')


@obligation('C05.enum.validate_string.equiv', targets=['spyne.model.enum:EnumBase.validate_string'],
            desc="an enumerated type accepts exactly its declared literals (arbitrary input string)")
def enum_vs(c):
    E = Enum('red', 'green', 'get_type_name_x', type_name='Colour')
    nullable = c.bool('nullable')
    cls = E.customize(nullable=nullable) if c.concrete else E.customize()
    if not c.concrete:
        cls.Attributes.nullable = nullable
    s = c.str('value')
    out = c.run(cls.validate_string, cls, s)
    c.check('returns', out.returned, detail=repr(out))
    if out.returned:
        c.check('equiv', Iff(out.value, Or(s == 'red', s == 'green', s == 'get_type_name_x')))
