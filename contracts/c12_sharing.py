"""C12 (reduced, see DESIGN.md): sharing discipline of the request path and of the lazy WSDL build.

Deductive verification cannot quantify over schedules.  What is decided here, on the real code, is the
rely/guarantee decomposition that makes the schedule irrelevant:

 G1 frame        every store / mutation the request path makes to an object that existed before the request
                 (application, transport, protocols, interface, model classes, their caches) is either made
                 while holding a lock of that object's owner, or is the fill of a lazily computed location;
 G2 publication  a value stored into a shared location outside a lock is complete: neither it nor anything
                 reachable from it is mutated afterwards (a reader sees 'absent' or the finished value);
 G3 determinism  the value a shared location receives does not depend on the request that happened to fill it
                 (two different requests on fresh instances fill common locations with equal values);
 G4 lock state   state that is mutated while holding a lock is not read outside that lock, unless what is
                 stored there is immutable (bytes/str/None/number): the lazily built document is published as
                 one immutable value;
 R  stability    a response does not depend on the interference G1-G4 allow: cold or warm caches, and --
                 injected on the real code by the interpreter acting as scheduler -- a complete other request
                 executed at the lock acquisition point of the WSDL build and after each shared write of the
                 request under test (preemption bound 1, labelled bounded).

Assumed, not checked: single dict/list operations are atomic (GIL); threading.Lock is a lock; lxml objects
are only shared where the monitor sees them.  Whole-history properties (fairness, starvation) are out of reach."""
import gc
import io
import types

from lxml import etree

from pyvc.oblig import obligation

from spyne import Application, ServiceBase, rpc, Fault
from spyne.model.complex import ComplexModel, Array
from spyne.model.primitive import Integer, Unicode, Decimal
from spyne.protocol.http import HttpRpc, HttpPattern
from spyne.protocol.json import JsonDocument
from spyne.protocol.soap import Soap11
from spyne.protocol.xml import XmlDocument
from spyne.server.wsgi import WsgiApplication

from .pipeline import soap_env, SOAP11_NS, TNS

IMMUTABLE = (bytes, str, int, float, bool, type(None), frozenset, complex)


def is_immutable(v, depth=0):
    if isinstance(v, IMMUTABLE) or isinstance(v, (type, types.FunctionType, types.BuiltinFunctionType, types.MethodType)):
        return True
    if isinstance(v, tuple) and depth < 4:
        return all(is_immutable(x, depth + 1) for x in v)
    return False


def reachable(roots, limit=400000):
    """ids of the objects reachable from roots through attributes / items (the shared heap before a request)."""
    seen = {}
    stack = list(roots)
    while stack and len(seen) < limit:
        o = stack.pop()
        if id(o) in seen or is_immutable(o) and not isinstance(o, type):
            continue
        if isinstance(o, types.ModuleType):
            continue
        seen[id(o)] = o
        if isinstance(o, dict):
            stack.extend(o.keys())
            stack.extend(o.values())
        elif isinstance(o, (list, tuple, set, frozenset)) or type(o).__name__ == 'deque':
            stack.extend(o)
        elif isinstance(o, type):
            if o.__module__.startswith('spyne'):
                stack.extend(v for k, v in vars(o).items() if not k.startswith('__') or k in ('__dict__',))
                stack.extend(b for b in o.__mro__[1:] if b.__module__.startswith('spyne'))
        else:
            d = getattr(o, '__dict__', None)
            if isinstance(d, dict):
                stack.append(d)
            for sl in getattr(type(o), '__slots__', ()) or ():
                try:
                    stack.append(getattr(o, sl))
                except AttributeError:
                    pass
            if isinstance(o, types.MethodType):
                stack.append(o.__self__)
    return seen


class Write(object):
    __slots__ = ('kind', 'obj', 'key', 'value', 'locks', 'where', 'seq', 'complete')

    def __init__(self, kind, obj, key, value, locks, where, seq):
        self.kind, self.obj, self.key, self.value, self.locks, self.where, self.seq = kind, obj, key, value, locks, where, seq

    def loc(self, names):
        return '%s%s' % (names.get(id(self.obj), type(self.obj).__name__), ('.%s' % self.key) if self.kind in (
            'attr', 'delattr') else ('[%r]' % (self.key,)) if self.kind in ('item', 'delitem') else ('.%s()' % self.key))


class SharedMonitor(object):
    """Observes every store, native mutation, lock operation and attribute load of the interpreted code."""

    def __init__(self, interp, roots, names=None, on_shared_write=None):
        self.interp = interp
        self.shared = reachable(roots)
        self.names = names or {}
        self.writes = []           # Write objects on shared objects
        self.held = []             # locks currently held (stack)
        self.lock_events = []
        self.published = {}        # id(object) -> (Write that published it, object)  -- outside a lock
        self.after_publication = []
        self.lock_protected = {}   # (id(obj), key) -> (obj, [values stored under a lock], mutated-later flag)
        self.lock_mutated = {}     # id(obj) -> obj: objects mutated while a lock was held
        self.unlocked_reads = {}   # (id(obj), name) -> where
        self.lock_item_stores = {}  # (id(dict), repr(key)) -> (dict, [values stored while a lock was held])
        self.unlocked_item_reads = {}  # (id(dict), repr(key)) -> where
        self.on_shared_write = on_shared_write
        self.seq = 0
        interp.store_hook = self.store
        interp.load_hook = self.load
        interp.item_read_hook = self.item_read

    def where(self):
        info, line = self.interp.cur_stmt
        if info is None:
            return '?'
        return '%s:%s@%s:%d' % (info.module, info.qualname, info.filename, info.first + line - 1)

    def store(self, kind, obj, key, value):
        if kind == 'lock':
            if key in ('acquire', '__enter__'):
                self.held.append(obj)
            elif self.held and key in ('release', '__exit__'):
                for i in range(len(self.held) - 1, -1, -1):
                    if self.held[i] is obj:
                        del self.held[i]
                        break
            self.lock_events.append((key, id(obj), self.where()))
            return
        self.seq += 1
        oid = id(obj)
        if oid in self.published and not self.held:
            self.after_publication.append((Write(kind, obj, key, value, (), self.where(), self.seq), self.published[oid][0]))
        if oid not in self.shared:
            return
        w = Write(kind, obj, key, value, tuple(id(l) for l in self.held), self.where(), self.seq)
        self.writes.append(w)
        if self.held:
            self.lock_mutated[oid] = obj
            if kind == 'attr':
                self.lock_protected.setdefault((oid, key), (obj, []))[1].append(value)
            elif kind == 'item':
                try:
                    self.lock_item_stores.setdefault((oid, repr(key)), (obj, []))[1].append(value)
                except Exception:
                    pass
        if kind in ('attr', 'item') and not is_immutable(value):
            # what is stored becomes reachable by every thread: from here on it is shared
            sub = reachable([value], limit=20000)
            for i, o in sub.items():
                if i not in self.shared:
                    self.shared[i] = o
                    if not self.held:
                        self.published[i] = (w, o)
                    else:
                        self.lock_mutated[i] = o
        if self.on_shared_write is not None and not self.held:
            self.on_shared_write(w)

    def load(self, obj, name):
        if self.held or isinstance(obj, type):
            return
        if id(obj) in self.shared:
            self.unlocked_reads.setdefault((id(obj), name), self.where())

    def item_read(self, container, key):
        if self.held or id(container) not in self.shared:
            return
        try:
            self.unlocked_item_reads.setdefault((id(container), repr(key)), self.where())
        except Exception:
            pass

    def g5_violations(self):
        """An entry that is stored more than once, with different values, while a lock is held must not be read outside
        that lock: the reader could see the intermediate value (a marker, a half-made result)."""
        out = []
        for (oid, k), (obj, values) in self.lock_item_stores.items():
            distinct = []
            for v in values:
                if not any(v is d or _canon(v) == _canon(d) for d in distinct):
                    distinct.append(v)
            if len(distinct) > 1 and (oid, k) in self.unlocked_item_reads:
                out.append("%s reads %s[%s] outside the lock under which it takes %d different values in one call (%s)" % (
                    self.unlocked_item_reads[(oid, k)], self.names.get(oid, type(obj).__name__), k[:60], len(distinct),
                    ', '.join(type(d).__name__ for d in distinct)))
        return out

    def close(self):
        self.interp.store_hook = None
        self.interp.load_hook = None
        self.interp.item_read_hook = None

    # ---- the discipline
    def g2_violations(self):
        return ["%s mutates %s after it was published by %s (%s)" % (w.where, w.loc(self.names), p.where, p.loc(self.names))
                for w, p in self.after_publication]

    def g4_violations(self):
        out = []
        for (oid, key), (obj, values) in self.lock_protected.items():
            if (oid, key) not in self.unlocked_reads:
                continue
            for v in values:
                if not is_immutable(v) and id(v) in self.lock_mutated:
                    out.append("%s reads %s.%s outside the lock under which it is stored and its value (%s) is mutated" % (
                        self.unlocked_reads[(oid, key)], self.names.get(oid, type(obj).__name__), key, type(v).__name__))
                    break
        return out

    def summary(self):
        return sorted(set('%s <- %s%s' % (w.loc(self.names), w.where, ' [lock]' if w.locks else '') for w in self.writes))


# ---------------------------------------------------------------------------------------------------------

class Item(ComplexModel):
    __namespace__ = TNS
    name = Unicode(default='nobody', min_occurs=1)
    qty = Integer(default=7)
    price = Decimal


PROT_ATTRS = {}


def make_service(calls):
    class Svc(ServiceBase):
        @rpc(Integer, Unicode(prot_attrs=PROT_ATTRS) if PROT_ATTRS else Unicode, _returns=Unicode)
        def echo(ctx, i, s):
            calls.append(('echo', i, s))
            return '%s:%s' % (i, s)

        @rpc(Item, _returns=Item)
        def item(ctx, it):
            calls.append(('item', it))
            return it

        @rpc(Integer, _returns=Array(Item))
        def items(ctx, n):
            calls.append(('items', n))
            return [Item(name='n%d' % k, qty=k) for k in range(n)]

        @rpc(Integer, _returns=Integer)
        def fail(ctx, i):
            calls.append(('fail', i))
            raise Fault('Client.Nope', 'no %d' % i)

        # published under an address pattern as well (HttpRpc: the argument comes out of the path)
        @rpc(Integer, _returns=Integer, _patterns=[HttpPattern('/sq/<n>', verb='GET')])
        def sq(ctx, n):
            calls.append(('sq', n))
            return n * n
    return Svc


def _listener(ctx, *a, **k):
    return None


def make_wsgi(family, calls):
    if family == 'soap11':
        inp, outp = Soap11(validator='soft'), Soap11()
    elif family == 'soap12':
        from spyne.protocol.soap import Soap12
        inp, outp = Soap12(validator='soft'), Soap12()
    elif family == 'yaml':
        from spyne.protocol.yaml import YamlDocument
        inp, outp = YamlDocument(validator='soft'), YamlDocument()
    elif family == 'msgpack':
        from spyne.protocol.msgpack import MessagePackDocument
        inp, outp = MessagePackDocument(validator='soft'), MessagePackDocument()
    elif family == 'soap11_lxml':
        inp, outp = Soap11(validator='lxml'), Soap11()
    elif family == 'xml':
        inp, outp = XmlDocument(validator='soft'), XmlDocument()
    elif family == 'json':
        inp, outp = JsonDocument(validator='soft'), JsonDocument()
    else:
        inp, outp = HttpRpc(validator='soft'), JsonDocument()
    svc = make_service(calls)
    app = Application([svc], TNS, name='VApp', in_protocol=inp, out_protocol=outp)
    # listeners at every level, so that the firing code paths of the shared event managers are exercised
    for mgr in (app.event_manager, svc.event_manager, inp.event_manager, outp.event_manager):
        for ev in ('method_call', 'method_return_object', 'method_exception_object', 'method_return_string',
                   'before_deserialize', 'after_serialize'):
            mgr.add_listener(ev, _listener)
    w = WsgiApplication(app)
    for ev in ('wsgi_call', 'wsgi_return', 'wsgi_close'):
        w.event_manager.add_listener(ev, _listener)
    return w


def requests_for(family):
    """name -> (method, path, query, body, content type)"""
    if family in ('soap11', 'soap11_lxml', 'xml', 'soap12'):
        def wrap(b):
            if family == 'xml':
                return b.replace('>', ' xmlns:tns="%s">' % TNS, 1).encode()
            if family == 'soap12':
                from .pipeline import SOAP12_NS
                return soap_env(SOAP12_NS, b)
            return soap_env(SOAP11_NS, b)
        return {
            'echo': ('POST', '/', '', wrap('<tns:echo><tns:i>5</tns:i><tns:s>abc</tns:s></tns:echo>'), 'text/xml'),
            'echo2': ('POST', '/', '', wrap('<tns:echo><tns:i>-9</tns:i><tns:s>zz</tns:s></tns:echo>'), 'text/xml'),
            'item': ('POST', '/', '', wrap('<tns:item><tns:it><tns:name>a</tns:name><tns:price>1.5</tns:price></tns:it></tns:item>'),
                     'text/xml'),
            'items': ('POST', '/', '', wrap('<tns:items><tns:n>3</tns:n></tns:items>'), 'text/xml'),
            'fail': ('POST', '/', '', wrap('<tns:fail><tns:i>4</tns:i></tns:fail>'), 'text/xml'),
            'invalid': ('POST', '/', '', wrap('<tns:echo><tns:i>five</tns:i><tns:s>abc</tns:s></tns:echo>'), 'text/xml'),
            'invalid2': ('POST', '/', '', wrap('<tns:items><tns:n>many</tns:n></tns:items>'), 'text/xml'),
            'wsdl': ('GET', '/', 'wsdl', b'', 'text/plain'),
            # SOAP 1.1 section 5 multi-reference values: the argument refers to an element of the same Body by id
            'multiref': ('POST', '/', '', wrap('<tns:echo><tns:i href="#a1"/><tns:s href="#a2"/></tns:echo><tns:x id="a1">41</tns:x>'
                                               '<tns:x id="a2">first</tns:x>'), 'text/xml'),
            'multiref2': ('POST', '/', '', wrap('<tns:echo><tns:i href="#a1"/><tns:s href="#a2"/></tns:echo><tns:x id="a1">42</tns:x>'
                                                '<tns:x id="a2">second</tns:x>'), 'text/xml'),
        }
    if family in ('json', 'yaml', 'msgpack'):
        import json
        J, ctype_ = (lambda d: json.dumps(d).encode()), 'application/json'
        if family == 'yaml':
            import yaml
            J, ctype_ = (lambda d: yaml.safe_dump(d).encode()), 'text/yaml'
        elif family == 'msgpack':
            import msgpack
            J, ctype_ = (lambda d: msgpack.packb(d)), 'application/x-msgpack'
        return {k: v[:4] + (ctype_,) for k, v in {
            'echo': ('POST', '/', '', J({'echo': {'i': 5, 's': 'abc'}}), 'application/json'),
            'echo2': ('POST', '/', '', J({'echo': {'i': -9, 's': 'zz'}}), 'application/json'),
            'item': ('POST', '/', '', J({'item': {'it': {'name': 'a', 'price': '1.5'}}}), 'application/json'),
            'items': ('POST', '/', '', J({'items': {'n': 3}}), 'application/json'),
            'fail': ('POST', '/', '', J({'fail': {'i': 4}}), 'application/json'),
            'invalid': ('POST', '/', '', J({'echo': {'i': 'five', 's': 'abc'}}), 'application/json'),
            'invalid2': ('POST', '/', '', J({'items': {'n': [1]}}), 'application/json'),
        }.items()}
    return {
        'echo': ('GET', '/echo', 'i=5&s=abc', b'', 'text/plain'),
        'echo2': ('GET', '/echo', 'i=-9&s=zz', b'', 'text/plain'),
        'item': ('GET', '/item', 'it.name=a&it.price=1.5', b'', 'text/plain'),
        'items': ('GET', '/items', 'n=3', b'', 'text/plain'),
        'fail': ('GET', '/fail', 'i=4', b'', 'text/plain'),
        'invalid': ('GET', '/echo', 'i=five&s=abc', b'', 'text/plain'),
        'invalid2': ('GET', '/items', 'n=many', b'', 'text/plain'),
        'pattern': ('GET', '/sq/7', '', b'', 'text/plain'),
        'pattern2': ('GET', '/sq/12', '', b'', 'text/plain'),
    }


def environ(req, host='h'):
    method, path, qs, body, ctype = req
    return {'REQUEST_METHOD': method, 'PATH_INFO': path, 'QUERY_STRING': qs, 'SERVER_NAME': host, 'SERVER_PORT': '80',
            'HTTP_HOST': host, 'wsgi.url_scheme': 'http', 'wsgi.input': io.BytesIO(body), 'CONTENT_TYPE': ctype,
            'CONTENT_LENGTH': str(len(body))}


def serve(run, wsgi, req, host='h'):
    """(status, body) of one request; `run` is c.run (interpreted) or a native caller."""
    seen = []

    def sr(status, headers, exc_info=None):
        seen.append((status, sorted((k, v) for k, v in headers if k.lower() != 'date')))
    sr._pyvc_native = True
    out = run(wsgi, environ(req, host), sr)
    if not out.returned:
        return ('EXCEPTION', repr(out)), b''
    chunks = []
    o2 = run(lambda: chunks.extend(list(out.value)))
    if not o2.returned:
        return ('EXCEPTION', repr(o2)), b''
    return (seen[0] if seen else None), b''.join(x for x in chunks if isinstance(x, bytes))


class _Native(object):
    """c.run look-alike that calls natively (used for the environment thread and the sequential oracle)."""
    class Out(object):
        def __init__(self, returned, value=None, exc=None):
            self.returned, self.value, self.exc = returned, value, exc

        def __repr__(self):
            return 'Outcome(%s)' % (self.value if self.returned else repr(self.exc))

    def __call__(self, fn, *a, **k):
        try:
            return self.Out(True, fn(*a, **k))
        except Exception as e:
            return self.Out(False, exc=e)


native = _Native()


def roots_of(wsgi):
    from spyne.util.memo import memoize
    return [wsgi, wsgi.app, wsgi.app.in_protocol, wsgi.app.out_protocol, wsgi.app.interface, memoize.registry] + \
        list(wsgi.app.services) + process_wide_state()


def process_wide_state():
    """What every request of the process shares whatever application it belongs to: the classes of the package (class-level
    attributes, e.g. of the context classes a request instantiates) and the mutable module-level objects."""
    import sys
    out = []
    for name, mod in list(sys.modules.items()):
        if mod is None or not (name == 'spyne' or name.startswith('spyne.')) or name.startswith('spyne.test'):
            continue
        for k, v in list(vars(mod).items()):
            if isinstance(v, type) and getattr(v, '__module__', None) == name:
                out.append(v)
            elif isinstance(v, (dict, list, set)) and not k.startswith('__'):
                out.append(v)
    return out


def names_of(wsgi):
    n = {id(wsgi): 'WsgiApplication', id(wsgi.app): 'Application', id(wsgi.app.in_protocol): 'in_protocol',
         id(wsgi.app.out_protocol): 'out_protocol', id(wsgi.app.interface): 'Interface'}
    for p, label in ((wsgi.app.in_protocol, 'in_protocol'), (wsgi.app.out_protocol, 'out_protocol')):
        for k, v in vars(p).items():
            if not is_immutable(v):
                n.setdefault(id(v), '%s.%s' % (label, k))
    from spyne.util.memo import memoize
    for mz in memoize.registry:
        n[id(mz.memo)] = 'memoize(%s).memo' % getattr(mz.func, '__qualname__', mz.func)
    if wsgi.doc is not None and getattr(wsgi.doc, 'wsdl11', None) is not None:
        n[id(wsgi.doc.wsdl11)] = 'Wsdl11'
        for k, v in vars(wsgi.doc.wsdl11).items():
            if isinstance(v, (dict, list, set)):
                n[id(v)] = 'Wsdl11.%s' % k
    return n


# ---------------------------------------------------------------------------------------------------------
# obligations

def _prev(kind, obj, key):
    try:
        if kind == 'attr':
            d = getattr(obj, '__dict__', None)
            if isinstance(d, dict) and key in d:
                return d[key]
            return getattr(type(obj), key, None) if not isinstance(getattr(type(obj), key, None), property) else None
        if kind == 'item':
            if hasattr(obj, 'get'):
                return obj.get(key) if not hasattr(obj, '__missing__') else (dict.get(obj, key) if isinstance(obj, dict) else None)
            return obj[key]
    except Exception:
        return None
    return None


def _canon(v, depth=0):
    if isinstance(v, dict) and depth < 3:
        return tuple(sorted((repr(k), _canon(x, depth + 1)) for k, x in v.items()))
    if isinstance(v, (list, tuple)) and depth < 3:
        return tuple(_canon(x, depth + 1) for x in v)
    if isinstance(v, type):
        return 'class %s.%s' % (v.__module__, v.__qualname__)
    if callable(v):
        return 'callable %s' % getattr(v, '__qualname__', type(v).__name__)
    if is_immutable(v):
        return repr(v)
    return type(v).__name__


def g1_violations(mon, allow_validator=False):
    out, validator = [], []
    for w in mon.writes:
        if w.locks:
            continue
        if w.kind == 'mutate' and isinstance(w.obj, etree._Validator):
            validator.append("%s calls %s() on the shared validator outside any lock" % (w.where, w.key))
            continue
        prev = getattr(w, 'complete', None)
        if w.kind in ('attr', 'item'):
            if prev is None or prev is w.value or _canon(prev) == _canon(w.value):
                continue
            out.append("%s overwrites %s (%s -> %s) outside any lock" % (w.where, w.loc(mon.names), _canon(prev)[:60] if isinstance(
                _canon(prev), str) else type(prev).__name__, type(w.value).__name__))
        else:
            out.append("%s: %s on a shared object outside any lock" % (w.where, w.loc(mon.names)))
    return out, validator


_orig_store = SharedMonitor.store


def _store_with_prev(self, kind, obj, key, value):
    n = len(self.writes)
    prev = _prev(kind, obj, key) if kind in ('attr', 'item') and id(obj) in self.shared else None
    _orig_store(self, kind, obj, key, value)
    if len(self.writes) > n:
        self.writes[-1].complete = prev


SharedMonitor.store = _store_with_prev

REQUEST_KINDS = {'soap11': ['echo', 'multiref', 'item', 'items', 'fail', 'invalid', 'multiref2', 'wsdl'], 'soap11_lxml': ['echo', 'item', 'invalid', 'fail'],
                 'xml': ['echo', 'item', 'items', 'fail', 'invalid'], 'json': ['echo', 'item', 'items', 'fail', 'invalid'],
                 'http': ['echo', 'pattern', 'item', 'items', 'fail', 'invalid', 'pattern2'], 'soap12': ['echo', 'items', 'fail', 'invalid'],
                 'yaml': ['echo', 'item', 'fail', 'invalid'], 'msgpack': ['echo', 'item', 'fail', 'invalid']}


def _all_protocol_classes():
    from spyne.protocol.soap import Soap12
    from spyne.protocol.yaml import YamlDocument
    from spyne.protocol.msgpack import MessagePackDocument
    return [Soap11, Soap12, XmlDocument, JsonDocument, HttpRpc, YamlDocument, MessagePackDocument]


def _mk_discipline(family):
    @obligation('C12.discipline.%s' % family, kind='structural', replay=False,
                targets=['spyne.server.wsgi:WsgiApplication.__call__', 'spyne.protocol._base:ProtocolMixin.get_cls_attrs',
                         'spyne.protocol._base:ProtocolMixin.sort_fields', 'spyne.util.cdict:cdict.__getitem__',
                         'spyne.util.memo:memoize.__call__', 'spyne.server.wsgi:WsgiApplication.handle_wsdl_request'],
                desc="sharing discipline on every interpreted path of the request pipeline, cold and warm: every store or "
                     "native mutation that reaches an object shared between requests is made under a lock or is the "
                     "fill of an empty lazy location (G1); nothing reachable from a value stored into a shared location "
                     "outside a lock is mutated afterwards (G2); state mutated under a lock is read outside it only if the "
                     "stored value is immutable (G4); every lock taken is released",
                assumptions=["shared heap = everything reachable from the transport, application, protocols, interface, "
                             "service classes and the memoize registry before the request",
                             "stores performed inside native code are seen only for lists, dicts, sets, deques and lxml "
                             "elements / validators"])
    def ob(c):
        first = c.choose(REQUEST_KINDS[family], 'request')
        second = c.choose([None] + REQUEST_KINDS[family][:2], 'then')
        with_prot_attrs = c.choose([False, True], 'prot_attrs')
        PROT_ATTRS.clear()
        if with_prot_attrs:
            PROT_ATTRS.update({P: dict(min_occurs=1) for P in _all_protocol_classes()})
        try:
            wsgi = make_wsgi(family, [])
        finally:
            PROT_ATTRS.clear()
        mon = SharedMonitor(c.interp, roots_of(wsgi), names_of(wsgi))
        try:
            reqs = requests_for(family)
            st, body = serve(c.run, wsgi, reqs[first])
            c.check('request_served', st is not None and st[0] != 'EXCEPTION', detail=(st, body[:200]))
            if second is not None:
                st2, body2 = serve(c.run, wsgi, reqs[second])
                c.check('request_served', st2 is not None and st2[0] != 'EXCEPTION', detail=(st2, body2[:200]))
        finally:
            mon.close()
        g1, validator = g1_violations(mon)
        c.check('shared_writes_are_locked_or_lazy_fills', not g1, detail=g1[:5])
        c.known_region('C12-lxml-error-log-shared', bool(validator))
        c.check('validator_state_is_not_shared', not validator, detail=validator[:3])
        c.check('published_values_are_complete', not mon.g2_violations(), detail=mon.g2_violations()[:5])
        c.check('lock_state_read_only_if_immutable', not mon.g4_violations(), detail=mon.g4_violations()[:5])
        c.check('no_intermediate_value_visible_outside_the_lock', not mon.g5_violations(), detail=mon.g5_violations()[:5])
        c.check('locks_released', not mon.held, detail=mon.lock_events[-6:])
        c.emit('shared_writes', mon.summary())
    return ob


for _f in REQUEST_KINDS:
    _mk_discipline(_f)


def _fills(mon):
    out = {}
    for w in mon.writes:
        if w.kind in ('attr', 'item') and not w.locks:
            out[w.loc(mon.names)] = _canon(w.value)
    return out


def _mk_determinism(family):
    @obligation('C12.determinism.%s' % family, kind='structural', replay=False,
                targets=['spyne.protocol._base:ProtocolMixin.get_cls_attrs', 'spyne.protocol._base:ProtocolMixin.sort_fields',
                         'spyne.util.cdict:cdict.__getitem__'],
                bounded="pairs of different requests (method, arguments, outcome) on fresh instances",
                desc="G3: what a shared location receives does not depend on the request that fills it -- two different "
                     "requests on fresh instances of the same application fill every location they have in common with "
                     "equal values, so a thread that finds a location filled by another request reads what it would have "
                     "computed itself")
    def ob(c):
        kinds = [k for k in REQUEST_KINDS[family] if k != 'wsdl']
        x = c.choose(kinds, 'first_request')
        y = c.choose(kinds + ['echo2'], 'second_request')
        if x == y:
            return
        reqs = requests_for(family)
        logs = []
        for r in (x, y):
            wsgi = make_wsgi(family, [])
            mon = SharedMonitor(c.interp, roots_of(wsgi), names_of(wsgi))
            try:
                serve(c.run, wsgi, reqs[r])
            finally:
                mon.close()
            logs.append(_fills(mon))
        common = sorted(set(logs[0]) & set(logs[1]))
        diff = [(k, str(logs[0][k])[:80], str(logs[1][k])[:80]) for k in common if logs[0][k] != logs[1][k]]
        c.check('common_locations_get_equal_values', not diff, detail=diff[:4])
        c.emit('common_locations', len(common))
    return ob


def _mk_stability(family):
    @obligation('C12.stability.%s' % family, targets=['spyne.server.wsgi:WsgiApplication.__call__'],
                bounded="every request kind alone on a fresh instance vs. after every other request kind on one instance",
                desc="R: a response does not depend on which lazily filled locations other requests have already filled: "
                     "each request gets the same status, headers and body on a cold instance and on an instance warmed by "
                     "the other requests (in both orders)")
    def ob(c):
        kinds = [k for k in REQUEST_KINDS[family] if k != 'wsdl']
        order = c.choose(['forward', 'backward'], 'order')
        reqs = requests_for(family)
        alone = {}
        for k in kinds:
            alone[k] = serve(c.run, make_wsgi(family, []), reqs[k])
        wsgi = make_wsgi(family, [])
        seq = kinds if order == 'forward' else list(reversed(kinds))
        for k in seq + seq:
            got = serve(c.run, wsgi, reqs[k])
            c.check('same_response_cold_and_warm', got == alone[k], detail=(k, got[0], alone[k][0], got[1][-200:], alone[k][1][-200:]))
    return ob


for _f in REQUEST_KINDS:
    _mk_determinism(_f)
    _mk_stability(_f)


class InterferingLock(object):
    """The WSDL build lock with a scheduler in front of it: the first acquisition lets the environment thread run a
    complete request first (a legal schedule: the caller was preempted right before taking the lock)."""

    def __init__(self, real, interference):
        self.real = real
        self.interference = interference

    def acquire(self, *a, **k):
        f, self.interference = self.interference, None
        if f is not None:
            f()
        return self.real.acquire(*a, **k)

    def release(self):
        return self.real.release()

    def __enter__(self):
        self.acquire()
        return self

    def __exit__(self, *exc):
        self.release()
        return False


@obligation('C12.wsdl_race', targets=['spyne.server.wsgi:WsgiApplication.handle_wsdl_request',
                                      'spyne.interface.wsdl.wsdl11:Wsdl11.build_interface_document',
                                      'spyne.interface.wsdl.wsdl11:Wsdl11.get_interface_document'],
            bounded="schedules: requester A preempted right before taking the build lock while requester B (another Host) "
                    "runs its whole ?wsdl request; B preempted likewise while A runs; no interference; then a late requester",
            desc="the first ?wsdl requests race: the document is built exactly once, every requester (the one that waited "
                 "for the lock, the one that built, a later one) receives the same complete bytes, identical to the "
                 "document a sequential first request produces; a failing build releases the lock and answers 500",
            assumptions=["threading.Lock excludes; the interference is injected at the lock acquisition of the real code"])
def wsdl_race(c):
    scenario = c.choose(['no_interference', 'other_requester_wins', 'build_fails'], 'scenario')
    wsgi = make_wsgi('soap11', [])
    builds = []
    wsgi.doc.wsdl11.event_manager.add_listener('wsdl_document_built', lambda doc: builds.append(1))
    req = requests_for('soap11')['wsdl']
    results = {}
    if scenario == 'build_fails':
        def boom(doc):
            raise RuntimeError("listener of the build fails")
        wsgi.doc.wsdl11.event_manager.add_listener('document_built', boom)
        st, body = serve(c.run, wsgi, req, host='a.example')
        c.check('failed_build_answers_500', st is not None and st[0].startswith('500'), detail=(st, body[:100]))
        c.check('lock_released_after_failed_build', wsgi._mtx_build_interface_document.acquire(False), detail='lock still held')
        wsgi._mtx_build_interface_document.release()
        return
    if scenario == 'other_requester_wins':
        def other():
            results['B'] = serve(native, wsgi, req, host='b.example')
        wsgi._mtx_build_interface_document = InterferingLock(wsgi._mtx_build_interface_document, other)
    results['A'] = serve(c.run, wsgi, req, host='a.example')
    results['late'] = serve(c.run, wsgi, req, host='late.example')
    first_host = 'b.example' if scenario == 'other_requester_wins' else 'a.example'
    oracle = serve(native, make_wsgi('soap11', []), req, host=first_host)
    c.check('built_exactly_once', len(builds) == 1, detail=len(builds))
    for who, r in sorted(results.items()):
        c.check('requester_gets_the_sequential_document', r == oracle, detail=(who, r[0], len(r[1]), len(oracle[1]),
                                                                            r[1][-150:] if r[1] != oracle[1] else ''))
    try:
        etree.fromstring(results['A'][1])
        whole = True
    except Exception as e:
        whole = repr(e)
    c.check('document_is_whole', whole is True, detail=whole)


SWITCH_FUNCTIONS = [('spyne/protocol/_base.py', 'get_cls_attrs'), ('spyne/protocol/_base.py', 'sort_fields'),
                    ('spyne/util/cdict.py', '__getitem__'), ('spyne/util/memo.py', '__call__'),
                    ('spyne/server/wsgi.py', 'handle_wsdl_request'), ('spyne/protocol/xml.py', '__validate_lxml'),
                    ('spyne/model/complex.py', 'get_flat_type_info'), ('spyne/model/complex.py', '_get_flat_type_info')]


def _mk_interference(family, thorough_only=False):
    @obligation('C12.interference.%s' % family, thorough_only=thorough_only, replay='best_effort',
                targets=['spyne.server.wsgi:WsgiApplication.__call__', 'spyne.protocol._base:ProtocolMixin.get_cls_attrs',
                         'spyne.protocol._base:ProtocolMixin.sort_fields', 'spyne.util.cdict:cdict.__getitem__'],
                bounded="preemption bound 1: request A (interpreted, cold instance) is suspended right after its k-th store "
                        "into shared state outside a lock, for every k; request B runs completely on the same instance; A "
                        "resumes; pairs (A, B) from the request kinds of the family; at most 36 switch points per pair (quick tier; "
                        "120 in the thorough tier, which also covers soap12 / xml / yaml / msgpack)",
                desc="R under real interleavings: with the interpreter as scheduler, B's response equals the response B gets "
                     "alone and A's response equals the response A gets alone, whatever shared write of A the switch follows",
                assumptions=["the interference is a complete request (coarser switches are subsumed by G1-G4)",
                             "replay: two real threads under sys.settrace, A suspended before each of up to 40 lines of "
                             "the cache-filling functions (pyvc/sched.py)"])
    def ob(c):
        kinds = [k for k in REQUEST_KINDS[family] if k != 'wsdl']
        a = c.choose(kinds[:3] + kinds[-1:], 'request_a')
        b = c.choose([k for k in (kinds[1], kinds[0], kinds[-1]) if k != a][:2], 'request_b')
        with_prot_attrs = c.choose([False, True], 'prot_attrs')

        def mk():
            PROT_ATTRS.clear()
            if with_prot_attrs:
                PROT_ATTRS.update({P: dict(min_occurs=1) for P in _all_protocol_classes()})
            try:
                return make_wsgi(family, [])
            finally:
                PROT_ATTRS.clear()
        reqs = requests_for(family)
        alone_a = serve(native, mk(), reqs[a])
        alone_b = serve(native, mk(), reqs[b])
        if c.concrete:
            # native replay / search on CPython: two real threads, A suspended before its k-th line inside the functions
            # that fill shared state, B run to completion meanwhile (pyvc/sched.py), for up to 40 switch points
            from pyvc import sched
            n = sched.count_events(lambda: serve(native, mk(), reqs[a]), SWITCH_FUNCTIONS)
            ks = list(range(1, n + 1))
            cap = 120 if c.thorough else 40
            if n > cap:
                step = max(1, n // cap)
                ks = ks[::step][:cap]
            bad_a, bad_b = [], []
            for k in ks:
                w = mk()
                ra, rb, where = sched.run_with_switch(lambda: serve(native, w, reqs[a]), lambda: serve(native, w, reqs[b]),
                                                      SWITCH_FUNCTIONS, k, b_timeout=0.3)
                if rb != alone_b:
                    bad_b.append((where, rb[0], alone_b[0], rb[1][-160:], alone_b[1][-160:]))
                if ra != alone_a:
                    bad_a.append((where, ra[0], alone_a[0], ra[1][-160:], alone_a[1][-160:]))
            c.check('interfering_request_unaffected', not bad_b, detail=bad_b[:2])
            c.check('interrupted_request_unaffected', not bad_a, detail=bad_a[:2])
            return
        # dry run: how many unlocked shared writes does A make on a cold instance
        w0 = mk()
        m0 = SharedMonitor(c.interp, roots_of(w0), names_of(w0))
        try:
            serve(c.run, w0, reqs[a])
        finally:
            m0.close()
        n = len([w for w in m0.writes if not w.locks])
        if n == 0:
            return
        ks = list(range(1, n + 1))
        cap = 120 if c.thorough else 36
        if n > cap:
            # keep the exploration bounded: the first 12 writes and evenly spaced later ones
            step = max(1, (n - 12) // (cap - 12))
            ks = ks[:12] + ks[12::step][:cap - 12]
        k = c.choose(ks, 'after_shared_write')
        wsgi = mk()
        state = dict(count=0, armed=False, b=None, where=None)

        def on_write(w):
            state['count'] += 1
            if state['count'] == k:
                state['armed'] = True
                state['where'] = '%s (%s)' % (w.where, w.loc(mon.names))
        mon = SharedMonitor(c.interp, roots_of(wsgi), names_of(wsgi), on_shared_write=on_write)
        inner = mon.store

        def store(kind, obj, key, value):
            if state['armed'] and state['b'] is None and not mon.held:
                state['armed'] = False
                hooks = c.interp.store_hook, c.interp.load_hook
                c.interp.store_hook = c.interp.load_hook = None
                try:
                    state['b'] = serve(native, wsgi, reqs[b])
                finally:
                    c.interp.store_hook, c.interp.load_hook = hooks
            inner(kind, obj, key, value)
        c.interp.store_hook = store
        try:
            got_a = serve(c.run, wsgi, reqs[a])
        finally:
            mon.close()
        if state['b'] is None:
            state['b'] = serve(native, wsgi, reqs[b])
        c.check('interfering_request_unaffected', state['b'] == alone_b,
                detail=(state['where'], state['b'][0], alone_b[0], state['b'][1][-200:], alone_b[1][-200:]))
        c.check('interrupted_request_unaffected', got_a == alone_a, detail=(state['where'], got_a[0], alone_a[0], got_a[1][-200:],
                                                                            alone_a[1][-200:]))
    return ob


for _f in ('soap11', 'json', 'http'):
    _mk_interference(_f)
for _f in ('soap12', 'xml', 'yaml', 'msgpack'):
    _mk_interference(_f, thorough_only=True)
