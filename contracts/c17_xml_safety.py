"""C17: XML input is parsed with safe defaults -- configuration-flow contracts on Spyne's side.

(1) the defaults of XmlDocument.__init__ are the safe constants; (2) __init__ stores every parser flag
unchanged in parser_kwargs (symbolic flags); (3) every parse call of every create_in_document receives a
parser built in that call from exactly self.parser_kwargs; (4) nothing on the request path writes
parser_kwargs.  lxml/libxml2 honouring the flags is an assumed external contract, audited by a canary
corpus (labelled bounded audit)."""
import inspect
import io
import os
import tempfile

from lxml import etree

from pyvc.oblig import obligation
from pyvc.sym import And, Or, Not, Implies, Iff

from spyne.protocol.soap import Soap11, Soap12
from spyne.protocol.soap import soap11 as soap11_mod
from spyne.protocol import xml as xml_mod
from spyne.protocol.xml import XmlDocument

from .pipeline import Harness, requests_for, SOAP11_NS, SOAP12_NS, TNS, soap_env

SAFE = dict(resolve_entities=False, load_dtd=False, no_network=True, huge_tree=False, dtd_validation=False,
            attribute_defaults=False, remove_pis=True, recover=False)
FLAGS = ['attribute_defaults', 'dtd_validation', 'load_dtd', 'no_network', 'ns_clean', 'recover', 'remove_blank_text',
         'remove_pis', 'strip_cdata', 'resolve_entities', 'huge_tree', 'compact']
PROTS = {'XmlDocument': XmlDocument, 'Soap11': Soap11, 'Soap12': Soap12}


def _mk_defaults(name, P):
    @obligation('C17.defaults.%s' % name, kind='structural',
                targets=['spyne.protocol.xml:XmlDocument.__init__'],
                desc="the constructor's defaults are the safe constants: no entity resolution, no DTD loading or "
                     "validation, no network, no huge_tree, no attribute defaults; PIs removed")
    def ob(c):
        sig = inspect.signature(P.__init__)
        if any(p.kind is inspect.Parameter.VAR_KEYWORD for p in sig.parameters.values()):
            sig = inspect.signature(XmlDocument.__init__)       # Soap11 passes *args, **kwargs through
        for k, want in SAFE.items():
            p = sig.parameters.get(k)
            c.check('default[%s]' % k, p is not None and p.default is want, detail=None if p is None else repr(p.default))
        prot = c.call(P)
        for k, want in SAFE.items():
            c.check('default_instance[%s]' % k, prot.parser_kwargs.get(k) is want, detail=repr(prot.parser_kwargs.get(k)))
        c.check('comments_removed', prot.parser_kwargs.get('remove_comments') is True)
    return ob


def _mk_init(name, P):
    @obligation('C17.flow.init.%s' % name, targets=['spyne.protocol.xml:XmlDocument.__init__'],
                desc="parser_kwargs[k] is the constructor argument k for every parser flag (symbolic flags), comments are "
                     "always removed, and no other key is passed to the parser")
    def ob(c):
        flags = {k: c.bool(k) for k in FLAGS}
        out = c.run(P, **flags)
        c.check('constructed', out.returned, detail=repr(out))
        if not out.returned:
            return
        pk = out.value.parser_kwargs
        for k in FLAGS:
            c.check('flows[%s]' % k, (pk.get(k) is flags[k]) if not c.concrete else (pk.get(k) == flags[k]))
        c.check('remove_comments_constant', pk.get('remove_comments') is True)
        c.check('no_other_keys', set(pk) == set(FLAGS) | {'remove_comments', 'encoding'}, detail=sorted(pk))
    return ob


class _Ctx(object):
    def __init__(self, in_string, transport=None):
        self.in_string = in_string
        self.transport = transport
        self.in_document = None


from spyne.server.http import HttpTransportContext          # noqa: E402


class _HttpT(HttpTransportContext):
    """An HTTP transport context with a given request method and Content-Type (nothing else is consulted)."""

    def __init__(self, content_type, verb='POST'):
        self._ct, self._verb = content_type, verb
        self.resp_code = None
        self.resp_headers = {}

    def get_request_content_type(self):
        return self._ct

    def get_request_method(self):
        return self._verb


MULTIPART = (b'--BOUND\r\nContent-Type: text/xml; charset=utf-8\r\nContent-ID: <root>\r\n\r\n'
             b'<a/>\r\n--BOUND--\r\n')
TRANSPORTS = [None, ('text/xml', 'POST'), ('text/xml; charset=utf-8', 'POST'), ('application/soap+xml', 'POST'),
              ('multipart/related; boundary="BOUND"; type="text/xml"; start="<root>"', 'POST'),
              ('multipart/related; charset=utf-8; boundary=BOUND', 'POST'), (None, 'POST'), ('text/xml', 'GET')]


class _Recorder(object):
    """Models of lxml's parser factory and parse entry points (symbolic mode) / wrappers (replay mode)."""

    def __init__(self, c):
        self.c = c
        self.parsers = []
        self.parse_calls = []

    def install(self):
        c = self.c
        rec = self

        class ParserToken(object):
            def __init__(self, kwargs):
                self.kwargs = kwargs

        def m_parser(interp, args, kwargs):
            t = ParserToken(dict(kwargs))
            rec.parsers.append((t, args))
            return t

        def mk_parse(fname, real):
            def m(interp, args, kwargs):
                parser = kwargs.get('parser', args[1] if len(args) > 1 else None)
                rec.parse_calls.append((fname, parser))
                k = c.choose(['ok', 'XMLSyntaxError', 'ValueError'], 'outcome_of_%s' % fname)
                if k == 'XMLSyntaxError':
                    raise etree.XMLSyntaxError('bad', 1, 1, 1)
                if k == 'ValueError':
                    raise ValueError('unicode string with encoding declaration')
                doc = etree.fromstring(b'<a/>')
                return (doc, {}) if fname == 'XMLID' else doc
            return m
        self.models = {etree.XMLParser: m_parser, etree.fromstring: mk_parse('fromstring', etree.fromstring),
                       etree.XMLID: mk_parse('XMLID', etree.XMLID), etree.parse: mk_parse('parse', etree.parse),
                       etree.XML: mk_parse('XML', etree.XML)}
        for fn, m in self.models.items():
            c.interp.models[fn] = m


def _mk_create(name, P):
    @obligation('C17.flow.create_in_document.%s' % name,
                targets=['spyne.protocol.xml:XmlDocument.create_in_document',
                         'spyne.protocol.soap.soap11:Soap11.create_in_document',
                         'spyne.protocol.soap.soap11:_parse_xml_string'],
                desc="on every path -- no transport context, HTTP with text/xml, soap+xml, multipart/related (SwA), missing "
                     "Content-Type, wrong verb -- each call that parses request bytes receives a parser that XMLParser(**kw) "
                     "built in this call with kw carrying exactly the values of self.parser_kwargs (symbolic flags) and "
                     "nothing else; no parse call uses lxml's default parser",
                assumptions=["the parse entry points of lxml are fromstring, XMLID, XML and parse"], replay=False)
    def ob(c):
        prot = P()
        flags = {k: c.bool(k) for k in FLAGS}
        if c.concrete:
            c.end("symbolic-only obligation (parser calls are observed through callee models)")
        for k in FLAGS:
            prot.parser_kwargs[k] = flags[k]
        rec = _Recorder(c)
        rec.install()
        chunks = c.choose([[b'<a/>'], [b'<a>', b'</a>'], []], 'in_string')
        charset = c.choose([None, 'utf-8'], 'charset')
        tr = c.choose(TRANSPORTS, 'transport')
        if tr is not None and tr[0] is not None and tr[0].startswith('multipart'):
            chunks = [MULTIPART] if chunks else []
        # "built in this call": another protocol object of the same class, configured the opposite way, has parsed a request
        # in this process before (each path runs in a fresh process, so the history is part of the path)
        earlier = c.choose([False, True], 'another_instance_parsed_before')
        if earlier:
            other = P()
            for k in FLAGS:
                other.parser_kwargs[k] = not flags[k] if c.concrete else (flags[k] == False)     # noqa: E712
            c.run(other.create_in_document, _Ctx([b'<a/>'], None if tr is None else _HttpT(*tr)), charset)
        n_parsers, n_calls = len(rec.parsers), len(rec.parse_calls)
        ctx = _Ctx(chunks, None if tr is None else _HttpT(*tr))
        out = c.run(prot.create_in_document, ctx, charset)
        del rec.parse_calls[:n_calls]
        c.check('parse_reached_or_fault', bool(rec.parse_calls) or out.raised, detail=repr(out))
        tokens = [t for t, a in rec.parsers[n_parsers:]]
        for i, (fname, parser) in enumerate(rec.parse_calls):
            ok = any(parser is t for t in tokens)
            c.check('parse_call_uses_configured_parser', ok, detail=(fname, repr(parser)))
            if ok:
                kw = parser.kwargs
                c.check('parser_has_all_flags', all(kw.get(k) is flags[k] for k in FLAGS),
                        detail={k: repr(kw.get(k)) for k in FLAGS})
                c.check('parser_has_no_other_flags', set(kw) <= set(prot.parser_kwargs), detail=sorted(set(kw) - set(prot.parser_kwargs)))
                c.check('parser_removes_comments', kw.get('remove_comments') is True)
        c.check('parser_built_without_positional_args', all(not a for t, a in rec.parsers))
    return ob


for _n, _P in PROTS.items():
    _mk_defaults(_n, _P)
    _mk_init(_n, _P)
    _mk_create(_n, _P)


def _mk_frame(family):
    @obligation('C17.frame.%s' % family, targets=['spyne.server.wsgi:WsgiApplication.handle_rpc'],
                desc="no store on the request path targets parser_kwargs (attribute or dict item), for valid and malformed "
                     "requests: the configuration fixed at construction time is what every request is parsed with")
    def ob(c):
        kind = c.choose(sorted(requests_for(family)), 'request_kind')
        # every validator setting: building the application (set_app) must not touch the parser configuration either
        h = Harness(c, family, user_outcomes=['return'], validator=c.choose(['soft', None, 'lxml'], 'validator'))
        inp = h.app.in_protocol
        c.check('safe_configuration_after_application_setup', all(inp.parser_kwargs[k] is v for k, v in SAFE.items()),
                detail={k: inp.parser_kwargs.get(k) for k in SAFE})
        before = dict(inp.parser_kwargs)
        writes = []
        if not c.concrete:
            def hook(kind_, obj, key, value):
                if key == 'parser_kwargs' or obj is inp.parser_kwargs:
                    writes.append((kind_, key))
            c.interp.store_hook = hook
        out = h.run_wsgi(kind)
        c.check('callable_returns', out.returned, detail=repr(out))
        c.check('no_write_to_parser_kwargs', not writes, detail=writes)
        c.check('parser_kwargs_unchanged', inp.parser_kwargs == before and all(
            inp.parser_kwargs[k] is v for k, v in SAFE.items()))
    return ob


for _f in ('xml', 'soap11', 'soap12'):
    _mk_frame(_f)


ATTACKS = ['external_general_entity_file', 'external_parameter_entity', 'external_dtd', 'internal_entity',
           'billion_laughs', 'xinclude', 'deep_nesting', 'external_dtd_attribute_default']


def _attack_doc(kind, family, canary_path, slot):
    body = '<tns:m xmlns:tns="%s"><tns:i>%s</tns:i><tns:u>%s</tns:u>%s</tns:m>'
    if kind == 'external_general_entity_file':
        dtd = '<!DOCTYPE x [<!ENTITY e SYSTEM "file://%s">]>' % canary_path
        payload = '&e;'
    elif kind == 'external_parameter_entity':
        dtd = '<!DOCTYPE x [<!ENTITY %% p SYSTEM "file://%s"> %%p;]>' % canary_path
        payload = '5'
    elif kind == 'external_dtd':
        dtd = '<!DOCTYPE x SYSTEM "file://%s">' % canary_path
        payload = '5'
    elif kind == 'internal_entity':
        dtd = '<!DOCTYPE x [<!ENTITY e "INTERNAL-ENTITY-TEXT-77">]>'
        payload = 'a&e;b' if slot != 'i' else '&e;'
    elif kind == 'billion_laughs':
        ents = ['<!ENTITY a0 "lol">'] + ['<!ENTITY a%d "%s">' % (i, ('&a%d;' % (i - 1)) * 10) for i in range(1, 10)]
        dtd = '<!DOCTYPE x [%s]>' % ''.join(ents)
        payload = '&a9;'
    elif kind == 'external_dtd_attribute_default':
        # the canary file doubles as an external DTD subset that declares a default attribute value
        dtd = '<!DOCTYPE x SYSTEM "file://%s">' % canary_path
        payload = '5' if slot == 'i' else 'plain'
    elif kind == 'deep_nesting':
        dtd = ''
        payload = '<n>' * 2000 + '5' + '</n>' * 2000
    else:
        dtd = ''
        payload = '<xi:include xmlns:xi="http://www.w3.org/2001/XInclude" href="file://%s" parse="text"/>' % canary_path
    # the slots: an integer, a text, a free-form dictionary (AnyDict) and a free-form XML fragment (AnyXml)
    extra = {'d': '<tns:d><k>%s</k><n><m>%s</m></n></tns:d>' % (payload, payload), 'x': '<tns:x><k>%s</k></tns:x>' % payload}.get(slot, '')
    doc = body % ((TNS, payload, 'x', '') if slot == 'i' else (TNS, '5', payload if slot == 'u' else 'x', extra))
    if family == 'xml':
        return (dtd + doc).encode()
    ns = SOAP11_NS if family == 'soap11' else SOAP12_NS
    return (dtd + '<e:Envelope xmlns:e="%s"><e:Body>%s</e:Body></e:Envelope>' % (ns, doc)).encode()


def _mk_audit(family):
    @obligation('C17.audit.%s' % family, targets=['spyne.server.wsgi:WsgiApplication.handle_rpc'],
                bounded="canary corpus of 8 attack documents x 3 validator settings x {integer, text, AnyDict, AnyXml} slots x {with, without charset} x {plain, root part of a "
                        "multipart/related request} against the "
                        "installed lxml (audit of the assumed external contract, not a proof)",
                desc="with default settings, external/parameter/internal entities, external DTDs and XInclude never bring "
                     "the canary file's content or entity replacement text to user code or into the response; entity "
                     "bombs do not expand")
    def ob(c):
        from spyne import Application, ServiceBase, rpc
        from spyne.model.primitive import Integer, Unicode
        from spyne.server.wsgi import WsgiApplication
        from .pipeline import protocols
        kind = c.choose(ATTACKS, 'attack')
        slot = c.choose(['i', 'u', 'd', 'x'], 'slot')
        charset = c.choose([False, True], 'content_type_charset')
        multipart = family != 'xml' and c.choose([False, True], 'as_root_part_of_multipart_related')
        d = tempfile.mkdtemp(prefix='pyvc-canary-')
        canary = os.path.join(d, 'canary.txt')
        token = 'CANARY-4242-TOKEN'
        with open(canary, 'w') as f:
            if kind == 'external_dtd_attribute_default':
                f.write('<!ATTLIST tns:m canary CDATA "%s">\n<!ATTLIST tns:u canary CDATA "%s">\n' % (token, token))
            else:
                f.write('4242007742' if slot == 'i' else token)
        got = []

        def show(v):
            if isinstance(v, etree._Element):
                return etree.tostring(v).decode('utf8', 'replace')
            return v

        def m(ctx, i, u, d, x):
            got.append((i, u, d, show(x)))
            return u
        m._pyvc_native = True
        try:
            from spyne.model.primitive import AnyDict, AnyXml
            Svc = type(ServiceBase)('Svc', (ServiceBase,), {'m': rpc(Integer, Unicode, AnyDict, AnyXml, _returns=Unicode)(m)})
            inp, outp = protocols(family, c.choose([None, 'soft', 'lxml'], 'validator'))
            wsgi = WsgiApplication(Application([Svc], TNS, name='VApp', in_protocol=inp, out_protocol=outp))
            body = _attack_doc(kind, family, canary, slot)
            if charset:
                body = b'<?xml version="1.0" encoding="utf-8"?>' + body
            ctype = 'text/xml; charset=utf-8' if charset else 'text/xml'
            if multipart:
                body = (b'--BOUND\r\nContent-Type: text/xml; charset=utf-8\r\nContent-ID: <root>\r\n\r\n' + body +
                        b'\r\n--BOUND--\r\n')
                ctype = 'multipart/related; boundary="BOUND"; type="text/xml"; start="<root>"' + ('; charset=utf-8' if charset
                                                                                                  else '')
            env = {'REQUEST_METHOD': 'POST', 'PATH_INFO': '/', 'QUERY_STRING': '', 'SERVER_NAME': 'h',
                   'SERVER_PORT': '80', 'wsgi.url_scheme': 'http', 'wsgi.input': io.BytesIO(body),
                   'CONTENT_TYPE': ctype, 'CONTENT_LENGTH': str(len(body))}
            seen = []

            def sr(status, headers, exc_info=None):
                seen.append(status)
            sr._pyvc_native = True
            out = c.run(wsgi, env, sr)
            resp = b''
            if out.returned:
                chunks = []
                c.run(lambda: chunks.extend(list(out.value)))
                resp = b''.join(x for x in chunks if isinstance(x, bytes))
        finally:
            os.unlink(canary)
            os.rmdir(d)
        c.check('callable_returns', out.returned, detail=repr(out))
        leak = [token, 'INTERNAL-ENTITY-TEXT-77', '4242007742']
        c.check('nothing_in_response', all(x.encode() not in resp for x in leak), detail=resp[:300])
        c.check('nothing_in_user_args', all(x not in repr(a) for a in got for x in leak), detail=got)
        if kind == 'deep_nesting':
            c.check('nesting_bomb_rejected', not got and (b'Client' in resp or b'Sender' in resp), detail=(got and 'called', resp[:300]))
        if kind == 'billion_laughs':
            c.check('bomb_not_expanded', all(len(repr(a)) < 200 for a in got) and len(resp) < 5000, detail=(got, len(resp)))
    return ob


for _f in ('xml', 'soap11', 'soap12'):
    _mk_audit(_f)


SCHEMA_ATTACKS = ['external_dtd_attribute_default', 'external_dtd_entity', 'external_general_entity', 'external_parameter_entity']


@obligation('C17.schema_reader', targets=['spyne.util.xml:parse_schema_string', 'spyne.util.xml:parse_schema_file',
                                          'spyne.interface.xml_schema.parser:XmlSchemaParser.parse_schema'],
            bounded="canary corpus of 4 schema documents (external DTD subset declaring attribute defaults / entities, "
                    "external general entity, external parameter entity) x {parse_schema_string, parse_schema_file} against "
                    "the installed lxml (audit, not a proof)",
            desc="the schema reader (the other XML parser of the package, spyne/interface/xml_schema/parser.py) does not "
                 "load an external DTD subset or external entities either: nothing of the canary file reaches the parsed "
                 "document or the classes generated from it")
def schema_reader(c):
    from spyne.util.xml import parse_schema_string, parse_schema_file
    kind = c.choose(SCHEMA_ATTACKS, 'attack')
    how = c.choose(['string', 'file'], 'entry_point')
    d = tempfile.mkdtemp(prefix='pyvc-canary-')
    canary = os.path.join(d, 'canary.dtd')
    token = 'CANARY-4242-TOKEN'
    with open(canary, 'w') as f:
        if kind == 'external_dtd_attribute_default':
            f.write('<!ATTLIST xs:element default CDATA "%s">\n' % token)
        elif kind in ('external_dtd_entity', 'external_parameter_entity'):
            f.write('<!ENTITY leak "%s">\n' % token)
        else:
            f.write(token)
    use = ''
    if kind in ('external_dtd_attribute_default', 'external_dtd_entity'):
        dtd = '<!DOCTYPE xs:schema SYSTEM "file://%s">' % canary
        use = '&leak;' if kind == 'external_dtd_entity' else ''
    elif kind == 'external_general_entity':
        dtd = '<!DOCTYPE xs:schema [<!ENTITY leak SYSTEM "file://%s">]>' % canary
        use = '&leak;'
    else:
        dtd = '<!DOCTYPE xs:schema [<!ENTITY %% p SYSTEM "file://%s"> %%p;]>' % canary
        use = '&leak;'
    doc = ('%s<xs:schema xmlns:xs="http://www.w3.org/2001/XMLSchema" xmlns:tns="urn:s" targetNamespace="urn:s">'
           '<xs:complexType name="T"><xs:annotation><xs:documentation>doc %s</xs:documentation></xs:annotation><xs:sequence>'
           '<xs:element name="a" type="xs:string" minOccurs="0"/></xs:sequence></xs:complexType>'
           '<xs:element name="T" type="tns:T"/></xs:schema>' % (dtd, use)).encode()
    try:
        if how == 'string':
            out = c.run(parse_schema_string, doc)
        else:
            path = os.path.join(d, 'schema.xsd')
            with open(path, 'wb') as f:
                f.write(doc)
            try:
                out = c.run(parse_schema_file, path)
            finally:
                os.unlink(path)
    finally:
        os.unlink(canary)
        os.rmdir(d)
    # refusing the document is fine; reading the canary is not: the classes generated with the DOCTYPE present are the ones
    # generated without it, and the token is nowhere in them
    def snap(schemas):
        out_ = {}
        for ns, sch in sorted(schemas.items()):
            for tn, T in sorted(getattr(sch, 'types', {}).items()):
                out_[(ns, tn)] = [repr(getattr(T, '__doc__', None))] + [
                    (k, v.get_type_name(), repr(v.Attributes.default), v.Attributes.min_occurs, repr(getattr(v, '__doc__', None)))
                    for k, v in getattr(T, '_type_info', {}).items()]
        return out_
    ref = parse_schema_string(doc[len(dtd):].replace(b'&leak;', b''))
    seen = []
    if out.returned:
        got_ = snap(out.value)
        seen.append(repr(got_))
        c.check('classes_are_those_of_the_document_without_the_doctype', got_ == snap(ref) and len(got_) > 0,
                detail=(got_, snap(ref)))
    else:
        seen.append(repr(out))
    c.check('nothing_of_the_canary_file_in_the_generated_classes', all(token not in s_ for s_ in seen), detail=[s_ for s_ in seen if token in s_][:3])
