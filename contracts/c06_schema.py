"""C06: the published XML Schema is truthful about the wire.

Proved (symbolic facet values): the restriction emitters write exactly the declared facets -- for every value
of ge/gt/le/lt/total_digits/fraction_digits (integers, decimals), min_len/max_len (text) and
min_occurs/max_occurs (members) the emitted facet carries the canonical lexical form of the declared value,
and no facet is emitted for an attribute left at its default.  With C05 (soft validation == the declared
constraint, proved) this gives lxml/soft agreement for every facet value, assuming libxml2 implements the
XSD facets (audited by the bounded verdict probes below).
Bounded (labelled): generated type universes compile; every response and client-side request document the
real pipeline emits for conformant boundary values validates against the generated schema; lxml and soft
validation agree on boundary probes of every constraint both implement."""
import datetime as dt
import decimal
import io
from collections import OrderedDict

from lxml import etree

from pyvc.oblig import obligation
from pyvc.sym import And, Or, Not, Implies, Iff, SInt
from pyvc.text import FmtStr
from spec import xmlref

from spyne import Application, ServiceBase, rpc
from spyne.interface.xml_schema import XmlSchema
from spyne.model.complex import ComplexModel, Array, XmlAttribute
from spyne.model.enum import Enum
from spyne.model.binary import ByteArray
from spyne.model.primitive import (Integer, Integer8, UnsignedInteger8, Integer32, Integer64, UnsignedInteger64, Unicode,
                                   Decimal, Double, Boolean, Date, DateTime, Time, Duration)
from spyne.protocol.soap import Soap11, Soap12
from spyne.protocol.xml import XmlDocument
from spyne.server.wsgi import WsgiApplication

from .pipeline import soap_env, SOAP11_NS, SOAP12_NS, TNS
from . import c01_xml_fidelity as c01

XSD = 'http://www.w3.org/2001/XMLSchema'
XSI = xmlref.XSI
ABSENT = '__absent__'
NIL = '__nil__'
D = decimal.Decimal
UTC = dt.timezone.utc

Colour = Enum('red', 'green', type_name='Colour6')


class Pt(ComplexModel):
    __namespace__ = 'verif.c06.other'
    x = Integer(ge=0, min_occurs=1)
    y = Integer
    unit = XmlAttribute(Unicode(values=['mm', 'cm']), use='required')


class Pt3(Pt):
    __namespace__ = TNS
    z = Integer(le=100)


class Enums(ComplexModel):
    """an enumeration restriction (values=...) on every primitive with a text form of its own"""
    __namespace__ = TNS
    edt = DateTime(values=[dt.datetime(2020, 1, 1, 12, 0, 0, 0, dt.timezone.utc),
                           dt.datetime(2021, 6, 1, 0, 0, 0, 250000, dt.timezone.utc)])
    edu = Duration(values=[dt.timedelta(days=1), dt.timedelta(seconds=1, microseconds=500000)])
    ede = Decimal(values=[decimal.Decimal('1.50'), decimal.Decimal('-2')])
    eda = Date(values=[dt.date(2020, 2, 29), dt.date(2021, 12, 31)])
    eti = Time(values=[dt.time(10, 0, 0), dt.time(23, 59, 59, 999999)])
    ein = Integer(values=[-7, 10 ** 20])
    edo = Double(values=[0.5, 2.5])


class Bins(ComplexModel):
    __namespace__ = TNS
    hx = ByteArray(encoding='hex')
    b64 = ByteArray(encoding='base64')
    dflt = ByteArray
    ahx = XmlAttribute(ByteArray(encoding='hex'))
    ab64 = XmlAttribute(ByteArray)
    usf = ByteArray(encoding='urlsafe_base64')
    ausf = XmlAttribute(ByteArray(encoding='urlsafe_base64'))


class Pick(ComplexModel):
    __namespace__ = TNS
    name = Unicode
    a = Integer(xml_choice_group='which')
    b = Unicode(xml_choice_group='which')


# schema_only: totalDigits / fractionDigits are published in the schema but soft validation has no code for them
# (Decimal.validate_native checks gt/ge/lt/le only), so they are not constraints "both implement": the lxml verdict is
# still compared with the reference predicate, the agreement clause does not apply.
# name -> (type factory, reference predicate over the lexical text / occurrence list, base (conformant) text, probes)
FIELDS = OrderedDict([
    ('b', dict(type=lambda: Integer8, ok=lambda s: -128 <= int(s) <= 127, base='5', probe=['-129', '-128', '127', '128'])),
    ('u', dict(type=lambda: UnsignedInteger8, ok=lambda s: 0 <= int(s) <= 255, base='5', probe=['-1', '0', '255', '256'])),
    ('w', dict(type=lambda: Integer32, ok=lambda s: -2 ** 31 <= int(s) < 2 ** 31, base='5',
               probe=[str(-2 ** 31 - 1), str(-2 ** 31), str(2 ** 31 - 1), str(2 ** 31)])),
    ('l', dict(type=lambda: Integer64, ok=lambda s: -2 ** 63 <= int(s) < 2 ** 63, base='5',
               probe=[str(-2 ** 63 - 1), str(-2 ** 63), str(2 ** 63 - 1), str(2 ** 63)])),
    ('ul', dict(type=lambda: UnsignedInteger64, ok=lambda s: 0 <= int(s) < 2 ** 64, base='5',
                probe=['-1', '0', str(2 ** 64 - 1), str(2 ** 64)])),
    ('r', dict(type=lambda: Integer(ge=10, lt=20), ok=lambda s: 10 <= int(s) < 20, base='15', probe=['9', '10', '19', '20'])),
    ('g', dict(type=lambda: Integer(gt=0, le=3), ok=lambda s: 0 < int(s) <= 3, base='1', probe=['0', '1', '3', '4'])),
    ('v', dict(type=lambda: Integer(values=[2, 4]), ok=lambda s: int(s) in (2, 4), base='2', probe=['4', '3'])),
    ('td', dict(type=lambda: Integer(total_digits=3), ok=lambda s: len(s.lstrip('-')) <= 3, base='7', schema_only=True,
                probe=['999', '1000', '-999', '-1000', '0'])),
    ('dr', dict(type=lambda: Decimal(ge=D('1.5'), lt=D('2.5')), ok=lambda s: D('1.5') <= D(s) < D('2.5'), base='2',
                probe=['1.49', '1.5', '1.50', '2.49', '2.5', '2.4999999999999999999'])),
    ('dx', dict(type=lambda: Decimal(gt=D('0'), le=D('10')), ok=lambda s: D('0') < D(s) <= D('10'), base='2',
                probe=['0', '0.0', '0.000000000000000000001', '10', '10.0', '10.01'])),
    ('dd', dict(type=lambda: Decimal(5, 2), ok=lambda s: _digits_ok(s, 5, 2), base='1.5', schema_only=True,
                probe=['123.45', '1234.5', '123.456', '99999', '100000', '0.12', '0.123', '-123.45', '-1234.56'])),
    ('fr', dict(type=lambda: Double(ge=0.5, le=2.5), ok=lambda s: 0.5 <= float(s) <= 2.5, base='1.0',
                probe=['0.49', '0.5', '2.5', '2.51', '5e-1', '25e-1'])),
    ('s', dict(type=lambda: Unicode(min_len=2, max_len=4), ok=lambda s: 2 <= len(s) <= 4, base='abc',
               probe=['a', 'ab', 'abcd', 'abcde', u'\U0001f600\U0001f600', u'\xe9\xe9\xe9\xe9', u'\xe9\xe9\xe9\xe9\xe9'])),
    ('sl', dict(type=lambda: Unicode(min_len=3, max_len=3), ok=lambda s: len(s) == 3, base='abc', probe=['ab', 'abc', 'abcd'])),
    ('p', dict(type=lambda: Unicode(pattern='[a-z]+'), ok=lambda s: s.isalpha() and s.isascii() and s.islower(), base='abc',
               probe=['abc', 'aB', 'ab1', 'abc d', 'a'])),
    ('p2', dict(type=lambda: Unicode(pattern='[0-9]{3}-[A-Z]{2}'), ok=lambda s: len(s) == 6 and s[:3].isdigit() and
                s[:3].isascii() and s[3] == '-' and s[4:].isascii() and s[4:].isalpha() and s[4:].isupper(), base='123-AB',
                probe=['123-AB', '12-AB', '123-ab', '123-ABC', 'x123-AB'])),
    ('sv', dict(type=lambda: Unicode(values=['x', 'yy']), ok=lambda s: s in ('x', 'yy'), base='x', probe=['yy', 'z', 'X'])),
    ('e', dict(type=lambda: Colour, ok=lambda s: s in ('red', 'green'), base='red', probe=['green', 'blue', 'Red'])),
    ('bo', dict(type=lambda: Boolean, ok=lambda s: s in ('true', 'false', '1', '0'), base='true',
                probe=['false', '1', '0', 'yes', '2'])),
    ('da', dict(type=lambda: Date(ge=dt.date(2020, 1, 1), le=dt.date(2020, 12, 31)),
                ok=lambda s: dt.date(2020, 1, 1) <= dt.date.fromisoformat(s) <= dt.date(2020, 12, 31), base='2020-06-15',
                probe=['2019-12-31', '2020-01-01', '2020-12-31', '2021-01-01'])),
    ('dt', dict(type=lambda: DateTime(gt=dt.datetime(2020, 1, 1, 0, 0, 0, 0, UTC), lt=dt.datetime(2020, 1, 2, 0, 0, 0, 0, UTC)),
                ok=lambda s: dt.datetime(2020, 1, 1, 0, 0, 0, 0, UTC) < dt.datetime.fromisoformat(s.replace('Z', '+00:00')) <
                dt.datetime(2020, 1, 2, 0, 0, 0, 0, UTC),
                base='2020-01-01T12:00:00Z', probe=['2020-01-01T00:00:00Z', '2020-01-01T00:00:01Z', '2020-01-01T23:59:59Z',
                                                    '2020-01-02T00:00:00Z', '2020-01-02T01:00:00+02:00',
                                                    '2020-01-01T23:00:00-02:00'])),
    ('ti', dict(type=lambda: Time(ge=dt.time(8, 0, 0), lt=dt.time(17, 0, 0)),
                ok=lambda s: dt.time(8) <= dt.time.fromisoformat(s) < dt.time(17), base='12:00:00',
                probe=['07:59:59', '08:00:00', '16:59:59', '17:00:00'])),
    ('o', dict(type=lambda: Integer(min_occurs=1, max_occurs=2), ok=lambda v: 1 <= len(v) <= 2, base=['1'],
               probe=[[], ['1', '2'], ['1', '2', '3']], multi=True)),
    ('ou', dict(type=lambda: Integer(min_occurs=2, max_occurs='unbounded'), ok=lambda v: len(v) >= 2, base=['1', '2'],
                probe=[['1'], ['1', '2', '3', '4', '5']], multi=True)),
    ('n', dict(type=lambda: Integer(min_occurs=1, nullable=False), ok=lambda v: v not in (ABSENT, NIL), base='7',
               probe=[ABSENT, NIL])),
    ('nn', dict(type=lambda: Integer(nullable=False), ok=lambda v: v != NIL, base='7', probe=[ABSENT, NIL])),
    ('ny', dict(type=lambda: Integer(min_occurs=1, nullable=True), ok=lambda v: v != ABSENT, base='7', probe=[ABSENT, NIL])),
    ('d', dict(type=lambda: Integer, ok=lambda v: not isinstance(v, list), base='3', probe=[['1', '2'], ABSENT, NIL])),
    ('nd', dict(type=lambda: Integer(default=7), ok=lambda v: True, base='3', probe=[ABSENT, NIL])),
    ('ndn', dict(type=lambda: Integer(default=7, nullable=False), ok=lambda v: v != NIL, base='3', probe=[ABSENT, NIL])),
    ('sd', dict(type=lambda: Unicode(default='dflt', max_len=4), ok=lambda v: v in (ABSENT, NIL) or len(v) <= 4, base='abc',
                probe=[ABSENT, NIL, 'abcd', 'abcde'])),
    ('ar', dict(type=lambda: Array(Integer(ge=0, le=9)), ok=lambda v: all(0 <= int(x) <= 9 for x in v), base=['1', '2'],
                probe=[[], ['0', '9'], ['10'], ['1', '-1']], array=True)),
    ('pt3', dict(type=lambda: Pt3, raw=True, ok=lambda v: v in PT3_OK, base='ok_min',
                 schema_only_probes=['required_attribute_missing'],       # soft validation has no notion of use="required"
                 probe=['ok_full', 'missing_inherited_mandatory', 'inherited_twice', 'own_above_le', 'inherited_below_ge',
                        'attribute_not_in_values', 'required_attribute_missing'])),
    ('enums', dict(type=lambda: Enums, raw=True, ok=lambda v: v in ENUMS_OK, base='ok_first',
                   probe=['ok_second', 'bad_datetime', 'bad_duration', 'bad_decimal', 'bad_date', 'bad_time', 'bad_integer',
                          'bad_double'])),
])

O = 'verif.c06.other'
PT3_DOCS = {
    'ok_min': '<o:x>1</o:x>', 'ok_full': '<o:x>0</o:x><o:y>-4</o:y><tns:z>100</tns:z>',
    'missing_inherited_mandatory': '<o:y>1</o:y><tns:z>5</tns:z>', 'inherited_twice': '<o:x>1</o:x><o:y>1</o:y><o:y>2</o:y>',
    'own_above_le': '<o:x>1</o:x><tns:z>101</tns:z>', 'inherited_below_ge': '<o:x>-1</o:x>',
    'attribute_not_in_values': '<o:x>1</o:x>', 'required_attribute_missing': '<o:x>1</o:x>'}
PT3_OK = ('ok_min', 'ok_full')
ENUM_DOCS = dict(
    ok_first='<tns:edt>2020-01-01T12:00:00Z</tns:edt><tns:edu>P1D</tns:edu><tns:ede>1.50</tns:ede><tns:eda>2020-02-29</tns:eda>'
             '<tns:eti>10:00:00</tns:eti><tns:ein>-7</tns:ein><tns:edo>0.5</tns:edo>',
    ok_second='<tns:edt>2021-06-01T00:00:00.250000Z</tns:edt><tns:edu>PT1.5S</tns:edu><tns:ede>-2</tns:ede><tns:eda>2021-12-31</tns:eda>'
              '<tns:eti>23:59:59.999999</tns:eti><tns:ein>100000000000000000000</tns:ein><tns:edo>2.5</tns:edo>')
for _k, _frag in (('bad_datetime', '<tns:edt>2020-01-01T12:00:01Z</tns:edt>'), ('bad_duration', '<tns:edu>P2D</tns:edu>'),
                  ('bad_decimal', '<tns:ede>1.51</tns:ede>'), ('bad_date', '<tns:eda>2020-03-01</tns:eda>'),
                  ('bad_time', '<tns:eti>10:00:01</tns:eti>'), ('bad_integer', '<tns:ein>-8</tns:ein>'),
                  ('bad_double', '<tns:edo>0.75</tns:edo>')):
    _tag = _frag[1:_frag.index('>')]
    _base = ENUM_DOCS['ok_first']
    _i = _base.index('<' + _tag + '>')
    _j = _base.index('</' + _tag + '>') + len(_tag) + 3
    ENUM_DOCS[_k] = _base[:_i] + _frag + _base[_j:]
ENUMS_OK = ('ok_first', 'ok_second')


def _digits_ok(s, total, frac):
    d = D(s)
    sign, digits, exp = d.normalize().as_tuple() if d != 0 else (0, (0,), 0)
    fd = max(0, -exp)
    td = max(len(digits) + max(exp, 0), fd) if d != 0 else 1
    return td <= total and fd <= frac


def spell(name, f, v, t=None):
    """The element(s) that spell value v (lexical text, list of texts, ABSENT, NIL) of field `name`."""
    if f.get('raw'):
        if name == 'pt3':
            unit = ' unit="%s"' % ('km' if v == 'attribute_not_in_values' else 'mm')
            if v == 'required_attribute_missing':
                unit = ''
            return '<tns:pt3 xmlns:o="%s"%s>%s</tns:pt3>' % (O, unit, PT3_DOCS[v])
        return '<tns:%s>%s</tns:%s>' % (name, ENUM_DOCS[v], name)
    if v == ABSENT:
        return ''
    if v == NIL:
        return '<tns:%s xsi:nil="true"/>' % name
    if f.get('array'):
        (iname, _), = (t or f['type']())._type_info.items()
        return '<tns:%s>%s</tns:%s>' % (name, ''.join('<tns:%s>%s</tns:%s>' % (iname, x, iname) for x in v), name)
    if isinstance(v, list):
        return ''.join('<tns:%s>%s</tns:%s>' % (name, x, name) for x in v)
    return '<tns:%s>%s</tns:%s>' % (name, v, name)


def request(family, args, types=None, fields=None):
    types = types or {}
    fields = fields or FIELDS
    body = '<tns:check xmlns:tns="%s" xmlns:xsi="%s">%s</tns:check>' % (TNS, XSI, ''.join(
        spell(k, fields[k], v, types.get(k)) for k, v in args.items()))
    if family == 'xml':
        return body.encode('utf8')
    return soap_env(SOAP11_NS if family == 'soap11' else SOAP12_NS, body)


def _proto(family, validator):
    P = {'xml': XmlDocument, 'soap11': Soap11, 'soap12': Soap12}[family]
    return P(validator=validator), P()


def _post(c, wsgi, data):
    env = {'REQUEST_METHOD': 'POST', 'PATH_INFO': '/', 'QUERY_STRING': '', 'SERVER_NAME': 'h', 'SERVER_PORT': '80',
           'wsgi.url_scheme': 'http', 'wsgi.input': io.BytesIO(data), 'CONTENT_TYPE': 'text/xml',
           'CONTENT_LENGTH': str(len(data))}
    seen = []

    def sr(status, headers, exc_info=None):
        seen.append(status)
    sr._pyvc_native = True
    out = c.run(wsgi, env, sr)
    if not out.returned:
        return out, seen, b''
    chunks = []
    c.run(lambda: chunks.extend(list(out.value)))
    return out, seen, b''.join(x for x in chunks if isinstance(x, bytes))


def _rederived():
    """Every facet-carrying scalar member of FIELDS once more, derived again without touching a facet: customised with an
    occurrence attribute only (k_m), and as the item type of an array (k_a).  The facets must still be published."""
    out = OrderedDict()
    for k, f in FIELDS.items():
        if f.get('multi') or f.get('array') or f.get('raw') or not isinstance(f['base'], str):
            continue
        probes = [p for p in f['probe'] if isinstance(p, str) and p not in (ABSENT, NIL)]
        if not probes:
            continue
        try:
            f['type']().customize(min_occurs=1)
        except Exception:
            continue
        out[k + '_m'] = dict(f, type=(lambda f=f: f['type']().customize(min_occurs=1)), probe=probes)
        out[k + '_a'] = dict(f, type=(lambda f=f: Array(f['type']())), ok=(lambda v, f=f: all(f['ok'](x) for x in v)),
                             base=[f['base']], probe=[[p] for p in probes] + [[f['base'], probes[-1]]], array=True)
    return out


def _mk_verdicts(family, FIELDS=FIELDS, oid='C06.verdicts.%s', single=False):
    @obligation(oid % family, targets=['spyne.protocol.xml:XmlDocument.validate_document',
                                                    'spyne.protocol.xml:XmlDocument.from_element',
                                                    'spyne.interface.xml_schema.model:Tget_range_restriction_tag',
                                                    'spyne.interface.xml_schema.model:unicode_get_restriction_tag',
                                                    'spyne.interface.xml_schema.model:complex_add'],
                bounded="one probe at a time around every boundary of 31 constrained members (fixed-width integers, ranges "
                        "on integers / decimals / doubles / dates / times, digits, length, patterns, enumerations, "
                        "occurrence, nillability, array items): 120 documents using only declared fields in declared order",
                desc="schema validation ('lxml', against the schema Spyne generates) and soft validation reach the same "
                     "accept/reject verdict, which is also the verdict of the XSD reference predicate")
    def ob(c):
        probes = [(None, None)] + [(k, p) for k, f in FIELDS.items() for p in f['probe']]
        field, probe = c.choose(probes, 'probe')
        args = OrderedDict((k, f['base']) for k, f in FIELDS.items())
        if field is not None:
            args[field] = probe
        if single and field is not None:
            # the signature holds the probed member only (the members are independent: one application per member)
            args = OrderedDict([(field, probe)])
        expected_ok = all(FIELDS[k]['ok'](v) for k, v in args.items())
        names = list(args)
        verdict = {}
        for validator in ('lxml', 'soft'):
            calls = []

            def check(ctx, *a):
                calls.append(a)
                return 1
            check._pyvc_native = True
            types = [FIELDS[k]['type']() for k in names]
            ns = {}
            src = "def check(ctx, %s):\n    return _rec(%s)\n" % (', '.join(names), ', '.join(names))
            exec(src, dict(_rec=lambda *a: (calls.append(a), 1)[1]), ns)
            fn = ns['check']
            fn._pyvc_native = True
            Svc = type(ServiceBase)('Svc', (ServiceBase,), {'check': rpc(*types, _returns=Integer)(fn)})
            inp, outp = _proto(family, validator)
            app = Application([Svc], TNS, name='VApp', in_protocol=inp, out_protocol=outp)
            wsgi = WsgiApplication(app)
            d = app.interface.service_method_map['{%s}check' % TNS][0]
            out, seen, resp = _post(c, wsgi, request(family, args, dict(d.in_message._type_info), FIELDS))
            c.check('callable_returns', out.returned, detail=repr(out))
            if not out.returned:
                return
            verdict[validator] = (len(calls) == 1, seen, resp[:300])
        detail = dict(probe=(field, probe), lxml=verdict['lxml'], soft=verdict['soft'], reference=expected_ok)
        if field is None or not (FIELDS[field].get('schema_only') or probe in FIELDS[field].get('schema_only_probes', ())):
            c.check('lxml_and_soft_agree', verdict['lxml'][0] == verdict['soft'][0], detail=detail)
        c.check('lxml_verdict_is_the_schema_semantics', verdict['lxml'][0] == expected_ok, detail=detail)
    return ob


for _f in ('xml', 'soap11', 'soap12'):
    _mk_verdicts(_f)
for _f in ('xml', 'soap11'):
    _mk_verdicts(_f, _rederived(), 'C06.verdicts_rederived.%s', single=True)


# ---------------------------------------------------------------------------------------------------------
# emitted documents validate against the generated schema
def build_schema(app):
    """The schema Spyne generates for the application, compiled by lxml (the real build_validation_schema)."""
    doc = XmlSchema(app.interface)
    doc.build_validation_schema()
    return doc.validation_schema


def _payloads(family, data):
    """(header elements, body payload element) of an emitted document."""
    root = etree.fromstring(data)
    if family == 'xml':
        return [], root
    ns = SOAP11_NS if family == 'soap11' else SOAP12_NS
    h = root.find('{%s}Header' % ns)
    b = root.find('{%s}Body' % ns)
    return (list(h) if h is not None else []), (b[0] if b is not None and len(b) else None)


def _validate(schema, elt):
    # validate a detached copy: the schema describes the payload element, not the envelope around it
    doc = etree.fromstring(etree.tostring(elt))
    ok = schema.validate(doc)
    return ok, [str(e.message) for e in schema.error_log][:3]


class Facets(ComplexModel):
    __namespace__ = TNS
    _type_info = [(k, f['type']()) for k, f in FIELDS.items() if not f.get('multi') and not f.get('array')
                  and not f.get('raw')] + [
        ('pt', Pt), ('pt3', Pt3), ('pick', Pick), ('enums', Enums), ('bins', Bins), ('pts', Array(Pt3)), ('o', Integer(min_occurs=1, max_occurs=2)),
        ('ar', Array(Integer(ge=0, le=9)))]


def facet_values():
    """Conformant instances at and inside the declared boundaries."""
    U = dt.timezone.utc
    lo = dict(b=-128, u=0, w=-2 ** 31, l=-2 ** 63, ul=0, r=10, g=1, v=2, td=-999, dr=D('1.5'), dx=D('0.000001'), dd=D('-999.99'),
              fr=0.5, s='ab', sl='abc', p='a', p2='000-AA', sv='x', e='red', bo=False, da=dt.date(2020, 1, 1),
              dt=dt.datetime(2020, 1, 1, 0, 0, 0, 1, U), ti=dt.time(8, 0, 0), n=0, nn=None, ny=None, d=None,
              pt=Pt(x=0, unit='mm'), pt3=Pt3(x=0, y=-1, z=100, unit='cm'), pick=Pick(name='n', a=1), pts=[], o=[1], ar=[],
              enums=Enums(edt=dt.datetime(2020, 1, 1, 12, 0, 0, 0, U), edu=dt.timedelta(days=1), ede=D('1.50'),
                          eda=dt.date(2020, 2, 29), eti=dt.time(10, 0, 0), ein=-7, edo=0.5),
              bins=Bins(hx=[b'\x00\xff\x10'], b64=[b'\x00\xff\x10'], dflt=[b'abc'], ahx=[b'\xde\xad'], ab64=[b'\xbe\xef'],
                        usf=[b'\xfb\xff\xbe\xfa'], ausf=[b'\xff\xfe\xfd']))
    hi = dict(b=127, u=255, w=2 ** 31 - 1, l=2 ** 63 - 1, ul=2 ** 64 - 1, r=19, g=3, v=4, td=999, dr=D('2.499999999999'),
              dx=D('10'), dd=D('999.99'), fr=2.5, s=u'\xe9\U0001f600zz', sl=u'中文x', p='zzzzzzzzzzzzzzzzzzzz',
              p2='999-ZZ', sv='yy', e='green', bo=True, da=dt.date(2020, 12, 31),
              dt=dt.datetime(2020, 1, 1, 23, 59, 59, 999999, U), ti=dt.time(16, 59, 59, 999999), n=-5, nn=3, ny=4, d=2 ** 100,
              pt=Pt(x=10 ** 30, y=None, unit='cm'), pt3=Pt3(x=1, z=-10 ** 20, unit='mm'), pick=Pick(b='text'),
              pts=[Pt3(x=1, unit='mm'), Pt3(x=2, y=2, z=2, unit='cm')], o=[1, 2], ar=[0, 9, 5],
              enums=Enums(edt=dt.datetime(2021, 6, 1, 0, 0, 0, 250000, U), edu=dt.timedelta(seconds=1, microseconds=500000),
                          ede=D('-2'), eda=dt.date(2021, 12, 31), eti=dt.time(23, 59, 59, 999999), ein=10 ** 20, edo=2.5),
              bins=Bins(hx=[bytes(range(256))], b64=[b''], dflt=None, ahx=None, ab64=[b'x'], usf=[bytes(range(256))], ausf=[b'\xfb']))
    mid = dict(lo, dd=D('0.10'), dr=D('2'), dx=D('5.5'), fr=1.25, td=0, pick=Pick(), d=0,
               dt=dt.datetime(2020, 1, 1, 13, 0, 0, 0, dt.timezone(dt.timedelta(hours=5))))
    return [Facets(**lo), Facets(**hi), Facets(**mid)]


# +-inf and nan are not conformant Double values in Spyne's own terms (Double inherits lt = le = Decimal('inf') and
# gt = ge = Decimal('-inf'): validate_native(inf) is False), so they are not in the universe of this obligation.
NUMBERS = [(D('28000000000'), 1e22, [D('0.000001'), D('-0.00')]), (D('2.8E+10'), 1.5, None), (D('1E-7'), 1e-5, None),
           (D('0E-10'), -0.0, [D('1E+1')]), (D('-0'), 5e-324, [D('123.4500')]), (D('0.000001'), 1.7976931348623157e308, []),
           (D('-99999999999999999999.99999999999999999999'), -2.2250738585072014e-308, [D('1'), D('2')])]


def _emit_services(got):
    Base = c01._services(got)

    class FacetSvc(ServiceBase):
        @rpc(Integer, _returns=Facets)
        def facets(ctx, which):
            got.append(('facets', (which,), None))
            return facet_values()[which]

        @rpc(Integer, _returns=[Decimal, Double, Decimal(max_occurs='unbounded')])
        def numbers(ctx, which):
            got.append(('numbers', (which,), None))
            return NUMBERS[which]

        @rpc(Facets, _returns=Integer)
        def take(ctx, f):
            got.append(('take', (f,), None))
            return 1
    return [Base, FacetSvc]


def _mk_emitted(family):
    @obligation('C06.emitted_valid.%s' % family, targets=['spyne.protocol.xml:XmlDocument.serialize',
                                                         'spyne.protocol.xml:XmlDocument.to_parent',
                                                         'spyne.interface.xml_schema._base:XmlSchema.build_validation_schema',
                                                         'spyne.interface.xml_schema.model:complex_add'],
                bounded="C01's 7 signatures x boundary value vectors (10 primitives x 5, nested / inherited / attribute / "
                        "foreign-namespace complex type x 5, arrays x 5, shared instances, bare / out_bare) and a 35-member "
                        "facet type (3 conformant instances at and inside every declared boundary, choice group, "
                        "cross-namespace inheritance, required attribute), with and without SOAP header",
                desc="every response document the real pipeline emits for values that satisfy the declared constraints is "
                     "valid against the schema Spyne generates for the application (compiled by lxml)")
    def ob(c):
        got = []
        inp, outp = _proto(family, 'soft')
        app = Application(_emit_services(got), TNS, name='VApp', in_protocol=inp, out_protocol=outp)
        wsgi = WsgiApplication(app)
        schema = build_schema(app)
        meth = c.choose(['prims', 'struct', 'arrays', 'nothing', 'bare', 'outbare', 'shared', 'facets', 'numbers', 'produce',
                         'renamed'], 'method')
        d = app.interface.service_method_map['{%s}%s' % (TNS, meth)][0]
        if meth == 'prims':
            vals = c01.PRIM_VALUES[c.choose(list(range(len(c01.PRIM_VALUES))), 'values')]
            args = [vals[k] for k, _ in c01.PRIMS]
        elif meth in ('struct', 'bare'):
            args = [c01.outer_values()[c.choose([0, 1, 2, 3, 4], 'values')]]
        elif meth == 'arrays':
            args = list(c01.ARRAY_VALUES[c.choose(list(range(len(c01.ARRAY_VALUES))), 'values')])
        elif meth == 'outbare':
            args = [[5, 's'], [None, None], [0, '']][c.choose([0, 1, 2], 'values')]
        elif meth == 'facets':
            args = [c.choose([0, 1, 2], 'values')]
        elif meth == 'numbers':
            args = [c.choose(list(range(len(NUMBERS))), 'values')]
        elif meth == 'produce':
            args = [c.choose(list(range(len(c01.PRIM_VALUES))), 'values')]
        elif meth == 'renamed':
            args = [c01.renamed_values()[c.choose([0, 1, 2, 3], 'values')]]
        else:
            args = []
        with_header = family != 'xml' and meth == 'prims' and c.choose([False, True], 'with_header')
        root = etree.Element('{%s}%s' % (TNS, meth), nsmap={'tns': TNS, 'xsi': XSI})
        if meth == 'bare':
            T = c01.Outer
            for k, ft in T.get_flat_type_info(T).items():
                xmlref.encode_into(root, ft, getattr(args[0], k, None), k, TNS)
        else:
            for (k, ft), v in zip(d.in_message._type_info.items(), args):
                xmlref.encode_into(root, ft, v, k, TNS)
        body = etree.tostring(root).decode()
        if family == 'xml':
            data = body.encode()
        else:
            hdr = ''
            if with_header:
                hdr = '<tns:Hdr xmlns:tns="%s"><tns:token>tok</tns:token><tns:seq>9</tns:seq></tns:Hdr>' % TNS
            ns = SOAP11_NS if family == 'soap11' else SOAP12_NS
            data = ('<e:Envelope xmlns:e="%s"><e:Header>%s</e:Header><e:Body>%s</e:Body></e:Envelope>' % (ns, hdr, body)).encode()
        if meth == 'numbers':
            n = NUMBERS[args[0]]
            # known finding (shared with C08): str(Decimal) switches to exponent notation, which xs:decimal does not
            # allow; the suite pins that output ('1E+100'), so it is recorded instead of repaired
            c.known_region('C06-decimal-exponent-notation', any('E' in str(x) for x in [n[0]] + list(n[2] or [])))
        out, seen, resp = _post(c, wsgi, data)
        c.check('callable_returns', out.returned, detail=repr(out))
        if not out.returned:
            return
        c.check('status_200', bool(seen) and seen[0].startswith('200'), detail=(seen, resp[:400]))
        if not (seen and seen[0].startswith('200')):
            return
        headers, payload = _payloads(family, resp)
        c.check('response_has_payload', payload is not None, detail=resp[:300])
        if payload is None:
            return
        ok, errs = _validate(schema, payload)
        c.check('response_valid_against_generated_schema', ok, detail=(errs, etree.tostring(payload)[:600]))
        for h in headers:
            okh, errh = _validate(schema, h)
            c.check('response_header_valid_against_generated_schema', okh, detail=(errh, etree.tostring(h)[:300]))
    return ob


for _f in ('xml', 'soap11', 'soap12'):
    _mk_emitted(_f)


def _mk_compiles(name, make):
    @obligation('C06.compiles.%s' % name, targets=['spyne.interface.xml_schema._base:XmlSchema.build_validation_schema',
                                                   'spyne.interface.xml_schema._base:XmlSchema.build_schema_nodes'],
                bounded="generated type universe '%s'" % name,
                desc="the schema generated for the type universe compiles (lxml XMLSchema over the per-namespace files the "
                     "real build_validation_schema writes), and each namespace's schema is well-formed on its own")
    def ob(c):
        app = make()
        doc = XmlSchema(app.interface)
        out = c.run(doc.build_validation_schema)
        c.check('schema_compiles', out.returned and doc.validation_schema is not None, detail=repr(out)[:800])
        doc2 = XmlSchema(app.interface)
        doc2.build_interface_document()
        for pref, node in doc2.schema_dict.items():
            try:
                etree.fromstring(etree.tostring(node))
                okw = True
            except Exception as e:
                okw = repr(e)
            c.check('namespace_schema_well_formed', okw is True, detail=(pref, okw))
    return ob


def _u_c01():
    return Application(_emit_services([]), TNS, name='VApp', in_protocol=XmlDocument(), out_protocol=XmlDocument())


def _u_c07():
    from .c07_wsdl import make_app
    return make_app('ports')


def _u_deep():
    """multi-namespace inheritance chain, arrays of arrays, attributes of every primitive, self reference."""
    class L0(ComplexModel):
        __namespace__ = 'urn:l0'
        a = XmlAttribute(Integer8)
        b = XmlAttribute(Date)
        c_ = XmlAttribute(Decimal(5, 2), use='required')
        items = Array(Array(Unicode(max_len=3)))

    class L1(L0):
        __namespace__ = 'urn:l1'
        d = Double(ge=0.0)
        col = Colour

    class L2(L1):
        __namespace__ = 'urn:l2'
        e = Time
        kids = Array(L0)

    class Node(ComplexModel):
        __namespace__ = 'urn:l2'
        _type_info = [('v', Integer)]
    Node._type_info['next'] = Node
    Node._type_info['l2'] = L2

    class S(ServiceBase):
        @rpc(L2, Node, _returns=Array(L1))
        def m(ctx, l2, n):
            pass

        @rpc(Pick, Pt3, _returns=Facets, _body_style='bare') if False else rpc(Pick, Pt3, _returns=Facets)
        def m2(ctx, p, q):
            pass
    return Application([S], 'urn:l0', name='Deep', in_protocol=XmlDocument(), out_protocol=XmlDocument())


for _n, _m in (('c01_services_and_facets', _u_c01), ('c07_ports', _u_c07), ('deep_multi_namespace', _u_deep)):
    _mk_compiles(_n, _m)


from spyne.client import RemoteProcedureBase, RemoteService   # noqa: E402


def _mk_requests(family):
    @obligation('C06.emitted_request_valid.%s' % family, targets=['spyne.client._base:RemoteProcedureBase.get_out_object',
                                                                 'spyne.client._base:RemoteProcedureBase.get_out_string',
                                                                 'spyne.protocol.xml:XmlDocument.serialize'],
                bounded="requests the Spyne client emits for prims x 5 value vectors, the nested complex type x 5, arrays x 5 "
                        "and the 35-member facet type x 3 conformant instances",
                desc="every request document Spyne's own client emits for conformant values is valid against the schema the "
                     "server side generates for the same application")
    def ob(c):
        inp, outp = _proto(family, None)
        app = Application(_emit_services([]), TNS, name='VApp', in_protocol=inp, out_protocol=outp)
        schema = build_schema(app)
        sent = []

        class Capture(RemoteProcedureBase):
            def __call__(self, *args, **kwargs):
                ctx = self.contexts[0]
                self.get_out_object(ctx, args, kwargs)
                self.get_out_string(ctx)
                sent.append(b''.join(ctx.out_string))
                return None
        if not c.concrete:
            c.interp.prefixes = c.interp.prefixes + (__name__,)
        svc = RemoteService(Capture, 'http://loop/', app)
        meth = c.choose(['prims', 'struct', 'arrays', 'take', 'nothing', 'renamed'], 'method')
        if meth == 'prims':
            vals = c01.PRIM_VALUES[c.choose(list(range(len(c01.PRIM_VALUES))), 'values')]
            args = [vals[k] for k, _ in c01.PRIMS]
        elif meth == 'struct':
            args = [c01.outer_values()[c.choose([0, 1, 2, 3, 4], 'values')]]
        elif meth == 'arrays':
            args = list(c01.ARRAY_VALUES[c.choose(list(range(len(c01.ARRAY_VALUES))), 'values')])
        elif meth == 'take':
            args = [facet_values()[c.choose([0, 1, 2], 'values')]]
        elif meth == 'renamed':
            args = [c01.renamed_values()[c.choose([0, 1, 2, 3], 'values')]]
        else:
            args = []
        out = c.run(getattr(svc, meth), *args)
        c.check('client_emits', out.returned and len(sent) == 1, detail=repr(out))
        if not (out.returned and len(sent) == 1):
            return
        headers, payload = _payloads(family, sent[0])
        c.check('request_has_payload', payload is not None, detail=sent[0][:300])
        if payload is None:
            return
        ok, errs = _validate(schema, payload)
        c.check('request_valid_against_generated_schema', ok, detail=(errs, etree.tostring(payload)[:600]))
    return ob


for _f in ('xml', 'soap11'):
    _mk_requests(_f)


# ---------------------------------------------------------------------------------------------------------
# deductive: the emitters write exactly the declared facets, for every facet value
INF = decimal.Decimal('inf')


def _lexical_is(c, text, value):
    """text is the canonical decimal literal of the integer `value`."""
    if c.concrete:
        return text == str(value)
    from pyvc.lex import lex_int
    if isinstance(text, str):
        return isinstance(value, int) and text == str(value) or (not isinstance(value, int) and value == int(text)
                                                                   and text == str(int(text)))
    if not isinstance(text, FmtStr):
        return False
    toks = text.tokens
    from pyvc.text import Dec
    if len(toks) == 1 and isinstance(toks[0], Dec) and toks[0].minwidth == 0:
        return SInt(toks[0].term) == value
    return False


def _facets_of(c, restriction):
    return [(ch.tag.split('}')[1], c.attr(ch, 'value')) for ch in restriction if isinstance(ch.tag, str)]


def _mk_int_facets(tname, T, which):
    @obligation('C06.facets.%s.%s' % (tname, '_'.join(which)),
                targets=['spyne.interface.xml_schema.model:Tget_range_restriction_tag',
                         'spyne.interface.xml_schema.model:simple_get_restriction_tag',
                         'spyne.interface.xml_schema.model:_check_extension_attrs'],
                desc="for every integer value of the customised attributes %s of %s: the published restriction derives from "
                     "the XSD base type and carries exactly one facet per customised attribute (gt=minExclusive, "
                     "ge=minInclusive, lt=maxExclusive, le=maxInclusive, total_digits=totalDigits) whose value is the "
                     "canonical decimal literal of the declared value, and no other facet -- so the schema constrains "
                     "exactly what soft validation (C05) enforces" % (list(which), tname),
                assumptions=["lxml keeps the attributes it is given"])
    def ob(c):
        vals = {}
        for k in which:
            vals[k] = c.int(k)
            if k == 'total_digits':
                c.assume(And(vals[k] > 0, vals[k] < 40))
        # precondition of the declaration itself (Decimal._s_customize refuses bounds outside the type's own range)
        minb, maxb = T.Attributes.min_bound, T.Attributes.max_bound
        for k in which:
            if k != 'total_digits' and minb is not None:
                c.assume(And(vals[k] > minb, vals[k] < maxb))
        if c.concrete:
            F = T.customize(type_name='F', **vals)
        else:
            F = T.customize(type_name='F', **{k: (3 if k == 'total_digits' else 7) for k in which})

        class S(ServiceBase):
            @rpc(F, _returns=Integer)
            def m(ctx, f):
                pass
        app = Application([S], TNS, name='VApp', in_protocol=XmlDocument(), out_protocol=XmlDocument())
        if not c.concrete:
            for k, v in vals.items():
                setattr(F.Attributes, k, v)
        doc = XmlSchema(app.interface)
        out = c.run(doc.get_restriction_tag, F)
        c.check('emitter_returns', out.returned and out.value is not None, detail=repr(out))
        if not (out.returned and out.value is not None):
            return
        r = out.value
        base = T
        while base.__extends__ is not None and base.get_type_name() is base.Empty:
            base = base.__extends__
        c.check('derives_from_the_xsd_base_type', r.get('base') == T.get_type_name_ns(app.interface), detail=r.get('base'))
        facets = _facets_of(c, r)
        want = {'gt': 'minExclusive', 'ge': 'minInclusive', 'lt': 'maxExclusive', 'le': 'maxInclusive',
                'total_digits': 'totalDigits'}
        c.check('exactly_the_customised_facets', sorted(n for n, _ in facets) == sorted(want[k] for k in which),
                detail=[n for n, _ in facets])
        for n, text in facets:
            k = [a for a, b in want.items() if b == n]
            if k and k[0] in vals:
                c.check('facet_value_is_the_declared_value[%s]' % n, _lexical_is(c, text, vals[k[0]]), detail=repr(text))
    return ob


for _tn, _T in (('Integer', Integer), ('Integer32', Integer32), ('UnsignedInteger64', UnsignedInteger64)):
    for _w in (('ge', 'lt'), ('gt', 'le'), ('ge',), ('total_digits',), ('gt', 'ge', 'lt', 'le', 'total_digits')):
        _mk_int_facets(_tn, _T, _w)


def _mk_len_facets(which):
    @obligation('C06.facets.Unicode.%s' % '_'.join(which), targets=['spyne.interface.xml_schema.model:unicode_get_restriction_tag'],
                desc="for every value of min_len / max_len of a Unicode type (and a fixed pattern): the restriction carries "
                     "xs:length when both are equal, else minLength / maxLength for the customised ones, with the canonical "
                     "literal of the declared value, and the pattern verbatim",
                assumptions=["lxml keeps the attributes it is given"])
    def ob(c):
        vals = {k: c.int(k) for k in which if k != 'pattern'}
        for v in vals.values():
            c.assume(v >= 0)
        if 'min_len' in vals and len(which) == 1:
            # min_len = 0 is the default: such a class *is* the base type (customize() gives it no parent and
            # simple_add publishes nothing for it), so the emitter's precondition "not is_default(cls)" excludes it
            c.assume(vals['min_len'] > 0)
        if len(vals) == 2:
            c.assume(vals['min_len'] <= vals['max_len'])
        conc = dict(vals) if c.concrete else {k: (2 if k == 'min_len' else 9) for k in vals}
        if 'pattern' in which:
            conc['pattern'] = '[a-z]{2,}\\d'
        F = Unicode.customize(type_name='F', **conc)

        class S(ServiceBase):
            @rpc(F, _returns=Integer)
            def m(ctx, f):
                pass
        app = Application([S], TNS, name='VApp', in_protocol=XmlDocument(), out_protocol=XmlDocument())
        if not c.concrete:
            for k, v in vals.items():
                setattr(F.Attributes, k, v)
        doc = XmlSchema(app.interface)
        out = c.run(doc.get_restriction_tag, F)
        c.check('emitter_returns', out.returned, detail=repr(out))
        if not out.returned:
            return
        if out.value is None:
            # no restriction is published only when nothing differs from the base type
            c.check('no_restriction_only_for_defaults', And(*[v == getattr(Unicode.Attributes, k) for k, v in vals.items()])
                    if 'pattern' not in which else False, detail=vals)
            return
        facets = _facets_of(c, out.value)
        names = sorted(n for n, _ in facets if n != 'pattern')
        dmn, dmx = Unicode.Attributes.min_len, Unicode.Attributes.max_len          # 0, Decimal('inf')
        mn, mx = vals.get('min_len', dmn), vals.get('max_len', dmx)
        if 'pattern' in which:
            c.check('pattern_verbatim', [t for n, t in facets if n == 'pattern'] == ['[a-z]{2,}\\d'], detail=facets)
        else:
            c.check('no_pattern_facet', not [1 for n, _ in facets if n == 'pattern'], detail=facets)
        equal = (mn == mx) if 'max_len' in vals else False
        if names == ['length']:
            c.check('length_iff_equal', equal, detail=facets)
            c.check('facet_value_is_the_declared_value[length]',
                    _lexical_is(c, facets[[n for n, _ in facets].index('length')][1], mn), detail=facets)
            return
        c.check('length_iff_equal', Not(equal) if not isinstance(equal, bool) else not equal, detail=facets)
        c.check('only_length_facets', all(n in ('minLength', 'maxLength') for n in names), detail=facets)
        for n, text in facets:
            if n == 'minLength':
                c.check('facet_value_is_the_declared_value[minLength]', 'min_len' in vals and _lexical_is(c, text, mn),
                        detail=repr(text))
            if n == 'maxLength':
                c.check('facet_value_is_the_declared_value[maxLength]', 'max_len' in vals and _lexical_is(c, text, mx),
                        detail=repr(text))
        if 'minLength' not in names:
            c.check('missing_facet_only_for_the_default', (mn == dmn) if 'min_len' in vals else True, detail=(facets,))
        else:
            c.check('no_facet_for_a_default', Not(mn == dmn) if 'min_len' in vals else False, detail=facets)
        c.check('max_length_emitted_iff_customised', ('maxLength' in names) == ('max_len' in vals), detail=facets)
    return ob


for _w in (('min_len',), ('max_len',), ('min_len', 'max_len'), ('min_len', 'max_len', 'pattern')):
    _mk_len_facets(_w)


@obligation('C06.members.occurrence', targets=['spyne.interface.xml_schema.model:complex_add'],
            desc="for a member with symbolic min_occurs / max_occurs: the published element carries minOccurs / maxOccurs "
                 "with the canonical literal of the declared value (omitted exactly when the value is XSD's default 1), "
                 "nillable as declared, its declared name and type, and the members appear in declaration order -- the "
                 "occurrence bounds the schema publishes are the ones the codec enforces (C01 occurrence lemmas)",
            assumptions=["lxml keeps the attributes and child order it is given"])
def members_occurrence(c):
    from spyne.interface.xml_schema.model import complex_add
    Holder, F, mn, mx, plant = c01._holder(c)
    nillable = c.choose([True, False], 'nillable')
    default = c.choose([None, 5], 'default')
    app = Application([type(ServiceBase)('S', (ServiceBase,), {'m': rpc(Holder, _returns=Holder)(lambda ctx, h: h)})], TNS,
                      in_protocol=XmlDocument(), out_protocol=XmlDocument())
    F.Attributes.nillable = nillable
    F.Attributes.nullable = nillable
    F.Attributes.default = default
    plant()
    doc = XmlSchema(app.interface)
    tags = set()
    out = c.run(complex_add, doc, Holder, tags)
    c.check('emitter_returns', out.returned, detail=repr(out))
    if not out.returned:
        return
    ct = doc.get_schema_info(app.interface.get_namespace_prefix(TNS)).types['Holder']
    seq = ct.find('{%s}sequence' % XSD)
    c.check('sequence_published', seq is not None and len(seq) == 3, detail=etree.tostring(ct)[:400])
    if seq is None or len(seq) != 3:
        return
    c.check('members_in_declaration_order', [e.get('name') for e in seq] == ['before', 'f', 'after'],
            detail=[e.get('name') for e in seq])
    e = seq[1]
    c.check('member_type', e.get('type') == 'xs:integer', detail=e.get('type'))
    mo, xo = c.attr(e, 'minOccurs'), c.attr(e, 'maxOccurs')
    if mo is None:
        c.check('min_occurs_omitted_only_for_one', mn == 1, detail=repr(mo))
    else:
        c.check('min_occurs_is_declared_value', _lexical_is(c, mo, mn), detail=repr(mo))
        c.check('min_occurs_written_unless_one', Not(mn == 1) if not c.concrete else mn != 1, detail=repr(mo))
    if xo is None:
        c.check('max_occurs_omitted_only_for_one', mx == 1, detail=repr(xo))
    else:
        c.check('max_occurs_is_declared_value', _lexical_is(c, xo, mx), detail=repr(xo))
        c.check('max_occurs_written_unless_one', Not(mx == 1) if not c.concrete else mx != 1, detail=repr(xo))
    c.check('nillable_as_declared', (e.get('nillable') == 'true') == nillable, detail=e.get('nillable'))
    c.check('default_as_declared', e.get('default') == (None if default is None else '5'), detail=e.get('default'))


@obligation('C06.members.unbounded', targets=['spyne.interface.xml_schema.model:complex_add'],
            desc="max_occurs = 'unbounded' / Decimal('inf') / float('inf') is published as maxOccurs=\"unbounded\"")
def members_unbounded(c):
    from spyne.interface.xml_schema.model import complex_add
    how = c.choose(['unbounded', D('inf'), float('inf')], 'spelling')

    class H2(ComplexModel):
        __namespace__ = TNS
        f = Integer(max_occurs=how, min_occurs=0)
        g = Array(Unicode)
    app = Application([type(ServiceBase)('S', (ServiceBase,), {'m': rpc(H2, _returns=H2)(lambda ctx, h: h)})], TNS,
                      in_protocol=XmlDocument(), out_protocol=XmlDocument())
    doc = XmlSchema(app.interface)
    out = c.run(complex_add, doc, H2, set())
    c.check('emitter_returns', out.returned, detail=repr(out))
    if out.returned:
        ct = doc.get_schema_info(app.interface.get_namespace_prefix(TNS)).types['H2']
        e = ct.find('{%s}sequence' % XSD)[0]
        c.check('unbounded_spelled', e.get('maxOccurs') == 'unbounded' and e.get('minOccurs') == '0', detail=etree.tostring(e))


# ---------------------------------------------------------------------------------------------------------
# lexical forms: the datatype itself is a constraint both validators implement
from spyne.model.primitive import Uuid          # noqa: E402

LEXICAL = OrderedDict([
    ('Integer', (lambda: Integer, ['5', '+5', '05', ' 5 ', '5 ', '\n5', '5.0', '1e3', '0x10', '', '-0', '--5', u'٥', '5_000',
                                   '1' * 30])),
    ('Integer8', (lambda: Integer8, ['+127', '0127', '128', ' 127', '-0128'])),
    ('Decimal', (lambda: Decimal, ['1.5', '+1.5', '.5', '5.', '1e3', '1E+3', ' 1.5 ', 'NaN', 'Infinity', 'inf', '1,5', '', '1.5.5',
                                   u'١.٥', '-.5'])),
    ('Double', (lambda: Double, ['1.5', '1e3', '1E3', '.5', '5.', 'INF', '-INF', 'NaN', 'inf', 'nan', 'Infinity', '+INF', ' 1.5 ',
                                 '1_0', '0x1p3', ''])),
    ('Boolean', (lambda: Boolean, ['true', 'false', '1', '0', 'True', 'TRUE', ' true ', '', 'yes'])),
    ('Date', (lambda: Date, ['2020-02-29', '2020-02-30', '2020-2-9', '20200229', '2020-02-29Z', '2020-02-29+05:00', '-2020-02-29',
                             ' 2020-02-29 ', '2020-02-29T00:00:00', '0000-01-01', '10000-01-01'])),
    ('DateTime', (lambda: DateTime, ['2020-02-29T10:00:00', '2020-02-29 10:00:00', '2020-02-29T10:00:00.123456789',
                                     '2020-02-29T24:00:00', '2020-02-29T10:00:00z', '2020-02-29T10:00',
                                     '2020-02-29T10:00:00+14:00', '2020-02-29T10:00:00+14:01', '2020-02-29T10:00:60',
                                     ' 2020-02-29T10:00:00 ', '2020-02-29T10:00:00,5'])),
    ('Time', (lambda: Time, ['10:00:00', '10:00', '24:00:00', '10:00:00Z', '10:00:00+05:00', '10:00:00.1234567', ' 10:00:00 ',
                             '1:00:00'])),
    ('Duration', (lambda: Duration, ['P1D', 'PT1S', 'P1Y', 'P1M', 'PT', 'P', '-P1D', 'P-1D', 'PT1.5S', 'P1DT', 'P1W', 'pt1s',
                                     ' P1D ', 'PT1M30S', 'P0.5D'])),
    ('Uuid', (lambda: Uuid, ['12345678-1234-5678-1234-567812345678', '12345678123456781234567812345678',
                             '{12345678-1234-5678-1234-567812345678}', 'urn:uuid:12345678-1234-5678-1234-567812345678',
                             '12345678-1234-5678-1234-56781234567', 'ABCDEF78-1234-5678-1234-567812345678',
                             ' 12345678-1234-5678-1234-567812345678 '])),
    ('ByteArray', (lambda: ByteArray, ['YWJj', 'YWJj\n', 'YW Jj', 'YWJ', 'YWJj=', '!!!!', '', 'YWI=', 'YWI', '-_-_'])),
    ('Unicode', (lambda: Unicode, ['abc', '', ' abc ', 'a\tb'])),
])

# Open known finding C06-soft-lexical-leniency: literals on which the text decoders are deliberately or accidentally
# more (or, for the special doubles, less) permissive than the XSD lexical space the schema publishes.  Listed one by one:
# any other disagreement is a violation.
LENIENT = {
    ('Integer', ''), ('Integer', u'٥'), ('Integer', '5_000'), ('Decimal', '1e3'), ('Decimal', '1E+3'), ('Decimal', ''),
    ('Decimal', u'١.٥'), ('Double', 'INF'), ('Double', '-INF'), ('Double', 'NaN'), ('Double', '1_0'), ('Double', ''),
    ('Boolean', 'True'), ('Boolean', 'TRUE'), ('Boolean', ''), ('Date', '2020-2-9'), ('DateTime', '2020-02-29 10:00:00'),
    ('DateTime', '2020-02-29T10:00:00z'), ('DateTime', '2020-02-29T10:00:00+14:01'), ('DateTime', '2020-02-29T10:00:00,5'),
    ('Duration', 'PT'), ('Duration', 'P'), ('Duration', 'P1DT'), ('ByteArray', 'YWJj='),
}


@obligation('C06.lexical_verdicts', targets=['spyne.protocol.xml:XmlDocument.base_from_element',
                                            'spyne.protocol._inbase:InProtocolBase.from_unicode'],
            bounded="126 literals (canonical, redundant sign / zeros / whitespace, other alphabets, exponent and special "
                    "values, out-of-range fields, near-miss spellings) of 12 primitive types, one element each",
            desc="being a literal of the declared XSD datatype is a constraint both validators implement: a one-argument "
                 "request carrying the literal is accepted by schema validation iff it is accepted by soft validation")
def lexical_verdicts(c):
    tname = c.choose(list(LEXICAL), 'type')
    mk, lits = LEXICAL[tname]
    lit = c.choose(lits, 'literal')
    verdict = {}
    for validator in ('lxml', 'soft'):
        calls = []

        def check(ctx, x):
            calls.append(x)
            return 1
        check._pyvc_native = True
        Svc = type(ServiceBase)('Svc', (ServiceBase,), {'check': rpc(mk(), _returns=Integer)(check)})
        app = Application([Svc], TNS, name='VApp', in_protocol=XmlDocument(validator=validator), out_protocol=XmlDocument())
        body = (u'<tns:check xmlns:tns="%s"><tns:x>%s</tns:x></tns:check>' % (TNS, lit)).encode('utf8')
        out, seen, resp = _post(c, WsgiApplication(app), body)
        c.check('callable_returns', out.returned, detail=repr(out))
        if not out.returned:
            return
        verdict[validator] = (len(calls) == 1, repr(calls[0]) if calls else resp[-160:])
    c.known_region('C06-soft-lexical-leniency', (tname, lit) in LENIENT)
    c.check('lxml_and_soft_agree_on_lexical_form', verdict['lxml'][0] == verdict['soft'][0],
            detail=dict(type=tname, literal=lit, lxml=verdict['lxml'], soft=verdict['soft']))


# ---------------------------------------------------------------------------------------------------------
# polymorphic output: subclass instances where an ancestor is declared
class Shape(ComplexModel):
    __namespace__ = TNS
    name = Unicode


class Polygon(Shape):
    __namespace__ = TNS
    sides = Integer(ge=3)


class Square(Polygon):
    __namespace__ = TNS
    edge = Decimal


class Cube(Square):
    __namespace__ = TNS
    height = Decimal


class FarSquare(Polygon):
    """a subclass declared in another namespace than its base: Interface.add_class deliberately does not publish it
    ("would cause circular imports"), the polymorphic serializer marks it all the same -- open known finding"""
    __namespace__ = 'verif.c06.other'
    corner = Integer


def _mk_polymorphic(family):
    @obligation('C06.emitted_valid_polymorphic.%s' % family, targets=['spyne.interface._base:Interface.add_class',
                                                                    'spyne.protocol.xml:XmlDocument.gen_members_parent',
                                                                    'spyne.interface.xml_schema.model:complex_add'],
                bounded="a 4-level hierarchy (plus one subclass in a foreign namespace), only the root named in the signatures; instances of every "
                        "level returned alone, in an array and as a member",
                desc="with polymorphic output, a response that carries an instance of any (transitive) subclass of the "
                     "declared class -- marked with xsi:type -- is valid against the generated schema: every class of the "
                     "hierarchy is published, with its ancestors' fields first")
    def ob(c):
        P = {'xml': XmlDocument, 'soap11': Soap11, 'soap12': Soap12}[family]

        class Holder(ComplexModel):
            __namespace__ = TNS
            first = Shape
            rest = Array(Shape)
        insts = {'shape': Shape(name='s'), 'polygon': Polygon(name='p', sides=5), 'square': Square(name='q', sides=4, edge=D('1.5')),
                 'cube': Cube(name='c', sides=4, edge=D('2'), height=D('2.0')),
                 'far_square': FarSquare(name='f', sides=4, corner=1)}
        which = c.choose(sorted(insts), 'instance')
        c.known_region('C06-polymorphic-foreign-namespace-subclass', which == 'far_square')
        shape = c.choose(['alone', 'array', 'member'], 'position')

        class PSvc(ServiceBase):
            @rpc(_returns=Shape)
            def alone(ctx):
                return insts[which]

            @rpc(_returns=Array(Shape))
            def array(ctx):
                return [insts[which], insts['shape'], insts[which]]

            @rpc(_returns=Holder)
            def member(ctx):
                return Holder(first=insts[which], rest=[insts['cube'], insts[which]])
        app = Application([PSvc], TNS, name='PApp', in_protocol=P(), out_protocol=P(polymorphic=True))
        schema = build_schema(app)
        body = '<tns:%s xmlns:tns="%s"/>' % (shape, TNS)
        data = body.encode() if family == 'xml' else soap_env(SOAP11_NS if family == 'soap11' else SOAP12_NS, body)
        out, seen, resp = _post(c, WsgiApplication(app), data)
        c.check('callable_returns', out.returned, detail=repr(out))
        if not out.returned:
            return
        c.check('status_200', bool(seen) and seen[0].startswith('200'), detail=(seen, resp[:300]))
        if not (seen and seen[0].startswith('200')):
            return
        headers, payload = _payloads(family, resp)
        ok, errs = _validate(schema, payload)
        c.check('response_valid_against_generated_schema', ok, detail=(errs, etree.tostring(payload)[:700]))
        if which != 'shape':
            c.check('runtime_class_marked', b'type=' in etree.tostring(payload), detail=etree.tostring(payload)[:300])
    return ob


for _f in ('xml', 'soap11', 'soap12'):
    _mk_polymorphic(_f)


@obligation('C06.sub_ns', targets=['spyne.interface.xml_schema.model:complex_add', 'spyne.protocol.xml:XmlDocument.gen_members_parent'],
            bounded="one member with sub_ns, XmlDocument",
            desc="a member declared to travel in another namespace (sub_ns) is published in that namespace: the response "
                 "Spyne emits for it is valid against the generated schema")
def sub_ns(c):
    class NsHolder(ComplexModel):
        __namespace__ = TNS
        here = Integer
        there = Integer(sub_ns='verif.c06.other')

    class NSvc(ServiceBase):
        @rpc(_returns=NsHolder)
        def g(ctx):
            return NsHolder(here=1, there=2)
    app = Application([NSvc], TNS, name='VApp', in_protocol=XmlDocument(), out_protocol=XmlDocument())
    schema = build_schema(app)
    out, seen, resp = _post(c, WsgiApplication(app), ('<tns:g xmlns:tns="%s"/>' % TNS).encode())
    c.check('callable_returns', out.returned and bool(seen) and seen[0].startswith('200'), detail=(repr(out), seen))
    if not (out.returned and seen and seen[0].startswith('200')):
        return
    headers, payload = _payloads('xml', resp)
    ok, errs = _validate(schema, payload)
    # open known finding: complex_add ignores sub_ns (the line is commented out), the serializer honours it
    c.known_region('C06-sub-ns-not-published', True)
    c.check('response_valid_against_generated_schema', ok, detail=(errs, etree.tostring(payload)[:400]))


def _mk_evolved(family):
    @obligation('C06.emitted_valid_after_evolution.%s' % family, targets=['spyne.model.complex:ComplexModelBase.insert_field',
                                                                        'spyne.model.complex:ComplexModelBase.append_field',
                                                                        'spyne.interface.xml_schema.model:complex_add'],
                bounded="a class with three customised variants (customize, Array member, Mandatory) that receives fields by "
                        "insert_field (front, middle) and append_field before the application is built",
                desc="fields added to a class after its variants exist are emitted in the order the published schema "
                     "declares, whichever variant a value is serialised through")
    def ob(c):
        from spyne.model.complex import Mandatory as M
        P = {'xml': XmlDocument, 'soap11': Soap11, 'soap12': Soap12}[family]

        class Item(ComplexModel):
            __namespace__ = TNS
            a = Integer
            b = Unicode
        ItemV = Item.customize(min_occurs=1)
        Arr = Array(Item)
        ItemM = M(Item)
        how = c.choose(['insert_front', 'insert_middle', 'append', 'insert_then_append', 'none'], 'evolution')
        if how in ('insert_front', 'insert_then_append'):
            Item.insert_field(0, 'first', Integer)
        if how == 'insert_middle':
            Item.insert_field(1, 'mid', Unicode)
        if how in ('append', 'insert_then_append'):
            Item.append_field('last', Decimal)

        class EHolder(ComplexModel):
            __namespace__ = TNS
            plain = Item
            variant = ItemV
            mandatory = ItemM
            many = Arr

        def mk(n):
            kw = dict(a=n, b='b%d' % n)
            for k, v in (('first', 10 + n), ('mid', 'm%d' % n), ('last', D('1.5'))):
                if k in Item._type_info:
                    kw[k] = v
            return Item(**kw)

        class ESvc(ServiceBase):
            @rpc(_returns=EHolder)
            def get(ctx):
                return EHolder(plain=mk(1), variant=mk(2), mandatory=mk(3), many=[mk(4), mk(5)])
        app = Application([ESvc], TNS, name='EApp', in_protocol=P(), out_protocol=P())
        schema = build_schema(app)
        body = '<tns:get xmlns:tns="%s"/>' % TNS
        data = body.encode() if family == 'xml' else soap_env(SOAP11_NS if family == 'soap11' else SOAP12_NS, body)
        out, seen, resp = _post(c, WsgiApplication(app), data)
        c.check('status_200', out.returned and bool(seen) and seen[0].startswith('200'), detail=(repr(out), seen, resp[:300]))
        if not (out.returned and seen and seen[0].startswith('200')):
            return
        headers, payload = _payloads(family, resp)
        ok, errs = _validate(schema, payload)
        c.check('response_valid_against_generated_schema', ok, detail=(errs, etree.tostring(payload)[:700]))
    return ob


for _f in ('xml', 'soap11'):
    _mk_evolved(_f)



@obligation('C06.compiles.every_primitive', targets=['spyne.interface.xml_schema._base:XmlSchema.build_validation_schema',
                                                     'spyne.interface.xml_schema.model:unicode_get_restriction_tag'],
            bounded="one class with a member (and an array, and an attribute where possible) of every primitive model "
                    "exported by spyne.model.primitive (found by introspection), three protocols",
            desc="the schema generated for an application that uses every primitive model of the package compiles: every "
                 "pattern, facet and base type the primitives publish is valid XML Schema")
def compiles_every_primitive(c):
    import spyne.model.primitive as P
    from spyne.model import SimpleModel
    skip = ('AnyXml', 'AnyHtml', 'AnyDict', 'Any')
    prims = [(k, v) for k, v in sorted(vars(P).items()) if isinstance(v, type) and issubclass(v, SimpleModel) and
             hasattr(v, 'Attributes') and k not in skip]
    family = c.choose(['xml', 'soap11', 'soap12'], 'protocol')
    ti = []
    GEO = ('Point', 'Line', 'LineString', 'Polygon', 'MultiPoint', 'MultiLine', 'MultiLineString', 'MultiPolygon')
    for k, v in prims:
        if k in GEO:
            v = v(2)            # the geometry types are declared with their number of dimensions
        ti.append(('m_' + k, v))
        ti.append(('a_' + k, Array(v)))
    AllPrims = type(ComplexModel)('AllPrims', (ComplexModel,), {'__namespace__': TNS, '_type_info': ti})

    def f(ctx, a):
        return a
    Svc = type(ServiceBase)('PSvc', (ServiceBase,), {'f': rpc(AllPrims, _returns=AllPrims)(f)})
    inp, outp = _proto(family, 'lxml')
    out = c.run(Application, [Svc], TNS, name='VApp', in_protocol=inp, out_protocol=outp)
    c.check('application_with_schema_validation_builds', out.returned, detail=repr(out)[:600])
    if out.returned:
        doc = XmlSchema(out.value.interface)
        o2 = c.run(doc.build_validation_schema)
        c.check('schema_compiles', o2.returned and doc.validation_schema is not None, detail=repr(o2)[:800])
    c.check('primitives_found', len(prims) >= 50, detail=len(prims))
