"""C03: HttpRpc flat key/value fidelity -- bounded stand-ins around the proved _s2cmi contract:
the whole simple_dict_to_object / object_to_simple_dict round trip, the query-string parser and the
single-primitive response.  All labelled bounded (stated bounds), never counted as proved."""
import io
import itertools
from urllib.parse import quote

from pyvc.oblig import obligation

from spyne import Application, ServiceBase, rpc
from spyne.model.complex import ComplexModel, Array
from spyne.model.binary import ByteArray
from spyne.model.primitive import Integer, Unicode, Decimal, Date
from spyne.protocol.http import HttpRpc
from spyne.protocol.json import JsonDocument
from spyne.server.wsgi import WsgiApplication, _parse_qs

TNS = 'verif.tns'


class Leaf(ComplexModel):
    __namespace__ = TNS
    v = Integer


class Geo(ComplexModel):
    __namespace__ = TNS
    lat = Integer
    lon = Integer(sub_name='lng')                 # a member that travels under another name, two levels down


class Place(ComplexModel):
    __namespace__ = TNS
    label = Unicode(sub_name='title')
    origin = Geo
    corners = Array(Geo)


class Sub(ComplexModel):
    __namespace__ = TNS
    x = Integer
    ys = Array(Integer)
    leaves = Array(Leaf)
    place = Place


class Item(ComplexModel):
    __namespace__ = TNS
    a = Integer
    s = Unicode
    subs = Array(Sub)
    twin = Array(Sub)      # same shape, sibling field (index maps must not be shared)


class Root(ComplexModel):
    __namespace__ = TNS
    n = Integer
    items = Array(Item)
    tags = Array(Unicode)
    one = Sub
    other = Sub            # sibling object with same-named array fields


def snapshot(o):
    if o is None or isinstance(o, (int, str, bytes, float)):
        return o
    if isinstance(o, (list, tuple)):
        return [snapshot(x) for x in o]
    if isinstance(o, ComplexModel):
        return {k: snapshot(getattr(o, k, None)) for k in o.get_flat_type_info(type(o))}
    return repr(o)


def _app(strict=False, validator=None):
    got = []

    class Svc(ServiceBase):
        @rpc(Root, _returns=Unicode)
        def f(ctx, root):
            got.append(root)
            return 'ok'

        @rpc(Integer, Array(Integer), _returns=Integer)
        def g(ctx, i, arr):
            got.append((i, arr))
            return i
    app = Application([Svc], TNS, in_protocol=HttpRpc(validator=validator, strict_arrays=strict),
                      out_protocol=HttpRpc())
    return WsgiApplication(app), got


def _get(c, wsgi, path, qs):
    env = {'REQUEST_METHOD': 'GET', 'PATH_INFO': path, 'QUERY_STRING': qs, 'SERVER_NAME': 'h', 'SERVER_PORT': '80',
           'wsgi.url_scheme': 'http', 'wsgi.input': io.BytesIO(b''), 'CONTENT_LENGTH': '0'}
    seen = []

    def sr(status, headers, exc=None):
        seen.append((status, headers))
    sr._pyvc_native = True
    out = c.run(wsgi, env, sr)
    body = None
    if out.returned:
        o2 = c.run(lambda: b''.join(out.value))
        body = o2.value if o2.returned else repr(o2)
    return out, seen, body


INDEX_SETS = [(0, 1, 2), (0, 2, 5), (1, 10, 2), (3, 7, 11), (10, 9, 100)]


@obligation('C03.arrays.index_order', targets=['spyne.protocol.dictdoc.simple:SimpleDictDocument.simple_dict_to_object'],
            bounded="3 array items at 5 sparse/contiguous index choices (incl. two- and three-digit indexes) x all 6 "
                    "orders of the pairs x nested arrays two levels deep x sibling arrays",
            desc="every array arrives in index order whatever the order of the pairs in the query string; nested and "
                 "sibling arrays do not interfere")
def index_order(c):
    idx = c.choose(INDEX_SETS, 'indexes')
    perm = c.choose(list(itertools.permutations(range(3))), 'pair_order')
    nested = c.choose([False, True], 'nested')
    pairs = []
    for i in idx:
        pairs.append(('root.items[%d].a' % i, str(100 + i)))
    if nested:
        for i in idx[:2]:
            for j in idx:
                pairs.append(('root.items[%d].subs[%d].x' % (i, j), str(1000 * i + j)))
            pairs.append(('root.items[%d].twin[%d].x' % (i, idx[0]), str(7000 + i)))
        # three levels deep: the same (field name, parent index) occurs under different grandparents
        want_leaves = {}
        for gi, i in enumerate(idx[:2]):
            ks = idx if gi == 0 else tuple(reversed(idx[:2]))
            for k in ks:
                pairs.append(('root.items[%d].subs[%d].leaves[%d].v' % (i, idx[0], k), str(50000 + 100 * i + k)))
            want_leaves[i] = [50000 + 100 * i + k for k in sorted(ks)]
        # sibling objects with same-named arrays
        for k in idx:
            pairs.append(('root.one.leaves[%d].v' % k, str(600 + k)))
        for k in idx[:2]:
            pairs.append(('root.other.leaves[%d].v' % k, str(700 + k)))
    order = [pairs[p] for p in perm] + pairs[3:][::-1]
    qs = '&'.join('%s=%s' % (quote(k), v) for k, v in order)
    wsgi, got = _app()
    out, seen, body = _get(c, wsgi, '/f', qs)
    c.check('callable_returns', out.returned, detail=repr(out))
    c.check('user_function_called_once', len(got) == 1, detail=(seen, body))
    if len(got) != 1:
        return
    root = got[0]
    items = root.items or []
    c.check('items_in_index_order', [it.a for it in items] == [100 + i for i in sorted(idx)], detail=[it.a for it in items])
    if nested:
        for i in sorted(idx[:2]):
            it = [x for x in items if x.a == 100 + i][0]
            c.check('nested_in_index_order', [s.x for s in (it.subs or [])] == [1000 * i + j for j in sorted(idx)],
                    detail=[s.x for s in (it.subs or [])])
            c.check('sibling_array_independent', [s.x for s in (it.twin or [])] == [7000 + i],
                    detail=[s.x for s in (it.twin or [])])
            first = [s_ for s_ in (it.subs or []) if s_.x == 1000 * i + sorted(idx)[0] or True]
            sub0 = [s_ for s_ in (it.subs or []) if s_.x == 1000 * i + idx[0]]
            got_leaves = [l.v for l in ((sub0[0].leaves if sub0 else None) or [])]
            c.check('third_level_in_index_order', got_leaves == want_leaves[i], detail=(got_leaves, want_leaves[i]))
        c.check('sibling_objects_same_named_arrays', [l.v for l in ((root.one.leaves if root.one else None) or [])] ==
                [600 + k for k in sorted(idx)] and [l.v for l in ((root.other.leaves if root.other else None) or [])] ==
                [700 + k for k in sorted(idx[:2])], detail=(snapshot(root.one), snapshot(root.other)))


@obligation('C03.pair_order.argument_names', targets=['spyne.server.wsgi:WsgiApplication.is_wsdl_request',
                                                     'spyne.server.wsgi:WsgiApplication.__call__'],
            bounded="one signature of four primitives whose names start with or contain words the transport gives a "
                    "meaning to elsewhere (wsdl_location, wsdlx, xsd_url, the method's own name) x all 24 orders of the pairs",
            desc="the user function receives the values whatever the order of the pairs and whatever the arguments are "
                 "called: only the exact key 'wsdl' asks for the interface document")
def argument_names(c):
    got = []

    class NSvc(ServiceBase):
        @rpc(Unicode, Integer, Unicode, Integer, _returns=Unicode)
        def named(ctx, wsdl_location, wsdlx, xsd_url, named):
            got.append((wsdl_location, wsdlx, xsd_url, named))
            return 'ok'
    app = Application([NSvc], TNS, in_protocol=HttpRpc(), out_protocol=HttpRpc())
    pairs = [('wsdl_location', 'loc'), ('wsdlx', '5'), ('xsd_url', 'u'), ('named', '7')]
    perm = c.choose(list(itertools.permutations(range(4))), 'pair_order')
    qs = '&'.join('%s=%s' % pairs[i] for i in perm)
    out, seen, body = _get(c, WsgiApplication(app), '/named', qs)
    c.check('callable_returns', out.returned, detail=repr(out))
    c.check('user_function_called_once_with_the_values', got == [('loc', 5, 'u', 7)], detail=(qs, got, seen[:1], (body or b'')[:80]))


def _objects():
    s1 = Sub(x=1, ys=[1, 2, 3])
    s2 = Sub(x=2, ys=[])
    shared = Sub(x=9, ys=[9])
    return {
        'flat': Root(n=1, tags=['a', 'b c', 'd&e=f;g', u'é%', '+'], one=Sub(x=5)),
        'nested': Root(n=2, items=[Item(a=1, s='x', subs=[s1, s2]), Item(a=2, s='y', subs=[Sub(x=3)], twin=[Sub(x=4)])]),
        'shared_instance': Root(n=3, items=[Item(a=1, subs=[shared], twin=[shared])], one=shared),
        'deep': Root(n=4, items=[Item(a=i, subs=[Sub(x=10 * i + j, ys=[j]) for j in range(3)]) for i in range(3)]),
        'empty': Root(),
        'renamed_deep': Root(n=5, one=Sub(x=1, place=Place(label='home', origin=Geo(lat=1, lon=2),
                                                         corners=[Geo(lat=3, lon=4), Geo(lon=5)])),
                             items=[Item(a=1, subs=[Sub(x=2, place=Place(label='far', origin=Geo(lon=-7)))])]),
    }


@obligation('C03.roundtrip.object_to_simple_dict', targets=['spyne.protocol.dictdoc.simple:SimpleDictDocument.object_to_simple_dict',
                                                            'spyne.protocol.dictdoc.simple:SimpleDictDocument.simple_dict_to_object'],
            bounded="6 object shapes: flat with reserved characters, nested arrays, an instance shared by three slots, "
                    "3x3 nested arrays, empty, members renamed with sub_name two and three levels down (also in arrays)",
            desc="the flattened form produced for an object maps back to an equal object")
def roundtrip(c):
    name = c.choose(sorted(_objects()), 'shape')
    obj = _objects()[name]
    prot = HttpRpc()
    out = c.run(prot.object_to_simple_dict, Root, obj)
    c.check('flatten_returns', out.returned, detail=repr(out))
    if not out.returned:
        return
    flat = out.value
    doc = {}
    for k, v in flat.items():
        if v == 'empty':
            doc[k] = ['empty']
        elif isinstance(v, list):
            doc[k] = [None if x is None else str(x) for x in v]
        else:
            doc[k] = [str(v)]
    o2 = c.run(prot.simple_dict_to_object, None, doc, Root)
    c.check('parse_returns', o2.returned, detail=repr(o2))
    if o2.returned:
        want, got = snapshot(obj), snapshot(o2.value)

        def norm(d):
            # what the flat form cannot distinguish: None vs absent, empty list vs None
            if isinstance(d, dict):
                return {k: norm(v) for k, v in d.items() if norm(v) not in (None, [], {})}
            if isinstance(d, list):
                return [norm(x) for x in d]
            return d
        c.check('equal_object', norm(want) == norm(got), detail=(norm(want), norm(got)))


@obligation('C03.roundtrip.delimiters_and_helper', targets=['spyne.util.dictdoc:get_object_as_simple_dict',
                                                            'spyne.protocol.dictdoc.simple:SimpleDictDocument.object_to_simple_dict',
                                                            'spyne.protocol.dictdoc.simple:SimpleDictDocument.simple_dict_to_object'],
            bounded="hierarchy delimiters '.', '_', '/', '__' x 3 object shapes; the public helper get_object_as_simple_dict "
                    "called twice in a row with every ordered pair of delimiters (the default given or omitted)",
            desc="the flattened form produced for an object -- by the protocol or by the public helper, whatever delimiter was "
                 "used in an earlier call -- uses the delimiter asked for and maps back to an equal object")
def delimiters_and_helper(c):
    from spyne.util.dictdoc import get_object_as_simple_dict
    name = c.choose(['nested', 'deep', 'renamed_deep'], 'shape')
    obj = _objects()[name]
    first = c.choose(['.', '_', '/', '__', None], 'first_call_delimiter')
    second = c.choose(['.', '_', '/', None], 'second_call_delimiter')

    def norm(d):
        if isinstance(d, dict):
            return {k: norm(v) for k, v in d.items() if norm(v) not in (None, [], {})}
        if isinstance(d, list):
            return [norm(x) for x in d]
        return d
    for step, delim in (('first', first), ('second', second)):
        out = c.run(get_object_as_simple_dict, obj, Root) if delim is None else c.run(get_object_as_simple_dict, obj, Root, delim)
        c.check('helper_returns[%s]' % step, out.returned, detail=repr(out))
        if not out.returned:
            return
        flat = out.value
        d = delim or '.'
        ref = HttpRpc(hier_delim=d).object_to_simple_dict(Root, obj)
        c.check('helper_uses_the_delimiter_asked_for[%s]' % step, sorted(flat) == sorted(ref), detail=(d, sorted(flat)[:6], sorted(ref)[:6]))
        doc = {}
        for k, v in flat.items():
            if v == 'empty':
                doc[k] = ['empty']
            elif isinstance(v, list):
                doc[k] = [None if x is None else str(x) for x in v]
            else:
                doc[k] = [str(v)]
        prot = HttpRpc(hier_delim=d)
        o2 = c.run(prot.simple_dict_to_object, None, doc, Root)
        c.check('maps_back_to_an_equal_object[%s]' % step, o2.returned and norm(snapshot(o2.value)) == norm(snapshot(obj)),
                detail=(d, repr(o2)[:200]))


QS_CASES = [
    ('a=1&b=2', [('a', ['1']), ('b', ['2'])]),
    ('b=2&a=1&b=3', [('b', ['2', '3']), ('a', ['1'])]),
    ('a=x%26y%3Dz&c=1', [('a', ['x&y=z']), ('c', ['1'])]),
    ('a=p%3Bq;b=2', [('a', ['p;q']), ('b', ['2'])]),
    ('a=1+2&b=%2B', [('a', ['1 2']), ('b', ['+'])]),
    ('k%5B0%5D.x=1', [('k[0].x', ['1'])]),
    ('a=&b', [('a', ['']), ('b', [None])]),
    ('a=%C3%A9', [('a', [u'é'])]),
    ('a=1&&b=2&', [('a', ['1']), ('b', ['2'])]),
    ('a=x%253Dy', [('a', ['x%3Dy'])]),
]


@obligation('C03.parse_qs', targets=['spyne.server.wsgi:_parse_qs'],
            bounded="10 query strings covering repeated keys, percent-encoded separators (& ; = %), '+', empty values, "
                    "double encoding",
            desc="the query string parser yields the ordered multimap of percent-decoded pairs: separators are "
                 "recognised before decoding, each token is decoded exactly once")
def parse_qs(c):
    qs, want = c.choose(QS_CASES, 'query_string')
    out = c.run(_parse_qs, qs)
    c.check('returns', out.returned, detail=repr(out))
    if out.returned:
        got = [(k, list(v)) for k, v in out.value.items()]
        c.check('ordered_multimap', got == want, detail=(qs, got, want))


@obligation('C03.primitive_return', targets=['spyne.protocol.http:HttpRpc.serialize'],
            bounded="integer / text / decimal / date / bytes / boolean / double / duration results incl. the zero, false and "
                    "empty value of each, text types with a declared encoding (utf-16, latin-1, utf-8)",
            desc="a single primitive return value is sent as its exact text or bytes")
def primitive_return(c):
    import datetime
    import decimal
    from spyne.model.primitive import Boolean, Double, Duration
    T, val, want = c.choose([(Integer, 2 ** 70, b'1180591620717411303424'), (Unicode, u'hé &=;', u'hé &=;'.encode('utf8')),
                             # values that are false in a boolean context are values like any other
                             (Integer, 0, b'0'), (Integer, -1, b'-1'), (Boolean, False, b'false'), (Boolean, True, b'true'),
                             (Double, 0.0, b'0.0'), (Decimal, decimal.Decimal('0'), b'0'),
                             (Duration, datetime.timedelta(0), b'PT0S'), (Unicode, u'', b''),
                             (Decimal, decimal.Decimal('1.50'), b'1.50'), (Date, datetime.date(2020, 2, 29), b'2020-02-29'),
                             (ByteArray, [b'\x00\xff', b'raw'], b'\x00\xffraw'),
                             # a text type that declares its own encoding is sent in that encoding
                             (Unicode(encoding='utf-16'), u'h\xe9', u'h\xe9'.encode('utf-16')),
                             (Unicode(encoding='latin-1'), u'caf\xe9 \xfc', u'caf\xe9 \xfc'.encode('latin-1')),
                             (Unicode(encoding='utf-8'), u'\u4e2d', u'\u4e2d'.encode('utf-8'))], 'result')

    class Svc(ServiceBase):
        @rpc(_returns=T)
        def f(ctx):
            return val
    app = Application([Svc], TNS, in_protocol=HttpRpc(), out_protocol=HttpRpc())
    out, seen, body = _get(c, WsgiApplication(app), '/f', '')
    c.check('callable_returns', out.returned, detail=repr(out))
    c.check('status_200', bool(seen) and seen[0][0].startswith('200'), detail=seen)
    c.check('exact_text_or_bytes', body == want, detail=(body, want))
    if seen:
        cl = [v for k, v in seen[0][1] if k.lower() == 'content-length']
        c.check('content_length_is_the_byte_count', cl == [str(len(want))], detail=(cl, len(want)))


@obligation('C03.out_headers', targets=['spyne.protocol.http:HttpRpc.serialize', 'spyne.protocol.http:_header_to_bytes'],
            bounded="14 header triples: integers, text, and date-times that are naive, UTC, or in a fixed / named zone whose "
                    "conversion to UTC stays on the day or crosses a day, month or year boundary (incl. 29 February)",
            desc="the declared HTTP response headers carry the values the function set: text and numbers as their text, a "
                 "date-time as the HTTP-date (IMF-fixdate, GMT) of that very instant whatever zone the value carries; the "
                 "body is the primitive result")
def out_headers(c):
    import datetime as dt
    from email.utils import format_datetime
    import pytz
    from spyne.model.complex import ComplexModel
    from spyne.model.primitive import DateTime
    F = pytz.FixedOffset
    WHEN = [dt.datetime(2013, 1, 1, 0, 0, 0), dt.datetime(2020, 2, 29, 23, 59, 59), dt.datetime(2013, 1, 1, 12, 0, 0, 0, pytz.utc),
            dt.datetime(2019, 6, 12, 15, 30, 0, 0, F(120)), dt.datetime(2019, 6, 12, 9, 30, 0, 0, F(-300)),
            dt.datetime(2019, 6, 12, 1, 30, 0, 0, F(120)), dt.datetime(2019, 6, 12, 22, 30, 0, 0, F(-300)),
            dt.datetime(2019, 7, 1, 0, 15, 0, 0, F(60)), dt.datetime(2019, 12, 31, 20, 0, 0, 0, F(-480)),
            dt.datetime(2020, 3, 1, 0, 30, 0, 0, F(60)), dt.datetime(2021, 1, 1, 0, 0, 0, 0, F(14 * 60)),
            dt.datetime(2020, 2, 28, 23, 0, 0, 0, F(-120)), pytz.timezone('Asia/Tokyo').localize(dt.datetime(2021, 3, 1, 8, 59, 59)),
            dt.datetime(2024, 12, 31, 23, 59, 59, 999999, F(-1))]
    n = c.choose(list(range(len(WHEN))), 'expires')

    class RespHeader(ComplexModel):
        _type_info = [('Expires', DateTime), ('X-Count', Integer), ('X-Name', Unicode)]

    class HSvc(ServiceBase):
        __out_header__ = RespHeader

        @rpc(Integer, _returns=Unicode)
        def f(ctx, i):
            ctx.out_header = RespHeader(**{'Expires': WHEN[i], 'X-Count': 2 ** 40 + i, 'X-Name': 'name-%d' % i})
            return u'case %d' % i

        @rpc(_returns=Unicode)
        def plain(ctx):
            return u'no headers set'           # declares the header class (service level) but sets nothing
    app = Application([HSvc], TNS, in_protocol=HttpRpc(), out_protocol=HttpRpc())
    wsgi_app = WsgiApplication(app)
    out, seen, body = _get(c, wsgi_app, '/f', 'i=%d' % n)
    c.check('callable_returns', out.returned, detail=repr(out))
    c.check('status_200', bool(seen) and seen[0][0].startswith('200'), detail=seen)
    if not seen:
        return
    headers = dict(seen[0][1])
    w = WHEN[n]
    instant = (w if w.tzinfo is not None else w.replace(tzinfo=dt.timezone.utc)).astimezone(dt.timezone.utc)
    c.check('date_header_is_the_http_date_of_the_instant', headers.get('Expires') == format_datetime(instant, usegmt=True),
            detail=(headers.get('Expires'), format_datetime(instant, usegmt=True)))
    c.check('number_and_text_headers_verbatim', headers.get('X-Count') == str(2 ** 40 + n) and headers.get('X-Name') == 'name-%d' % n,
            detail=headers)
    c.check('body_is_the_result', body == b'case %d' % n, detail=body)
    # the next response of the same process carries only its own headers
    out2, seen2, body2 = _get(c, wsgi_app, '/plain', '')
    c.check('later_response_returns', out2.returned and bool(seen2) and seen2[0][0].startswith('200') and body2 == b'no headers set',
            detail=(repr(out2), seen2[:1], body2))
    if seen2:
        h2 = dict(seen2[0][1])
        c.check('earlier_header_values_do_not_reappear', not any(k in h2 for k in ('Expires', 'X-Count', 'X-Name')), detail=h2)
