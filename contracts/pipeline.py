"""Shared harness: one real request through the real pipeline (WsgiApplication.__call__ and below),
with every havocked party (user function, listeners, WSGI server side) under the contract's control.

In symbolic mode the spyne side is interpreted (every function body is the working tree's) and the
havocked parties fork through c.choose; in replay mode the same harness drives the real code natively.
Every observable goes to the ghost trace c.trace.
"""
import io
import json

from spyne import Application, ServiceBase, rpc, Fault
from spyne.context import MethodContext
from spyne.evmgr import EventManager
from spyne.model.primitive import Integer, Unicode
from spyne.protocol.http import HttpRpc
from spyne.protocol.json import JsonDocument
from spyne.protocol.msgpack import MessagePackDocument
from spyne.protocol.soap import Soap11, Soap12
from spyne.protocol.xml import XmlDocument
from spyne.protocol.yaml import YamlDocument
from spyne.server.wsgi import WsgiApplication

from .common import accepts_sym

METHOD_EVENTS = ['method_context_created', 'method_call', 'method_return_object', 'method_exception_object',
                 'method_return_document', 'method_exception_document', 'method_return_string',
                 'method_exception_string', 'method_context_closed', 'method_return_push', 'method_redirect',
                 'method_redirect_exception']
WSGI_EVENTS = ['wsgi_call', 'wsgi_return', 'wsgi_exception', 'wsgi_close', 'wsdl', 'wsdl_exception']
PROT_EVENTS = ['before_deserialize', 'after_deserialize', 'before_serialize', 'after_serialize', 'serialize']

SECRET = 'S3CR3T-T0K3N-7f3a'
TNS = 'verif.tns'

SOAP11_NS = 'http://schemas.xmlsoap.org/soap/envelope/'
SOAP12_NS = 'http://www.w3.org/2003/05/soap-envelope'


def soap_env(ns, body):
    return ('<e:Envelope xmlns:e="%s" xmlns:tns="%s"><e:Body>%s</e:Body></e:Envelope>' % (ns, TNS, body)).encode()


# request documents per input protocol family: kind -> (method, path, query, body, content type)
def requests_for(family):
    d = _requests_for(family)
    # transport-level variants of the valid request (every family): a declared length above the limit, a length that is
    # not a number -- (method, path, query, body, content type, extra environ)
    if family not in ('http', 'httpout'):          # HttpRpc never reads the body of a GET request: its Content-Length is not consulted
        d['declared_too_long'] = d['valid'] + ({'CONTENT_LENGTH': str(10 ** 9)},)
        d['content_length_not_a_number'] = d['valid'] + ({'CONTENT_LENGTH': 'twelve'},)
        # bytes that are not text in the announced (or default) encoding, in the middle of an otherwise valid document
        v = d['valid']
        d['not_utf8'] = v[:3] + (v[3][:len(v[3]) // 2] + b'\xff\xfe\xe9' + v[3][len(v[3]) // 2:],) + v[4:]
    return d


def _requests_for(family):
    if family in ('http', 'httpout'):
        return {
            'valid': ('GET', '/m', 'i=5', b'', 'text/plain'),
            'unknown_method': ('GET', '/nope', 'i=5', b'', 'text/plain'),
            'invalid_arg': ('GET', '/m', 'i=notanumber', b'', 'text/plain'),
        }
    if family == 'json':
        return {
            'valid': ('POST', '/', '', json.dumps({'m': {'i': 5}}).encode(), 'application/json'),
            'malformed': ('POST', '/', '', b'{"m": {"i": ', 'application/json'),
            'unknown_method': ('POST', '/', '', json.dumps({'nope': {'i': 5}}).encode(), 'application/json'),
            'invalid_arg': ('POST', '/', '', json.dumps({'m': {'i': 'x'}}).encode(), 'application/json'),
            'bad_envelope': ('POST', '/', '', json.dumps({'m': {'i': 5}, 'k': {}}).encode(), 'application/json'),
            'scalar_body': ('POST', '/', '', b'3', 'application/json'),
            'null_body': ('POST', '/', '', b'null', 'application/json'),
            'list_body': ('POST', '/', '', b'[1, 2]', 'application/json'),
            'empty_body': ('POST', '/', '', b'', 'application/json'),
            'args_scalar': ('POST', '/', '', b'{"m": 3}', 'application/json'),
        }
    if family in ('soap11', 'soap12'):
        ns = SOAP11_NS if family == 'soap11' else SOAP12_NS
        return {
            'valid': ('POST', '/', '', soap_env(ns, '<tns:m><tns:i>5</tns:i></tns:m>'), 'text/xml'),
            'malformed': ('POST', '/', '', soap_env(ns, '<tns:m><tns:i>5</tns:i></tns:m>')[:-20], 'text/xml'),
            'unknown_method': ('POST', '/', '', soap_env(ns, '<tns:nope><tns:i>5</tns:i></tns:nope>'), 'text/xml'),
            'invalid_arg': ('POST', '/', '', soap_env(ns, '<tns:m><tns:i>x</tns:i></tns:m>'), 'text/xml'),
            'bad_envelope': ('POST', '/', '', b'<a xmlns="urn:x"><b/></a>', 'text/xml'),
            'empty_body': ('POST', '/', '', b'', 'text/xml'),
            'empty_soap_body': ('POST', '/', '', soap_env(ns, ''), 'text/xml'),
        }
    if family == 'xml':
        return {
            'valid': ('POST', '/', '', ('<tns:m xmlns:tns="%s"><tns:i>5</tns:i></tns:m>' % TNS).encode(), 'text/xml'),
            'malformed': ('POST', '/', '', ('<tns:m xmlns:tns="%s"><tns:i>5</tns:i>' % TNS).encode(), 'text/xml'),
            'unknown_method': ('POST', '/', '', ('<tns:nope xmlns:tns="%s"><tns:i>5</tns:i></tns:nope>' % TNS).encode(),
                               'text/xml'),
            'invalid_arg': ('POST', '/', '', ('<tns:m xmlns:tns="%s"><tns:i>x</tns:i></tns:m>' % TNS).encode(), 'text/xml'),
        }
    if family == 'yaml':
        return {
            'valid': ('POST', '/', '', b'm:\n  i: 5\n', 'text/yaml'),
            'malformed': ('POST', '/', '', b'm: [1, 2\n', 'text/yaml'),
            'unknown_method': ('POST', '/', '', b'nope:\n  i: 5\n', 'text/yaml'),
            'invalid_arg': ('POST', '/', '', b'm:\n  i: x\n', 'text/yaml'),
            'scalar_body': ('POST', '/', '', b'3\n', 'text/yaml'),
            'empty_body': ('POST', '/', '', b'', 'text/yaml'),
            'list_body': ('POST', '/', '', b'- 1\n- 2\n', 'text/yaml'),
        }
    if family == 'msgpack':
        import msgpack
        return {
            'valid': ('POST', '/', '', msgpack.packb({b'm': {b'i': 5}}), 'application/x-msgpack'),
            'malformed': ('POST', '/', '', msgpack.packb({b'm': {b'i': 5}})[:-2], 'application/x-msgpack'),
            'unknown_method': ('POST', '/', '', msgpack.packb({b'nope': {b'i': 5}}), 'application/x-msgpack'),
            'invalid_arg': ('POST', '/', '', msgpack.packb({b'm': {b'i': b'x'}}), 'application/x-msgpack'),
            'scalar_body': ('POST', '/', '', msgpack.packb(3), 'application/x-msgpack'),
            'empty_body': ('POST', '/', '', b'', 'application/x-msgpack'),
            'list_body': ('POST', '/', '', msgpack.packb([1, 2]), 'application/x-msgpack'),
        }
    if family == 'msgpackrpc':
        import msgpack
        R = lambda *parts: msgpack.packb(list(parts))
        return {
            'valid': ('POST', '/', '', R(0, 1, 'm', [5]), 'application/x-msgpack'),
            'malformed': ('POST', '/', '', R(0, 1, 'm', [5])[:-1], 'application/x-msgpack'),
            'unknown_method': ('POST', '/', '', R(0, 1, 'nope', [5]), 'application/x-msgpack'),
            'invalid_arg': ('POST', '/', '', R(0, 1, 'm', ['x']), 'application/x-msgpack'),
            'scalar_body': ('POST', '/', '', msgpack.packb(3), 'application/x-msgpack'),
            'empty_body': ('POST', '/', '', b'', 'application/x-msgpack'),
            'short_envelope': ('POST', '/', '', R(0, 1), 'application/x-msgpack'),
            'unknown_message_type': ('POST', '/', '', R(9, 1, 'm', [5]), 'application/x-msgpack'),
            'map_body': ('POST', '/', '', msgpack.packb({b'm': {b'i': 5}}), 'application/x-msgpack'),
        }
    raise KeyError(family)


def protocols(family, validator='soft', **kw):
    """kw: protocol options (complex_as, ignore_wrappers, polymorphic ...) for the dict-document families."""
    if kw and family in ('json', 'yaml', 'msgpack'):
        P = {'json': JsonDocument, 'yaml': YamlDocument, 'msgpack': MessagePackDocument}[family]
        return P(validator=validator, **kw), P(**kw)
    if family == 'http':
        return HttpRpc(validator=validator), JsonDocument()
    if family == 'httpout':            # HttpRpc as the output protocol too: results and faults as plain text / bytes
        return HttpRpc(validator=validator), HttpRpc()
    if family == 'json':
        return JsonDocument(validator=validator), JsonDocument()
    if family == 'soap11':
        return Soap11(validator=validator), Soap11()
    if family == 'soap12':
        return Soap12(validator=validator), Soap12()
    if family == 'xml':
        return XmlDocument(validator=validator), XmlDocument()
    if family == 'yaml':
        return YamlDocument(validator=validator), YamlDocument()
    if family == 'msgpack':
        return MessagePackDocument(validator=validator), MessagePackDocument()
    if family == 'msgpackrpc':
        from spyne.protocol.msgpack import MessagePackRpc
        return MessagePackRpc(validator=validator), MessagePackRpc()
    raise KeyError(family)


FAMILIES_ALL = ['http', 'json', 'soap11', 'soap12', 'xml', 'yaml', 'msgpack', 'msgpackrpc']
USER_OUTCOMES = ['return', 'client_fault', 'server_fault', 'non_fault', 'non_fault_noargs', 'non_fault_2args',
                 'non_fault_typeerror', 'non_fault_valueerror', 'non_fault_keyerror', 'non_fault_typeerror_subclass',
                 'non_fault_unicode_error']


class Harness(object):
    def __init__(self, c, family, validator='soft', failing=None, chunked=True, user_outcomes=USER_OUTCOMES,
                 content_length='exact', prot_kwargs=None, evmgr_kw='_event_managers'):
        self.c = c
        self.family = family
        self.failing = failing      # None or (manager label, event name, 'fault'|'other')
        self.user_outcomes = user_outcomes
        self.user_calls = 0
        self.user_outcome = None
        self.the_fault = None
        self.the_exception = None
        self.content_length = content_length
        h = self
        self.mgr_method = EventManager(None)
        self.mgr_method2 = EventManager(None)      # a second manager on the same method: sees what the first sees

        # the four spellings @rpc accepts for method-level event managers (the singular ones take one manager)
        self.method_managers = 2 if evmgr_kw.endswith('s') else 1
        evkw = {evmgr_kw: [self.mgr_method, self.mgr_method2] if self.method_managers == 2 else self.mgr_method}

        class Svc(ServiceBase):
            @rpc(Integer, _returns=Integer, **evkw)
            def m(ctx, i):
                return h.user(ctx, i)

            @rpc(Integer, _returns=Integer)
            def other(ctx, i):
                h.c.emit('user_fn_other')
                return i

        class SubSvc(Svc):
            pass

        self.Svc = Svc
        inp, outp = protocols(family, validator, **(prot_kwargs or {}))
        self.app = Application([Svc], TNS, name='VApp', in_protocol=inp, out_protocol=outp)
        self.wsgi = WsgiApplication(self.app, chunked=chunked)
        self.managers = [('app', self.app.event_manager, METHOD_EVENTS),
                         ('service', Svc.event_manager, METHOD_EVENTS),
                         ('method', self.mgr_method, METHOD_EVENTS),
                         ] + ([('method2', self.mgr_method2, METHOD_EVENTS)] if self.method_managers == 2 else []) + [
                         ('transport', self.wsgi.event_manager, WSGI_EVENTS),
                         ('inprot', inp.event_manager, PROT_EVENTS),
                         ('outprot', outp.event_manager, PROT_EVENTS)]
        for label, mgr, events in self.managers:
            for ev in events:
                mgr.add_listener(ev, self._listener(label, ev))

    def _listener(self, label, ev):
        h = self

        @accepts_sym
        def listener(ctx, *a, **k):
            h.c.emit('event', label, ev)
            if h.failing is not None and h.failing[0] == label and h.failing[1] == ev:
                if h.failing[2] == 'fault':
                    h.the_fault = Fault('Client.Listener', 'listener says no')
                    raise h.the_fault
                h.the_exception = RuntimeError(SECRET)
                raise h.the_exception
        listener.__name__ = 'listener_%s_%s' % (label, ev)
        return listener

    def user(self, ctx, i):
        c = self.c
        self.user_calls += 1
        c.emit('user_fn', i)
        k = c.choose(self.user_outcomes, 'user_outcome')
        self.user_outcome = k
        if getattr(self, 'switch_out', None):
            # the method picks the output protocol of this request (MethodContext.out_protocol is settable)
            ctx.out_protocol = protocols(self.switch_out, None)[1]
        if k == 'return':
            return 7
        if k == 'client_fault':
            code, message = getattr(self, 'fault_spec', None) or ('Client.Custom.Sub', u'client fault \u00e9')
            cls = getattr(self, 'fault_class', None) or Fault
            self.the_fault = cls(code, message, detail={'k': {'n': 'v', 'zero': 0, 'no': False}, 'one': 1})
            raise self.the_fault
        if k == 'server_fault':
            # an empty (falsy) detail is still a detail: set by the C09 obligations only
            self.the_fault = Fault('Server.Custom', 'server fault', detail=getattr(self, 'server_fault_detail', None))
            raise self.the_fault
        if k in ('redirect_302', 'redirect_301', 'redirect_303'):
            from spyne.server.http import HttpRedirect
            from spyne.const import http as H
            raise HttpRedirect(ctx, 'http://elsewhere.example/path?x=1&y=2', code={
                'redirect_302': H.HTTP_302, 'redirect_301': H.HTTP_301, 'redirect_303': H.HTTP_303}[k])
        if k == 'non_fault_typeerror':
            self.the_exception = TypeError("unsupported operand " + SECRET)
        elif k == 'non_fault_valueerror':
            self.the_exception = ValueError(SECRET)
        elif k == 'non_fault_keyerror':
            self.the_exception = KeyError(SECRET)
        elif k == 'non_fault_typeerror_subclass':
            self.the_exception = type('AppTypeError', (TypeError,), {})(SECRET)
        elif k == 'non_fault_unicode_error':
            self.the_exception = UnicodeDecodeError('utf8', SECRET.encode(), 0, 1, 'bad ' + SECRET)
        elif k == 'non_fault_noargs':
            self.the_exception = AssertionError()
        elif k == 'non_fault_2args':
            self.the_exception = OSError(2, SECRET)
        else:
            self.the_exception = RuntimeError(SECRET)
        raise self.the_exception

    def env(self, kind):
        req = requests_for(self.family)[kind]
        method, path, qs, body, ctype = req[:5]
        extra = req[5] if len(req) > 5 else {}
        e = {'REQUEST_METHOD': method, 'PATH_INFO': path, 'QUERY_STRING': qs, 'SERVER_NAME': 'h',
             'SERVER_PORT': '80', 'wsgi.url_scheme': 'http', 'wsgi.input': io.BytesIO(body),
             'CONTENT_TYPE': ctype}
        if self.content_length == 'exact':
            e['CONTENT_LENGTH'] = str(len(body))
        elif self.content_length == 'empty':
            e['CONTENT_LENGTH'] = ''
        e.update(extra)
        return e

    def run_serverbase(self, kind):
        """The same request through a plain ServerBase, driven the way the message transports of the package drive it
        (generate_contexts -> get_in_object -> get_out_object -> get_out_string -> close).  Returns an Outcome: 'return'
        with the response bytes, or the first exception that escaped one of the real calls.  Not for HttpRpc."""
        from spyne.server import ServerBase
        from pyvc.oblig import Outcome
        c = self.c
        req = requests_for(self.family)[kind]
        body = req[3]
        server = ServerBase(self.app)
        self.server = server
        initial = MethodContext(server, MethodContext.SERVER)
        initial.in_string = [body]
        o = c.run(server.generate_contexts, initial, 'utf8')
        c.emit('generate_contexts_done', o.kind)
        if not o.returned:
            return o
        p_ctx = o.value[0]
        self.p_ctx = p_ctx
        if p_ctx.in_error is None:
            o = c.run(server.get_in_object, p_ctx)
            if not o.returned:
                return o
        if p_ctx.in_error is None:
            o = c.run(server.get_out_object, p_ctx)
            if not o.returned:
                return o
        o = c.run(server.get_out_string, p_ctx)
        if not o.returned:
            return o
        chunks = []
        o = c.run(lambda: chunks.extend(list(p_ctx.out_string)))
        if not o.returned:
            return o
        for x in chunks:
            c.emit('chunk', x)
        o = c.run(p_ctx.close)
        if not o.returned:
            return o
        return Outcome('return', value=b''.join(x for x in chunks if isinstance(x, bytes)))

    def run_nullserver(self, kind, ostr=False, keyword=False):
        """The call through the in-process NullServer transport (kind: 'valid' | 'unknown_method').  Returns the Outcome
        of the direct call."""
        from spyne.server.null import NullServer
        c = self.c
        server = NullServer(self.app, ostr=ostr)
        self.server = server
        name = 'm' if kind == 'valid' else 'nope'
        fc = getattr(server.service, name)
        out = c.run(fc, i=5) if keyword else c.run(fc, 5)
        c.emit('callable_returned', out.kind)
        return out

    def run_wsgi(self, kind, abort_after=None):
        """One request; returns the Outcome of the WSGI callable.  Trace: start_response, chunk, ..."""
        c = self.c
        h = self

        @accepts_sym
        def start_response(status, headers, exc_info=None):
            c.emit('start_response', status, list(headers))

            def write(data):
                c.emit('write', data)
            return write

        env = self.env(kind)
        out = c.run(self.wsgi, env, start_response)
        c.emit('callable_returned', out.kind)
        if out.returned:
            it = out.value
            n = 0
            o = c.run(iter, it)
            if o.returned:
                iterator = o.value
                while True:
                    o = c.run(next, iterator)
                    if o.raised:
                        if isinstance(o.exc, StopIteration):
                            o = None
                        break
                    c.emit('chunk', o.value)
                    n += 1
                    if abort_after is not None and n >= abort_after:
                        o = None
                        break
            # PEP 3333: the server calls close() on the iterable whether the iteration completed, was abandoned or
            # failed ("try: ... finally: if hasattr(result, 'close'): result.close()")
            cl = getattr(it, 'close', None)
            if cl is not None:
                c.emit('iter_close')
                o2 = c.run(cl)
                if o is None and not o2.returned:
                    o = o2
            c.emit('body_done', 'return' if o is None else 'raise')
            self.body_outcome = o
        return out
