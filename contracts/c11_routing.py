"""C11: a request runs exactly the method it names."""
import itertools

import z3

from pyvc.oblig import obligation
from pyvc.sym import And, Or, Not, Implies, Iff, If, StartsWith, SBool, SStr

from spyne import Application, ServiceBase, rpc, Fault
from spyne.auxproc.sync import SyncAuxProc
from spyne.context import MethodContext
from spyne.error import ResourceNotFoundError
from spyne.interface import Interface
from spyne.model.primitive import Integer, Unicode
from spyne.protocol import ProtocolBase
from spyne.protocol.json import JsonDocument
from spyne.protocol.http import HttpRpc
from spyne.server import ServerBase

from .pipeline import Harness, requests_for, TNS, soap_env, SOAP11_NS

NAMES = ['get', 'Get', 'get_all', 'ge', 'xget']


def _services(with_aux=True):
    calls = []

    class S1(ServiceBase):
        @rpc(Integer, _returns=Integer)
        def get(ctx, i):
            calls.append('S1.get')
            return 1

        @rpc(Integer, _returns=Integer)
        def get_all(ctx, i):
            calls.append('S1.get_all')
            return 2

    class S2(ServiceBase):
        @rpc(Integer, _returns=Integer)
        def Get(ctx, i):
            calls.append('S2.Get')
            return 3

        @rpc(Integer, _returns=Integer)
        def ge(ctx, i):
            calls.append('S2.ge')
            return 4

    class S3(ServiceBase):
        @rpc(Integer, _returns=Integer)
        def xget(ctx, i):
            calls.append('S3.xget')
            return 5

    class Aux(ServiceBase):
        __aux__ = SyncAuxProc()

        @rpc(Integer, _returns=Integer)
        def get(ctx, i):
            calls.append('Aux.get')
            return 6
    svcs = [S1, S2, S3] + ([Aux] if with_aux else [])
    return svcs, calls


class _Ctx(object):
    def __init__(self, name):
        self.method_request_string = name


@obligation('C11.lookup.get_call_handles', targets=['spyne.protocol._base:ProtocolBase.get_call_handles'],
            desc="for an arbitrary (symbolic) requested name: the handles returned are exactly those registered under "
                 "the name qualified with the target namespace -- exact string equality, so a name differing by case, "
                 "prefix, suffix or namespace matches nothing",
            assumptions=["z3 sequence theory for '{%s}%s' % (tns, name), startswith and dict lookup by equality",
                         "a concrete routing table with adversarially similar names (get/Get/get_all/ge/xget)"])
def lookup(c):
    svcs, calls = _services()
    app = Application(svcs, TNS, in_protocol=ProtocolBase(), out_protocol=ProtocolBase())
    prot = app.in_protocol
    name = c.str('requested_name')
    c.assume(name != '') if not c.concrete else None
    out = c.run(prot.get_call_handles, _Ctx(name))
    c.check('returns', out.returned, detail=repr(out))
    if not out.returned:
        return
    table = app.interface.service_method_map
    full = If_str(c, StartsWith(name, '{'), name, '{%s}' % TNS, name)
    res = out.value
    c.check('result_is_a_registered_entry_or_empty', res == [] or any(res is v for v in table.values()))
    for k, v in table.items():
        c.check('entry[%s]_iff_name_equal' % k, Iff(full_eq(c, full, k), res is v))
    c.check('empty_iff_no_key_equal', Iff(And(*[Not(full_eq(c, full, k)) for k in table]), res == []))


def If_str(c, cond, a, prefix, b):
    """full(name) = name if it starts with '{' else '{tns}' + name  -- the spec function."""
    if c.concrete:
        return a if cond else prefix + b
    return SStr(z3.If(cond.t, a.t, z3.Concat(z3.StringVal(prefix), b.t)))


def full_eq(c, full, k):
    return full == k


@obligation('C11.contexts.generate_method_contexts', targets=['spyne.protocol._base:ProtocolBase.generate_method_contexts'],
            desc="one context per registered handle, primary first, in table order; ResourceNotFoundError iff none")
def contexts(c):
    svcs, calls = _services()
    app = Application(svcs, TNS, in_protocol=ProtocolBase(), out_protocol=ProtocolBase())
    name = c.choose(['get', '{%s}get' % TNS, 'Get', 'nope', 'GET', 'get ', '{other}get', 'ge', 'get_al'], 'name')
    ctx = MethodContext(ServerBase(app), MethodContext.SERVER)
    ctx.method_request_string = name
    out = c.run(app.in_protocol.generate_method_contexts, ctx)
    full = name if name.startswith('{') else '{%s}%s' % (TNS, name)
    want = app.interface.service_method_map.get(full, [])
    if not want:
        c.check('not_found_fault', out.raised_a(ResourceNotFoundError), detail=repr(out))
        if out.raised:
            c.check('not_found_is_client_fault', isinstance(out.exc, Fault) and out.exc.faultcode.startswith('Client'))
        return
    c.check('returns', out.returned, detail=repr(out))
    if out.returned:
        got = [x.descriptor for x in out.value]
        c.check('one_context_per_handle_in_order', len(got) == len(want) and all(a is b for a, b in zip(got, want)))
        c.check('primary_first', got[0].aux is None)
        c.check('contexts_are_copies', all(x is not ctx for x in out.value))


def _desc(svc, name):
    return svc.public_methods[name]


@obligation('C11.table.process_method', targets=['spyne.interface._base:Interface.process_method'],
            desc="per-operation contract of the routing-table insertion: for every abstract pre-state of the entry "
                 "(absent, empty, [primary], [aux], [aux, aux], [primary, aux]) and every kind of method added "
                 "(primary, auxiliary): afterwards the entry has at most one primary and it is first; auxiliaries keep "
                 "their order; a second primary is rejected with ValueError",
                 assumptions=["the body reads only len(val) == 0 and val[0].aux of the entry: tails of 0..2 auxiliary "
                              "descriptors are representative"])
def process_method(c):
    class P1(ServiceBase):
        @rpc(Integer, _returns=Integer)
        def op(ctx, i):
            return 1

    class P2(ServiceBase):
        @rpc(Integer, _returns=Integer)
        def op(ctx, i):
            return 2

    class A1(ServiceBase):
        __aux__ = SyncAuxProc()

        @rpc(Integer, _returns=Integer)
        def op(ctx, i):
            return 3

    class A2(ServiceBase):
        __aux__ = SyncAuxProc()

        @rpc(Integer, _returns=Integer)
        def op(ctx, i):
            return 4

    class A3(ServiceBase):
        __aux__ = SyncAuxProc()

        @rpc(Integer, _returns=Integer)
        def op(ctx, i):
            return 5

    class Other(ServiceBase):
        @rpc(Integer, _returns=Integer)
        def unrelated(ctx, i):
            return 0
    app = Application([Other], TNS, in_protocol=ProtocolBase(), out_protocol=ProtocolBase())
    iface = app.interface
    for s in (P1, P2, A1, A2, A3):
        for m in s.public_methods.values():
            if m.aux is None:
                m.aux = s.__aux__
    p1, p2, a1, a2, a3 = [_desc(s, 'op') for s in (P1, P2, A1, A2, A3)]
    pre_name = c.choose(['absent', 'empty', 'primary', 'aux', 'aux_aux', 'primary_aux', 'primary_aux_aux'], 'pre_state')
    pre = {'absent': None, 'empty': [], 'primary': [p1], 'aux': [a1], 'aux_aux': [a1, a2], 'primary_aux': [p1, a1],
           'primary_aux_aux': [p1, a1, a2]}[pre_name]
    key = '{%s}op' % TNS
    if pre is not None:
        iface.service_method_map[key] = list(pre)
    add_kind = c.choose(['primary', 'aux'], 'added_method')
    svc, new = (P2, p2) if add_kind == 'primary' else (A3, a3)
    before_other = dict((k, list(v)) for k, v in iface.service_method_map.items() if k != key)
    out = c.run(iface.process_method, svc, new)
    pre_l = pre or []
    had_primary = any(d.aux is None for d in pre_l)
    if add_kind == 'primary' and had_primary:
        c.check('second_primary_rejected', out.raised_a(ValueError), detail=repr(out))
        c.check('rejected_entry_unchanged', iface.service_method_map.get(key) == pre_l)
        return
    c.check('returns', out.returned, detail=repr(out))
    if not out.returned:
        return
    val = iface.service_method_map.get(key)
    prim = [d for d in val if d.aux is None]
    c.check('at_most_one_primary', len(prim) <= 1)
    c.check('primary_is_first', not prim or val[0] is prim[0], detail=[d.aux is None for d in val])
    c.check('new_method_registered_once', sum(1 for d in val if d is new) == 1)
    c.check('nothing_lost', all(any(d is e for e in val) for d in pre_l) and len(val) == len(pre_l) + 1)
    old_aux = [d for d in pre_l if d.aux is not None]
    c.check('aux_order_kept', [d for d in val if d.aux is not None and d is not new] == old_aux)
    c.check('other_entries_untouched', all(iface.service_method_map.get(k) == v for k, v in before_other.items()))


@obligation('C11.table.order_independent', targets=['spyne.interface._base:Interface.populate_interface',
                                                     'spyne.application:Application.check_unique_method_keys'],
            desc="which function answers to a name does not depend on the order in which services were listed: for every "
                 "permutation of a service list with adversarially similar names and an auxiliary twin, the primary "
                 "descriptor of every key is the same function; two primaries with one name are rejected at construction "
                 "in every order",
            bounded="all 24 permutations of 4 services (+ all 120 of 5 with a conflicting one)",
            assumptions=[])
def order_independent(c):
    svcs, calls = _services()
    conflict = c.choose(2, 'with_conflicting_service')
    if conflict:
        class S4(ServiceBase):
            @rpc(Integer, _returns=Integer)
            def get_all(ctx, i):
                return 9
        svcs = svcs + [S4]
    perms = list(itertools.permutations(range(len(svcs))))
    perm = c.choose(perms, 'permutation')
    out = c.run(Application, [svcs[i] for i in perm], TNS, in_protocol=ProtocolBase(), out_protocol=ProtocolBase())
    if conflict:
        c.check('conflict_rejected_at_construction', out.raised and not isinstance(out.exc, TypeError), detail=repr(out))
        return
    c.check('constructed', out.returned, detail=repr(out))
    if not out.returned:
        return
    table = out.value.interface.service_method_map
    want = {'{%s}%s' % (TNS, n): n for n in NAMES}
    c.check('keys', set(table) == set(want), detail=sorted(table))
    for k, n in want.items():
        v = table.get(k, [])
        c.check('primary[%s]' % n, bool(v) and v[0].aux is None and v[0].name == n and
                v[0].function.__qualname__.endswith('.' + n), detail=[(d.name, d.aux is None) for d in v])
    g = table.get('{%s}get' % TNS, [])
    c.check('aux_twin_follows_primary', len(g) == 2 and g[1].aux is not None)


NEAR_MISS = ['M', 'mm', 'xm', 'm2', '', 'other_']


def _mk_pipeline(family):
    @obligation('C11.pipeline.%s' % family, targets=['spyne.server.wsgi:WsgiApplication.handle_rpc'],
                desc="through the real pipeline: the named method runs exactly once and no other user function runs; "
                     "unregistered near-miss names (case, prefix, suffix, other namespace) run nothing and yield a "
                     "not-found client fault")
    def ob(c):
        names = ['m', 'other'] + NEAR_MISS + (['{urn:other}m'] if family in ('soap11', 'xml', 'json', 'yaml', 'msgpack', 'msgpackrpc') else [])
        if family in ('json', 'yaml', 'msgpack'):
            names += ['{%s}m' % TNS + 'x', '{}m', '}m', '{urn:other}other']
        if family == 'soap11':
            names += ['__other_quoted_in_a_header__', '__unregistered_body_other_in_header__']
        if family in ('soap11', 'xml'):
            # the ways XML can spell a qualified name: the other namespace as the default namespace and (positive case)
            # the target namespace as the default namespace.  An element in no namespace at all is not in the universe:
            # the property speaks of names "qualified with a different namespace", and Spyne reads an unqualified name
            # as a name of the target namespace in every protocol (generate_method_contexts)
            names += ['{urn:other}m/as_default_namespace', '__tns_as_default_namespace__']
        if family == 'msgpackrpc':
            # the name as a byte string that is not text: a registered name with stray bytes before, inside or after it
            names += [b'm\xff', b'\xffm', b'm\xc3', b'ot\xfeher', b'\xfe']
        name = c.choose(names, 'requested_name')
        h = Harness(c, family, user_outcomes=['return'])
        method, path, qs, body, ctype = requests_for(family)['valid'][:5]
        if family == 'http':
            path = '/' + name
        elif family == 'json':
            import json
            body = json.dumps({name: {'i': 5}}).encode()
        elif family == 'yaml':
            import yaml
            body = yaml.safe_dump({name: {'i': 5}}).encode()
        elif family == 'msgpack':
            import msgpack
            body = msgpack.packb({name.encode('utf8'): {b'i': 5}})
        elif family == 'msgpackrpc':
            import msgpack
            body = msgpack.packb([0, 1, name, [5]])
        elif family == 'soap11' and name.startswith('__') and name != '__tns_as_default_namespace__':
            # a header block that quotes another message (with a soap Body of its own): only the envelope's own Body
            # names the method
            real = '<tns:m><tns:i>5</tns:i></tns:m>' if name == '__other_quoted_in_a_header__' else '<tns:Nope><tns:i>5</tns:i></tns:Nope>'
            body = ('<e:Envelope xmlns:e="%s" xmlns:tns="%s"><e:Header><tns:Relayed><e:Body><tns:other><tns:i>7</tns:i></tns:other>'
                    '</e:Body></tns:Relayed></e:Header><e:Body>%s</e:Body></e:Envelope>' % (SOAP11_NS, TNS, real)).encode()
        elif family in ('soap11', 'xml'):
            if name == '{urn:other}m/as_default_namespace':
                tag = '<m xmlns="urn:other"><i>5</i></m>'
            elif name == '{}m/no_namespace':
                tag = '<m xmlns=""><i>5</i></m>'
            elif name == '__tns_as_default_namespace__':
                tag = '<m xmlns="%s"><i>5</i></m>' % TNS
            elif name.startswith('{'):
                tag = '<o:m xmlns:o="urn:other"><o:i>5</o:i></o:m>'
            elif name == '':
                tag = '<tns:_/>'
            else:
                tag = '<tns:%s><tns:i>5</tns:i></tns:%s>' % (name, name)
            body = soap_env(SOAP11_NS, tag) if family == 'soap11' else (
                tag.replace('>', ' xmlns:tns="%s">' % TNS, 1).encode())
        env = h.env('valid')
        import io
        env.update(PATH_INFO=path, CONTENT_LENGTH=str(len(body)))
        env['wsgi.input'] = io.BytesIO(body)
        h.env = lambda kind: env
        out = h.run_wsgi('valid')
        c.check('callable_returns', out.returned, detail=repr(out))
        if not out.returned:
            return
        ran_m = sum(1 for t in c.trace if t[0] == 'user_fn')
        ran_other = sum(1 for t in c.trace if t[0] == 'user_fn_other')
        status = [t for t in c.trace if t[0] == 'start_response'][0][1]
        if name in ('m', '__other_quoted_in_a_header__', '__tns_as_default_namespace__'):
            c.check('named_method_runs_once', ran_m == 1 and ran_other == 0, detail=(ran_m, ran_other))
        elif name == 'other':
            c.check('named_method_runs_once', ran_m == 0 and ran_other == 1, detail=(ran_m, ran_other))
        else:
            c.check('near_miss_runs_nothing', ran_m == 0 and ran_other == 0, detail=(name, ran_m, ran_other))
            body_out = b''.join(t[1] for t in c.trace if t[0] == 'chunk' and isinstance(t[1], bytes))
            c.check('near_miss_client_fault', (b'Client' in body_out) and not status.startswith('200'),
                    detail=(status, body_out[:200]))
            if not family.startswith('soap'):
                c.check('near_miss_4xx', status[:1] == '4', detail=status)
    return ob


for _f in ('http', 'json', 'yaml', 'msgpack', 'msgpackrpc', 'soap11', 'xml'):
    _mk_pipeline(_f)


# ------------------------------------------------------------------------------------------ URL patterns

def _pattern_app():
    from spyne.protocol.http import HttpRpc, HttpPattern
    from spyne.protocol.json import JsonDocument
    from spyne.server.wsgi import WsgiApplication
    ran = []

    class PSvc(ServiceBase):
        @rpc(Integer, _returns=Integer, _patterns=[HttpPattern('/v1/close', verb='GET')])
        def close(ctx, i):
            ran.append('close')
            return 1

        @rpc(Integer, _returns=Integer, _patterns=[HttpPattern('/v1/closed/down')])
        def closed_down(ctx, i):
            ran.append('closed_down')
            return 2

        @rpc(Integer, _returns=Integer, _patterns=[HttpPattern('/v1/item/<i>')])
        def item(ctx, i):
            ran.append('item')
            return 3
    app = Application([PSvc], TNS, name='PApp', in_protocol=HttpRpc(), out_protocol=JsonDocument())
    return WsgiApplication(app), ran


@obligation('C11.patterns.match_pattern', targets=['spyne.server.http:HttpBase.match_pattern',
                                                   'spyne.protocol.http:HttpPattern._compile_url_pattern'],
            desc="for an arbitrary (symbolic) request path and verb: match_pattern selects a method registered with a literal "
                 "address pattern iff the path equals that address exactly (and the verb equals the registered verb) -- no "
                 "prefix, no suffix (not even a trailing newline, which '$' would let through), no other case; the regex "
                 "semantics of re.match / span are the assumed contract of pyvc/regexmodel.py",
            assumptions=["re.match(p, s) for a literal p succeeds iff s starts with the literal, span = (0, len(literal)); "
                         "'$' also matches before a final newline (re documentation)"])
def match_pattern(c):
    from spyne.context import MethodContext
    wsgi, ran = _pattern_app()
    path = c.str('path')
    verb = c.choose(['GET', 'POST', c.str('verb')], 'verb_kind')
    ctx = MethodContext(wsgi, MethodContext.SERVER)
    # the placeholder pattern ('/v1/item/<i>') has a group: its match is decided on concrete probes below
    pats = [p for p in wsgi._http_patterns if '<' not in p.address]
    saved = wsgi._http_patterns
    wsgi._http_patterns = pats
    try:
        out = c.run(wsgi.match_pattern, ctx, verb, path, 'h')
    finally:
        wsgi._http_patterns = saved
    c.check('returns', out.returned, detail=repr(out))
    if not out.returned:
        return
    sel = ctx.method_request_string
    # match_pattern supplies a missing leading slash (PATH_INFO of a WSGI server always has one)
    at = lambda addr: Or(path == addr, path == addr[1:])
    is_close = And(at('/v1/close'), verb == 'GET') if not isinstance(verb, str) else (at('/v1/close') if verb == 'GET' else False)
    is_down = at('/v1/closed/down')
    if sel is None:
        c.check('unselected_only_if_no_address_equals_the_path', Not(Or(is_close, is_down)), detail=repr(sel))
    elif sel.split('}')[-1] == 'close':
        c.check('close_selected_only_for_its_exact_address_and_verb', is_close, detail=repr(sel))
    elif sel.split('}')[-1] == 'closed_down':
        c.check('closed_down_selected_only_for_its_exact_address', is_down, detail=repr(sel))
    else:
        c.check('selected_method_is_registered', False, detail=repr(sel))


@obligation('C11.patterns.pipeline', targets=['spyne.server.http:HttpBase.match_pattern', 'spyne.protocol.http:HttpRpc.decompose_incoming_envelope'],
            bounded="24 request paths around three registered address patterns (exact, prefix, suffix, case, extra segment, "
                    "trailing slash / space / newline / CRLF, placeholder with and without a value, other verb)",
            desc="through the real pipeline: only the exact registered address (with a placeholder: one path segment) runs its "
                 "method, exactly once; every near miss runs nothing and is answered with a 4xx client fault")
def patterns_pipeline(c):
    import io
    # expected: the method whose address pattern equals the path (and verb), else -- HttpRpc's plain URL-path naming --
    # the method named by the last path segment, else nothing
    PROBES = [('/v1/close', 'GET', 'close'), ('/v1/close', 'DELETE', 'close'), ('/v1/clos', 'GET', None), ('/v1/closed', 'GET', None),
              ('/v1/close/', 'GET', None), ('/v1/close\n', 'GET', None), ('/v1/close\r\n', 'GET', None), ('/v1/close ', 'GET', None),
              ('/v1/Close', 'GET', None), ('/V1/close', 'GET', 'close'), ('/x/v1/close', 'GET', 'close'), ('/v1/close/x', 'GET', None),
              ('/v1/closed/down', 'GET', 'closed_down'), ('/v1/closed/down', 'DELETE', 'closed_down'),
              ('/v1/closed/down\n', 'GET', None), ('/v1/closed/dow', 'GET', None), ('/v1/closed/closed_down', 'GET', 'closed_down'),
              ('/v1/item/7', 'GET', 'item'), ('/v1/item/', 'GET', 'item?'), ('/v1/item/7/8', 'GET', None),
              ('/v1/item/7\n', 'GET', 'item?'), ('/v1/item', 'GET', 'item?'), ('/v1/items/7', 'GET', None), ('/v1/Item', 'GET', None)]
    path, verb, want = c.choose(PROBES, 'probe')
    wsgi, ran = _pattern_app()
    env = {'REQUEST_METHOD': verb, 'PATH_INFO': path, 'QUERY_STRING': 'i=5' if '/item' not in path else '', 'SERVER_NAME': 'h',
           'SERVER_PORT': '80', 'HTTP_HOST': 'h', 'wsgi.url_scheme': 'http', 'wsgi.input': io.BytesIO(b''),
           'CONTENT_TYPE': 'text/plain', 'CONTENT_LENGTH': '0'}
    seen = []

    def sr(status, headers, exc_info=None):
        seen.append(status)
    sr._pyvc_native = True
    out = c.run(wsgi, env, sr)
    c.check('callable_returns', out.returned, detail=repr(out))
    if not out.returned:
        return
    chunks = []
    c.run(lambda: chunks.extend(list(out.value)))
    if want == 'item?':
        # a placeholder may be empty or hold any text without '/': the method may run (with that text as argument) or the
        # argument may be rejected -- but no other method runs
        c.check('only_the_addressed_method', set(ran) <= {'item'}, detail=(path, ran))
    elif want is None:
        c.check('near_miss_runs_nothing', ran == [], detail=(path, verb, ran))
        c.check('near_miss_4xx', bool(seen) and seen[0][:1] == '4', detail=(path, seen, b''.join(chunks)[:200]))
    else:
        c.check('addressed_method_runs_once', ran == [want], detail=(path, verb, ran, seen, b''.join(chunks)[:200]))


@obligation('C11.naming.dictdoc', targets=['spyne.protocol.dictdoc._base:DictDocument.gen_method_request_string'],
            desc="for an arbitrary (symbolic) single key of a dict-document request: the method request string is exactly "
                 "'{<target namespace>}<key>' -- the key is taken whole, so a key that carries a namespace of its own, a "
                 "prefix or a suffix can never be turned into a registered name")
def naming_dictdoc(c):
    from spyne.protocol.json import JsonDocument
    from spyne.context import MethodContext
    from spyne.server import ServerBase

    class NSvc(ServiceBase):
        @rpc(Integer, _returns=Integer)
        def m(ctx, i):
            return i
    prot = JsonDocument()
    app = Application([NSvc], TNS, name='NApp', in_protocol=prot, out_protocol=JsonDocument())
    ctx = MethodContext(ServerBase(app), MethodContext.SERVER)
    key = c.str('key')
    doc = {}
    if c.concrete:
        doc[key] = {'i': 5}
    else:
        from pyvc.models import sym_key_store
        sym_key_store(c.interp, doc, key, {'i': 5})
    ctx.in_body_doc = doc
    out = c.run(prot.gen_method_request_string, ctx)
    c.check('returns', out.returned, detail=repr(out))
    if out.returned:
        from pyvc.text import text_eq
        c.check('key_taken_whole_under_the_target_namespace', text_eq(out.value, '{%s}' % TNS + key), detail=repr(out.value))


@obligation('C11.table.same_named_services', targets=['spyne.application:Application.check_unique_method_keys',
                                                       'spyne.interface._base:Interface.process_method'],
            bounded="two distinct service classes whose (module, class name) are equal, different, or differ only in a "
                    "fragment (7 module pairs x 2 class-name pairs) x wrapped / bare methods sharing their message types x "
                    "both listing orders",
            desc="two different services that expose a method of the same name are rejected when the application is "
                 "constructed even when the classes themselves carry the same module and class name")
def same_named_services(c):
    from spyne.model.complex import ComplexModel

    class Msg(ComplexModel):
        __namespace__ = TNS
        v = Integer
    style = c.choose(['bare', 'wrapped'], 'body_style')
    ran = []

    # the two classes may carry any module and class names: the same ones, different ones, or names that differ only in a
    # fragment (private packages '_v1' / '_v2', a trailing underscore, '__main__' against a helper module)
    mod_a, mod_b = c.choose([('pkg.svc', 'pkg.svc'), ('pkg.svc', 'pkg.other'), ('pkg._v1.svc', 'pkg._v2.svc'),
                             ('__main__', '_helpers'), ('pkg.svc', 'pkg.svc_'), ('pkg.svc', 'pkg._impl.svc'),
                             ('a.b_c', 'a_b.c')], 'modules')
    cn_a, cn_b = c.choose([('Maker', 'Maker'), ('Maker', 'Other')], 'class_names')

    def factory(tag):
        if style == 'bare':
            @rpc(Msg, _returns=Msg, _body_style='bare')
            def act(ctx, m):
                ran.append(tag)
                return m
        else:
            @rpc(Integer, _returns=Integer)
            def act(ctx, i):
                ran.append(tag)
                return i
        return type(ServiceBase)(cn_a if tag == 'a' else cn_b, (ServiceBase,),
                                 {'__module__': mod_a if tag == 'a' else mod_b, 'act': act})
    A, B = factory('a'), factory('b')
    how = c.choose(['a_then_b', 'b_then_a'], 'services')
    svcs = {'a_then_b': [A, B], 'b_then_a': [B, A]}[how]
    out = c.run(Application, svcs, TNS, in_protocol=ProtocolBase(), out_protocol=ProtocolBase())
    c.check('conflict_rejected_at_construction', out.raised and not isinstance(out.exc, (TypeError, AttributeError)),
            detail=repr(out))


@obligation('C11.table.same_name_in_one_service', targets=['spyne.service:ServiceMeta.__init__',
                                                            'spyne.application:Application.check_unique_method_keys',
                                                            'spyne.interface._base:Interface.process_method'],
            bounded="two functions of one service class made to answer to one name through _in_message_name or "
                    "_operation_name (given to the second, to the first, or to both) x wrapped / bare",
            desc="two methods of the same service that would answer to the same name are rejected when the service class or "
                 "the application is constructed; neither silently replaces the other")
def same_name_in_one_service(c):
    from spyne.model.complex import ComplexModel

    class Msg2(ComplexModel):
        __namespace__ = TNS
        v = Integer
    how = c.choose(['_in_message_name', '_operation_name'], 'keyword')
    who = c.choose(['second_takes_the_name_of_the_first', 'first_takes_the_name_of_the_second', 'both_take_a_third_name'], 'who')
    style = c.choose(['wrapped', 'bare'], 'body_style')
    ran = []
    kw1, kw2 = {}, {}
    if who == 'second_takes_the_name_of_the_first':
        kw2[how] = 'alpha'
    elif who == 'first_takes_the_name_of_the_second':
        kw1[how] = 'beta'
    else:
        kw1[how] = kw2[how] = 'gamma'
    if style == 'bare':
        kw1['_body_style'] = kw2['_body_style'] = 'bare'
    T = Msg2 if style == 'bare' else Integer

    if style == 'bare' and how == '_in_message_name':
        c.end("the request message of a bare method is its argument type: _in_message_name does not name it")

    def alpha(ctx, a):
        ran.append('alpha')
        return a

    def beta(ctx, a):
        ran.append('beta')
        return a
    o1 = c.run(type(ServiceBase), 'OneSvc', (ServiceBase,), {'alpha': rpc(T, _returns=T, **kw1)(alpha),
                                                            'beta': rpc(T, _returns=T, **kw2)(beta)})
    if o1.raised:
        out = o1
    else:
        out = c.run(Application, [o1.value], TNS, in_protocol=ProtocolBase(), out_protocol=ProtocolBase())
    c.check('conflict_rejected_at_construction', out.raised and not isinstance(out.exc, (TypeError, AttributeError)),
            detail=repr(out))


@obligation('C11.table.interface_key', targets=['spyne.descriptor:MethodDescriptor.gen_interface_key'],
            desc="the interface key of a service method is exactly '<module>.<service name>.<method name>' for every module "
                 "name (symbolic text): two services in different modules never share a key, whatever the modules are called",
            assumptions=["'{}.{}.{}'.format on text is modelled as concatenation"])
def interface_key(c):
    from pyvc.text import text_eq, FmtStr
    mod = c.str('module_name')

    def act(ctx, i):
        return i
    Svc = type(ServiceBase)('KeySvc', (ServiceBase,), {'__module__': 'pkg.mod', 'act': rpc(Integer, _returns=Integer)(act)})
    d = Svc.public_methods['act']
    if c.concrete:
        Svc.__module__ = mod
    else:
        type.__setattr__(Svc, '__module__', mod)
    out = c.run(d.gen_interface_key, Svc)
    c.check('returns', out.returned, detail=repr(out))
    if out.returned:
        want_tail = '.KeySvc.act'
        if c.concrete:
            c.check('key_is_module_service_method', out.value == mod + want_tail, detail=repr(out.value))
        else:
            c.check('key_is_module_service_method', text_eq(out.value, mod + want_tail) if isinstance(out.value, (str, FmtStr)) else False,
                    detail=repr(out.value))
