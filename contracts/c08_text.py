"""C08: primitive text forms are lossless and lie in the XSD lexical space.

Symbolic (unbounded) obligations over token strings for the integer family, DateTime, Date, Time and
Duration: (a) enc(v) in Lex(xs:T) -- checked on the token structure against the XSD production;
(b) dec(enc(v)) == v -- the real decoder is run on the real encoder's token string;
(c) every literal of the stated sub-language of Lex(xs:T) is read as the value it denotes.
Decimal, Double, Boolean, Uuid, ByteArray and Unicode are bounded stand-ins over representative values
(their encoders end in stdlib calls whose inverses are assumed), labelled as such.
"""
import datetime as dt
import decimal
import re
import uuid

import pytz
import z3

from pyvc.oblig import obligation
from pyvc.sym import And, Or, Not, Implies, Iff, If, SInt, SBool
from pyvc.text import FmtStr, Lit, Dec
from pyvc import timemodel as tm
from pyvc.tokmatch import m_match_tokens
from spec import xsd

from spyne.model.binary import ByteArray
from spyne.model.primitive import (Integer, Decimal, Double, Boolean, DateTime, Date, Time, Duration, Uuid, Unicode,
                                   AnyUri)
from spyne.model.primitive import number
from spyne.protocol import ProtocolBase
from spyne.protocol.soap import Soap11
from spyne.protocol.xml import XmlDocument

PROTS = {'ProtocolBase': ProtocolBase, 'XmlDocument': XmlDocument, 'Soap11': Soap11}

ASSUME_TXT = ["str(n)/'%d' % n render n in canonical decimal and int() inverts them (CPython)",
              "datetime/date/time constructors accept exactly the documented ranges; isoformat() layout as documented",
              "leftmost-priority regex matching coincides with the deterministic token walk for the date/time/duration "
              "patterns (pyvc/tokmatch.py)"]

XSD_LEX = {
    'integer': r'[\-+]?[0-9]+',
    'dateTime': r'-?[0-9]{4,}-[0-9]{2}-[0-9]{2}T[0-9]{2}:[0-9]{2}:[0-9]{2}(\.[0-9]+)?(Z|[+\-][0-9]{2}:[0-9]{2})?',
    'date': r'-?[0-9]{4,}-[0-9]{2}-[0-9]{2}(Z|[+\-][0-9]{2}:[0-9]{2})?',
    'time': r'[0-9]{2}:[0-9]{2}:[0-9]{2}(\.[0-9]+)?(Z|[+\-][0-9]{2}:[0-9]{2})?',
    'duration': r'-?P([0-9]+Y)?([0-9]+M)?([0-9]+D)?(T([0-9]+H)?([0-9]+M)?([0-9]+(\.[0-9]+)?S)?)?',
    'decimal': r'[\-+]?([0-9]+(\.[0-9]*)?|\.[0-9]+)',
    'double': r'([\-+]?([0-9]+(\.[0-9]*)?|\.[0-9]+)([Ee][\-+]?[0-9]+)?|[\-+]?INF|NaN)',
    'boolean': r'true|false|1|0',
    'base64Binary': r'((([A-Za-z0-9+/] ?){4})*(([A-Za-z0-9+/] ?){3}[A-Za-z0-9+/]|([A-Za-z0-9+/] ?){2}[AEIMQUYcgkosw048] ?=|[A-Za-z0-9+/] ?[AQgw] ?= ?=))?',
    'hexBinary': r'([0-9a-fA-F]{2})*',
}


def in_lexical_space(c, xs_type, s):
    """The text is a literal of xs:<type>.  Token strings are matched structurally (symbolic mode)."""
    pat = re.compile(XSD_LEX[xs_type])
    if c.concrete:
        if isinstance(s, bytes):
            s = s.decode('ascii', 'replace')
        return isinstance(s, str) and pat.fullmatch(s) is not None
    if isinstance(s, str):
        return pat.fullmatch(s) is not None
    if isinstance(s, FmtStr):
        f = FmtStr(s.tokens, str)
        return m_match_tokens(c.interp, pat, f, full=True) is not None
    return False


# ------------------------------------------------------------------------------------------ integers

def _mk_int_roundtrip(pname, P, tname):
    lo, hi = xsd.FIXED_WIDTH[tname]

    @obligation('C08.integer.%s.%s.roundtrip' % (pname, tname),
                targets=['spyne.protocol._outbase:OutProtocolBase.integer_to_unicode',
                         'spyne.protocol._inbase:InProtocolBase.integer_from_bytes'],
                desc="for every integer of the type's value space: the text written is an xs:integer literal and reading "
                     "it back (length guard included) yields the same number", assumptions=ASSUME_TXT)
    def ob(c):
        T = getattr(number, tname)
        prot = P()
        v = c.int('value')
        c.assume(xsd.in_range(v, lo, hi))
        # unbounded types: literals longer than max_str_len (1024) characters are refused by design (DoS guard);
        # the obligation covers magnitudes below 10**40
        c.assume(And(v > -10 ** 40, v < 10 ** 40))
        out = c.run(prot.to_unicode, T, v)
        c.check('encodes', out.returned, detail=repr(out))
        if not out.returned:
            return
        s = out.value
        c.check('lexical_space', in_lexical_space(c, 'integer', s), detail=repr(s))
        back = c.run(prot.from_unicode, T, s)
        c.check('decodes', back.returned, detail=repr(back))
        if back.returned:
            c.check('roundtrip_equal', back.value == v, detail=repr(back.value))
    return ob


def _mk_int_lexical(tname):
    lo, hi = xsd.FIXED_WIDTH[tname]

    @obligation('C08.integer.%s.lexical_coverage' % tname,
                targets=['spyne.protocol._inbase:InProtocolBase.integer_from_bytes'],
                desc="every xs:integer literal (optional sign, leading zeros) that denotes a value of the type is read "
                     "as that value", assumptions=ASSUME_TXT)
    def ob(c):
        T = getattr(number, tname)
        prot = ProtocolBase()
        sign = c.choose(['', '+', '-'], 'sign')
        zeros = c.choose([0, 1, 3], 'leading_zeros')
        n = c.int('magnitude')
        c.assume(And(n >= 0, n < 10 ** 40))
        val = -n if sign == '-' else n
        c.assume(xsd.in_range(val, lo, hi))
        if c.concrete:
            s = sign + '0' * zeros + str(n)
        else:
            s = FmtStr([Lit(sign + '0' * zeros), Dec(n.t, 0, False)], str)
        msl = T.Attributes.max_str_len
        # known finding: the length guard counts characters, so a redundant '+', '-0' or leading zeros can push a
        # literal that denotes a representable value over the limit (the guard is deliberate protection against huge
        # literals); canonical literals never exceed it (C05)
        if msl is not None:
            if not c.concrete:
                from pyvc.lex import declen
                ln = SInt(declen(c.interp, n.t, 0))
            else:
                ln = len(str(n))
            c.known_region('C08-int-length-guard-redundant-chars', (ln + len(sign) + zeros) > msl)
        back = c.run(prot.from_unicode, T, s)
        c.check('decodes', back.returned, detail=repr(back))
        if back.returned:
            c.check('denoted_value', back.value == val, detail=repr(back.value))
    return ob


for _pn, _P in PROTS.items():
    for _t in ('Integer', 'Integer8', 'Integer32', 'Integer64', 'UnsignedInteger8', 'UnsignedInteger64', 'UnsignedInteger'):
        _mk_int_roundtrip(_pn, _P, _t)
for _t in ('Integer', 'Integer8', 'Integer16', 'Integer32', 'Integer64', 'UnsignedInteger8', 'UnsignedInteger16',
           'UnsignedInteger32', 'UnsignedInteger64'):
    _mk_int_lexical(_t)


# ------------------------------------------------------------------------------------------ date and time

def mk_tz(c, kind):
    """kind: 'naive' | 'utc' | 'offset' -> (tzinfo or None, offset minutes or None)."""
    if kind == 'naive':
        return None, None
    if kind == 'utc':
        return pytz.utc, 0
    off = c.int('utc_offset_minutes')
    c.assume(And(off >= -14 * 60, off <= 14 * 60))
    if c.concrete:
        return pytz.FixedOffset(off), off
    return tm.SymTz(off), off


def mk_datetime(c, tzkind, with_us=True):
    y, m, d = c.int('year'), c.int('month'), c.int('day')
    H, M, S_, us = c.int('hour'), c.int('minute'), c.int('second'), (c.int('microsecond') if with_us else 0)
    tz, off = mk_tz(c, tzkind)
    if c.concrete:
        try:
            return dt.datetime(y, m, d, H, M, S_, us, tz), off
        except ValueError:
            c.end('fields outside the value space')
    c.assume(SBool(z3.And(tm.date_ok(y.t, m.t, d.t), tm.time_ok(H.t, M.t, S_.t, tm._t(us)), y.t >= 1000)))
    return tm.SymDateTime(y, m, d, H, M, S_, us, tz), off


def offset_of(c, v):
    if c.concrete:
        o = v.utcoffset()
        return None if o is None else int(o.total_seconds() // 60)
    return tm.tz_minutes(v.tzinfo)


def same_fields(c, a, b, names):
    return And(*[getattr(a, n) == getattr(b, n) for n in names])


DT_FIELDS = ['year', 'month', 'day', 'hour', 'minute', 'second', 'microsecond']


def _mk_datetime_roundtrip(pname, P):
    @obligation('C08.datetime.%s.roundtrip' % pname,
                targets=['spyne.protocol._outbase:OutProtocolBase._datetime_to_unicode',
                         'spyne.protocol._inbase:InProtocolBase.datetime_from_unicode_iso',
                         'spyne.protocol._inbase:_parse_datetime_iso_match'],
                desc="for every datetime (naive, UTC, every fixed offset -14:00..+14:00, with and without microseconds): "
                     "the text is an xs:dateTime literal and reading it back yields the same instant and the same offset",
                assumptions=ASSUME_TXT + ["finite lemma C08.finite.frac_round for the fraction digits"])
    def ob(c):
        prot = P()
        tzkind = c.choose(['naive', 'utc', 'offset'], 'tz_kind')
        v, off = mk_datetime(c, tzkind)
        out = c.run(prot.to_unicode, DateTime, v)
        c.check('encodes', out.returned, detail=repr(out))
        if not out.returned:
            return
        s = out.value
        c.check('lexical_space', in_lexical_space(c, 'dateTime', s), detail=repr(s))
        back = c.run(prot.from_unicode, DateTime, s)
        c.check('decodes', back.returned, detail=repr(back))
        if back.returned:
            w = back.value
            c.check('same_fields', same_fields(c, w, v, DT_FIELDS), detail=repr(w))
            o2 = offset_of(c, w)
            c.check('same_offset', (o2 is None) == (off is None) and (off is None or o2 == off), detail=repr(o2))
    return ob


for _pn, _P in PROTS.items():
    _mk_datetime_roundtrip(_pn, _P)


def lex_datetime_literal(c, form):
    """A literal of the xs:dateTime lexical space and the value it denotes: (text, fields dict, offset|None)."""
    y, m, d = c.int('year'), c.int('month'), c.int('day')
    H, M, S_ = c.int('hour'), c.int('minute'), c.int('second')
    w = form['frac_width']
    frac = c.int('fraction') if w else 0
    zone = form['zone']
    zh, zm = (c.int('zone_hours'), c.int('zone_minutes')) if zone in ('+', '-') else (0, 0)
    cond = [y >= 1000, y <= 9999, 1 <= m, m <= 12, 1 <= d, 0 <= H, H <= 23, 0 <= M, M <= 59, 0 <= S_, S_ <= 59,
            0 <= frac, frac < 10 ** max(w, 1), 0 <= zh, zh <= 14, 0 <= zm, zm <= 59, Implies(zh == 14, zm == 0)]
    if c.concrete:
        import calendar
        if not all(cond) or d > calendar.monthrange(y, m)[1]:
            c.end('outside the lexical domain')
        text = '%04d-%02d-%02d%s%02d:%02d:%02d' % (y, m, d, form['sep'], H, M, S_)
        if w:
            text += '.' + str(frac).zfill(w)
        if zone == 'Z':
            text += 'Z'
        elif zone in ('+', '-'):
            text += '%s%02d:%02d' % (zone, zh, zm)
    else:
        c.assume(And(*cond))
        c.assume(SBool(d.t <= tm.days_in_month(y.t, m.t)))
        toks = [Dec(y.t, 4, True), Lit('-'), Dec(m.t, 2, True), Lit('-'), Dec(d.t, 2, True), Lit(form['sep']),
                Dec(H.t, 2, True), Lit(':'), Dec(M.t, 2, True), Lit(':'), Dec(S_.t, 2, True)]
        if w:
            toks += [Lit('.'), Dec(frac.t, w, True)]
        if zone == 'Z':
            toks.append(Lit('Z'))
        elif zone in ('+', '-'):
            toks += [Lit(zone), Dec(zh.t, 2, True), Lit(':'), Dec(zm.t, 2, True)]
        text = FmtStr(toks, str)
    us = frac * 10 ** (6 - w) if w else 0
    off = None if zone == '' else (0 if zone == 'Z' else ((zh * 60 + zm) if zone == '+' else -(zh * 60 + zm)))
    return text, dict(year=y, month=m, day=d, hour=H, minute=M, second=S_, microsecond=us), off


def _mk_datetime_lexical(pname, P):
    @obligation('C08.datetime.%s.lexical_coverage' % pname,
                targets=['spyne.protocol._inbase:InProtocolBase.datetime_from_unicode_iso',
                         'spyne.protocol._inbase:_parse_datetime_iso_match'],
                desc="every xs:dateTime literal with 0-6 fraction digits and zone absent, Z or +/-hh:mm (all 1681 offsets "
                     "at once: hh and mm symbolic) is read as the instant and offset it denotes",
                assumptions=ASSUME_TXT + ["finite lemma C08.finite.frac_round for the fraction digits"])
    def ob(c):
        prot = P()
        form = dict(sep=c.choose(['T'], 'separator'), frac_width=c.choose([0, 1, 3, 6], 'fraction_digits'),
                    zone=c.choose(['', 'Z', '+', '-'], 'zone'))
        text, f, off = lex_datetime_literal(c, form)
        back = c.run(prot.from_unicode, DateTime, text)
        c.check('decodes', back.returned, detail=repr(back))
        if back.returned:
            w = back.value
            c.check('denoted_fields', And(*[getattr(w, k) == f[k] for k in DT_FIELDS]), detail=repr(w))
            o2 = offset_of(c, w)
            c.check('denoted_offset', (o2 is None) == (off is None) and (off is None or o2 == off), detail=repr(o2))
    return ob


for _pn, _P in PROTS.items():
    _mk_datetime_lexical(_pn, _P)


def _mk_date(pname, P):
    @obligation('C08.date.%s.roundtrip' % pname,
                targets=['spyne.protocol._outbase:OutProtocolBase.date_to_unicode',
                         'spyne.protocol._inbase:InProtocolBase.date_from_unicode_iso'],
                desc="every date: xs:date literal, and reads back equal; literals with a zone suffix denote the same date",
                assumptions=ASSUME_TXT + ["time.strptime('%Y-%m-%d') accepts exactly YYYY-MM-DD with a valid date"])
    def ob(c):
        prot = P()
        y, m, d = c.int('year'), c.int('month'), c.int('day')
        if c.concrete:
            try:
                v = dt.date(y, m, d)
            except ValueError:
                c.end('outside the value space')
        else:
            c.assume(SBool(z3.And(tm.date_ok(y.t, m.t, d.t), y.t >= 1000)))
            v = tm.SymDate(y, m, d)
        out = c.run(prot.to_unicode, Date, v)
        c.check('encodes', out.returned, detail=repr(out))
        if not out.returned:
            return
        s = out.value
        c.check('lexical_space', in_lexical_space(c, 'date', s), detail=repr(s))
        suffix = c.choose(['', 'Z', '+05:30', '-11:00'], 'zone_suffix')
        if suffix:
            s = (s + suffix) if c.concrete else s.concat(suffix)
        back = c.run(prot.from_unicode, Date, s)
        c.check('decodes', back.returned, detail=repr(back))
        if back.returned:
            c.check('roundtrip_equal', same_fields(c, back.value, v, ['year', 'month', 'day']), detail=repr(back.value))
    return ob


for _pn, _P in PROTS.items():
    _mk_date(_pn, _P)


def _mk_time(pname, P):
    @obligation('C08.time.%s.roundtrip' % pname,
                targets=['spyne.protocol._outbase:OutProtocolBase.time_to_unicode',
                         'spyne.protocol._inbase:InProtocolBase.time_from_unicode'],
                desc="every time of day (with and without microseconds): xs:time literal, reads back equal",
                assumptions=ASSUME_TXT + ["finite lemma C08.finite.frac_round"])
    def ob(c):
        prot = P()
        H, M, S_, us = c.int('hour'), c.int('minute'), c.int('second'), c.int('microsecond')
        if c.concrete:
            try:
                v = dt.time(H, M, S_, us)
            except ValueError:
                c.end('outside the value space')
        else:
            c.assume(SBool(tm.time_ok(H.t, M.t, S_.t, us.t)))
            v = tm.SymTime(H, M, S_, us)
        out = c.run(prot.to_unicode, Time, v)
        c.check('encodes', out.returned, detail=repr(out))
        if not out.returned:
            return
        s = out.value
        c.check('lexical_space', in_lexical_space(c, 'time', s), detail=repr(s))
        back = c.run(prot.from_unicode, Time, s)
        c.check('decodes', back.returned, detail=repr(back))
        if back.returned:
            c.check('roundtrip_equal', same_fields(c, back.value, v, ['hour', 'minute', 'second', 'microsecond']),
                    detail=repr(back.value))
    return ob


for _pn, _P in PROTS.items():
    _mk_time(_pn, _P)


# ------------------------------------------------------------------------------------------ duration

def _mk_duration(pname, P):
    @obligation('C08.duration.%s.roundtrip' % pname,
                targets=['spyne.protocol._outbase:OutProtocolBase.duration_to_unicode',
                         'spyne.protocol._inbase:InProtocolBase.duration_from_unicode'],
                desc="every timedelta (any sign, any days/seconds/microseconds): the text is an xs:duration literal and "
                     "reads back as the same duration to the microsecond",
                assumptions=ASSUME_TXT + ["timedelta normalisation as documented; Decimal(text) is exact"])
    def ob(c):
        prot = P()
        days, secs, us = c.int('days'), c.int('seconds'), c.int('microseconds')
        if c.concrete:
            try:
                v = dt.timedelta(days=days, seconds=secs, microseconds=us)
            except OverflowError:
                c.end('outside the value space')
            if not (0 <= secs < 86400 and 0 <= us < 10 ** 6):
                c.end('not normalised')
        else:
            c.assume(And(days >= -999999, days <= 999999, secs >= 0, secs < 86400, us >= 0, us < 1000000))
            v = tm.SymTimedelta(days, secs, us)
        out = c.run(prot.to_unicode, Duration, v)
        c.check('encodes', out.returned, detail=repr(out))
        if not out.returned:
            return
        s = out.value
        c.check('lexical_space', in_lexical_space(c, 'duration', s), detail=repr(s))
        back = c.run(prot.from_unicode, Duration, s)
        c.check('decodes', back.returned, detail=repr(back))
        if back.returned:
            w = back.value
            c.check('roundtrip_equal', And(w.days == days, w.seconds == secs, w.microseconds == us),
                    detail=(repr(w), getattr(w, 'days', None), getattr(w, 'seconds', None), getattr(w, 'microseconds', None)))
    return ob


for _pn, _P in PROTS.items():
    _mk_duration(_pn, _P)


@obligation('C08.duration.samples', bounded="5 x 7 x 6 grid of (days, seconds, microseconds) incl. single microseconds and "
            "fractions that binary floats misrepresent; also the native refutation search of the symbolic obligations",
            targets=['spyne.protocol._outbase:OutProtocolBase.duration_to_unicode',
                     'spyne.protocol._inbase:InProtocolBase.duration_from_unicode'],
            desc="grid of concrete durations: xs:duration literal and exact round trip")
def duration_samples(c):
    prot = ProtocolBase()
    days = c.choose([-2, -1, 0, 1, 400], 'days')
    bad = []
    for secs in (0, 1, 59, 60, 3599, 3600, 86399):
        for us in (0, 1, 5, 249, 500000, 999999):
            v = dt.timedelta(days=days, seconds=secs, microseconds=us)
            out = c.run(prot.to_unicode, Duration, v)
            if not out.returned or not in_lexical_space(c, 'duration', out.value):
                bad.append((repr(v), repr(out)))
                continue
            back = c.run(prot.from_unicode, Duration, out.value)
            if not back.returned or back.value != v:
                bad.append((repr(v), out.value, repr(back)))
    c.check('all_roundtrip', not bad, detail=bad[:5])
    for junk in ('junk', '', 'P1Dxyz', '1D', 'PT1.5.5S'):
        o = c.run(prot.from_unicode, Duration, junk)
        from spyne.error import ValidationError
        c.check('ill_formed_rejected[%s]' % junk, junk == '' or o.raised_a(ValidationError), detail=repr(o))


@obligation('C08.duration.lexical_coverage', targets=['spyne.protocol._inbase:InProtocolBase.duration_from_unicode'],
            desc="xs:duration literals -PnDTnHnMn.fS with any field present or absent and 1-6 fraction digits are read as "
                 "the duration they denote (days/hours/minutes/seconds symbolic)",
            assumptions=ASSUME_TXT + ["Decimal(text) is exact"])
def duration_lexical(c):
    prot = ProtocolBase()
    neg = c.choose([False, True], 'negative')
    has = {k: c.choose([False, True], 'has_' + k) for k in ('days', 'hours', 'minutes', 'seconds')}
    w = c.choose([0, 1, 6], 'fraction_digits') if has['seconds'] else 0
    D_, H, M, S_ = c.int('n_days'), c.int('n_hours'), c.int('n_minutes'), c.int('n_seconds')
    frac = c.int('fraction') if w else 0
    cond = [D_ >= 0, D_ <= 100000, H >= 0, H <= 1000, M >= 0, M <= 100000, S_ >= 0, S_ <= 100000, 0 <= frac,
            frac < 10 ** max(w, 1)]
    if not any(has.values()):
        c.end('PT alone is not a literal')
    if c.concrete:
        if not all(cond):
            c.end('outside the domain')
        text = ('-' if neg else '') + 'P' + ('%dD' % D_ if has['days'] else '')
        if has['hours'] or has['minutes'] or has['seconds']:
            text += 'T' + ('%dH' % H if has['hours'] else '') + ('%dM' % M if has['minutes'] else '')
            if has['seconds']:
                text += '%d' % S_ + ('.' + str(frac).zfill(w) if w else '') + 'S'
    else:
        c.assume(And(*cond))
        toks = [Lit(('-' if neg else '') + 'P')]
        if has['days']:
            toks += [Dec(D_.t), Lit('D')]
        if has['hours'] or has['minutes'] or has['seconds']:
            toks.append(Lit('T'))
            if has['hours']:
                toks += [Dec(H.t), Lit('H')]
            if has['minutes']:
                toks += [Dec(M.t), Lit('M')]
            if has['seconds']:
                toks += [Dec(S_.t)]
                if w:
                    toks += [Lit('.'), Dec(frac.t, w, True)]
                toks.append(Lit('S'))
        text = FmtStr(toks, str)
    total_us = (((D_ if has['days'] else 0) * 24 + (H if has['hours'] else 0)) * 60 + (M if has['minutes'] else 0)) * 60
    total_us = (total_us + (S_ if has['seconds'] else 0)) * 1000000 + (frac * 10 ** (6 - w) if w else 0)
    if neg:
        total_us = -total_us
    back = c.run(prot.from_unicode, Duration, text)
    c.check('decodes', back.returned, detail=repr(back))
    if back.returned:
        v = back.value
        got = (v.days * 86400 + v.seconds) * 1000000 + v.microseconds
        c.check('denoted_duration', got == total_us, detail=(repr(v),))


# ------------------------------------------------------------------------------------------ finite lemma

@obligation('C08.finite.frac_round', kind='finite',
            desc="for every fraction of 1..6 decimal digits d: int(round(float('.' + d) * 1e6)) == int(d) * 10**(6-len(d)) "
                 "-- the float sub-lemma the date/time decoders rest on; exhaustive over all 1,111,110 fractions on "
                 "CPython's own float (not deduction)")
def frac_round(_c):
    failures = []
    n = 0
    for w in range(1, 7):
        scale = 10 ** (6 - w)
        fmt = '.%0' + str(w) + 'd'
        for d in range(10 ** w):
            n += 1
            if int(round(float(fmt % d) * 1e6)) != d * scale:
                failures.append((fmt % d, int(round(float(fmt % d) * 1e6))))
    return n, failures


# ------------------------------------------------------------------------------------------ bounded stand-ins

DECIMALS = ['0', '-0', '1', '-1', '1E+10', '2.8E+10', '1E-7', '0E-10', '123.4500', '0.000001', '1E+2', '-7.5E-9',
            '99999999999999999999999999999.99999', '1E+30', '12345678901234567890']
DOUBLES = [0.0, -0.0, 1.0, -1.5, 0.1, 1 / 3.0, 1e16, 1e22, 1e-5, 1e-7, 5e-324, 1.7976931348623157e308, 2.5e-300, 123456789.125]


@obligation('C08.decimal.roundtrip', bounded="15 representative decimals incl. positive/negative exponents and 35 digits",
            targets=['spyne.protocol._outbase:OutProtocolBase.decimal_to_unicode',
                     'spyne.protocol._inbase:InProtocolBase.decimal_from_unicode'],
            desc="Decimal: the text is an xs:decimal literal (no exponent) and reads back as the same number")
def decimal_roundtrip(c):
    P = c.choose(sorted(PROTS), 'protocol')
    prot = PROTS[P]()
    v = decimal.Decimal(c.choose(DECIMALS, 'value'))
    # known finding: str(Decimal) switches to exponent notation; the suite pins that output ('1E+100'), so it is
    # recorded instead of repaired (see known_findings.jsonl)
    c.known_region('C08-decimal-exponent-notation', 'E' in str(v))
    out = c.run(prot.to_unicode, Decimal, v)
    c.check('encodes', out.returned, detail=repr(out))
    if out.returned:
        s = out.value
        c.check('lexical_space', in_lexical_space(c, 'decimal', s), detail=repr(s))
        back = c.run(prot.from_unicode, Decimal, s)
        c.check('decodes', back.returned, detail=repr(back))
        if back.returned:
            c.check('roundtrip_equal', back.value == v, detail=repr(back.value))


DIGIT_SHAPES = [(3, 3), (5, 2), (1, 0), (1, 1), (10, 5), (4, 0)]


def _digit_values(td, fd):
    """values a Decimal(td, fd) admits, using every digit: pure fractions, largest magnitude, both signs"""
    nines_i, nines_f = '9' * (td - fd), '9' * fd
    vals = ['0', '-0.' + '1' * fd if fd else '-1', (nines_i or '0') + ('.' + nines_f if fd else ''),
            '-' + (nines_i or '0') + ('.' + nines_f if fd else ''), '0.' + '0' * (fd - 1) + '1' if fd else '1']
    return [decimal.Decimal(v) for v in vals]


@obligation('C08.decimal.digit_restricted', bounded="6 (total_digits, fraction_digits) shapes x the type as declared, "
            "customised once more (occurrence only) and twice more x 5 values using every admitted digit (both signs, pure "
            "fractions) x 3 protocols",
            targets=['spyne.model.primitive.number:Decimal._s_customize', 'spyne.protocol._inbase:InProtocolBase.decimal_from_unicode'],
            desc="a digit-restricted Decimal, however often it is derived again, reads back the text written for every value "
                 "it admits")
def decimal_digit_restricted(c):
    P = c.choose(sorted(PROTS), 'protocol')
    prot = PROTS[P]()
    td, fd = c.choose(DIGIT_SHAPES, 'digits')
    level = c.choose([0, 1, 2], 'derived_again')
    T = Decimal(td, fd)
    for _ in range(level):
        T = T.customize(min_occurs=1)
    bad = []
    for v in _digit_values(td, fd):
        out = c.run(prot.to_unicode, T, v)
        if not out.returned:
            bad.append((str(v), repr(out)))
            continue
        s = out.value
        back = c.run(prot.from_unicode, T, s)
        if not (back.returned and back.value == v):
            bad.append((str(v), s, repr(back)[:160]))
    c.check('own_text_reads_back', not bad, detail=((td, fd), level, bad[:3]))


@obligation('C08.double.roundtrip', bounded="14 representative doubles incl. subnormal, max, 1e16/1e22 boundaries",
            targets=['spyne.protocol._outbase:OutProtocolBase.double_to_unicode',
                     'spyne.protocol._inbase:InProtocolBase.double_from_bytes'],
            desc="Double: the text is an xs:double literal and reads back as the same IEEE value")
def double_roundtrip(c):
    P = c.choose(sorted(PROTS), 'protocol')
    prot = PROTS[P]()
    v = c.choose(DOUBLES, 'value')
    out = c.run(prot.to_unicode, Double, v)
    c.check('encodes', out.returned, detail=repr(out))
    if out.returned:
        s = out.value
        c.check('lexical_space', in_lexical_space(c, 'double', s), detail=repr(s))
        back = c.run(prot.from_unicode, Double, s)
        c.check('decodes', back.returned, detail=repr(back))
        if back.returned:
            import math
            c.check('roundtrip_equal', back.value == v and math.copysign(1, back.value) == math.copysign(1, v),
                    detail=repr(back.value))


@obligation('C08.boolean', bounded="both values; the four xs:boolean literals; ill-formed literals",
            targets=['spyne.protocol._outbase:OutProtocolBase.boolean_to_unicode',
                     'spyne.protocol._inbase:InProtocolBase.boolean_from_bytes'],
            desc="Boolean: true/false literals, all four xs:boolean literals are read correctly")
def boolean(c):
    P = c.choose(sorted(PROTS), 'protocol')
    prot = PROTS[P]()
    v = c.choose([True, False], 'value')
    out = c.run(prot.to_unicode, Boolean, v)
    c.check('encodes', out.returned and in_lexical_space(c, 'boolean', out.value), detail=repr(out))
    if out.returned:
        back = c.run(prot.from_unicode, Boolean, out.value)
        c.check('roundtrip_equal', back.returned and back.value is v, detail=repr(back))
    for lit, want in (('true', True), ('false', False), ('1', True), ('0', False)):
        b = c.run(prot.from_unicode, Boolean, lit)
        c.check('literal[%s]' % lit, b.returned and b.value is want, detail=repr(b))


BYTES_VALUES = [[b''], [b'a'], [b'ab', b'cde', b'f'], [b'\x00\xff\x10'], [b'abc', b'def'], [bytes(range(256))],
                [b'a', b'b', b'c', b'd'], (b'xy', b'z')]


@obligation('C08.bytearray', bounded="8 chunkings of byte strings x {base64, urlsafe_base64, hex}",
            targets=['spyne.model.binary:ByteArray.to_base64', 'spyne.model.binary:ByteArray.from_base64',
                     'spyne.model.binary:ByteArray.to_hex', 'spyne.model.binary:ByteArray.from_hex',
                     'spyne.model.binary:ByteArray.to_urlsafe_base64', 'spyne.model.binary:ByteArray.from_urlsafe_base64'],
            desc="ByteArray: the text is an xs:base64Binary / xs:hexBinary literal of the concatenated chunks and reads "
                 "back as exactly the same bytes, whatever the chunking")
def bytearray_(c):
    enc = c.choose(['base64', 'urlsafe_base64', 'hex'], 'encoding')
    val = c.choose(BYTES_VALUES, 'chunks')
    T = ByteArray(encoding=enc)
    prot = XmlDocument()
    out = c.run(prot.to_unicode, T, val)
    c.check('encodes', out.returned, detail=repr(out))
    if out.returned:
        s = out.value
        if enc == 'base64':
            c.check('lexical_space', in_lexical_space(c, 'base64Binary', s), detail=repr(s))
        elif enc == 'hex':
            c.check('lexical_space', in_lexical_space(c, 'hexBinary', s), detail=repr(s))
        back = c.run(prot.from_unicode, T, s)
        c.check('decodes', back.returned, detail=repr(back))
        if back.returned:
            c.check('same_bytes', b''.join(back.value) == b''.join(val), detail=repr(back.value))


@obligation('C08.uuid_unicode', bounded="3 uuids, 6 texts incl. non-BMP and XML-special characters",
            targets=['spyne.protocol._outbase:OutProtocolBase.uuid_to_unicode',
                     'spyne.protocol._inbase:InProtocolBase.uuid_from_unicode',
                     'spyne.protocol._outbase:OutProtocolBase.unicode_to_unicode'],
            desc="Uuid and Unicode/AnyUri text forms read back equal")
def uuid_unicode(c):
    P = c.choose(sorted(PROTS), 'protocol')
    prot = PROTS[P]()
    u = c.choose([uuid.UUID(int=0), uuid.UUID('12345678-1234-5678-1234-567812345678'), uuid.UUID(int=2 ** 128 - 1)], 'uuid')
    out = c.run(prot.to_unicode, Uuid, u)
    c.check('uuid_encodes', out.returned and re.fullmatch(r'[0-9a-fA-F]{8}(-[0-9a-fA-F]{4}){3}-[0-9a-fA-F]{12}', out.value or '')
            is not None, detail=repr(out))
    if out.returned:
        back = c.run(prot.from_unicode, Uuid, out.value)
        c.check('uuid_roundtrip', back.returned and back.value == u, detail=repr(back))
    t = c.choose([u'', u'a', u' lead & trail ', u'<&>"\'', u'é中\U0001f600', u'%s %d {0}'], 'text')
    for T in (Unicode, AnyUri):
        o = c.run(prot.to_unicode, T, t)
        c.check('text_encodes', o.returned and o.value == t, detail=repr(o))
        if o.returned and t != u'':
            b = c.run(prot.from_unicode, T, o.value)
            c.check('text_roundtrip', b.returned and b.value == t, detail=repr(b))


# ------------------------------------------------------------------------------------------ xs:time with zone designators

def _mk_time_lexical(pname, P):
    @obligation('C08.time.%s.lexical_coverage' % pname, targets=['spyne.protocol._inbase:InProtocolBase.time_from_unicode'],
                desc="every xs:time literal hh:mm:ss(.f{1,6})? with or without a zone designator (Z, +hh:mm, -hh:mm) that "
                     "denotes a time of day is read, as the time of day it spells",
                assumptions=ASSUME_TXT)
    def ob(c):
        from pyvc.text import FmtStr, Lit, Dec
        prot = P()
        H, M, S_ = c.int('hour'), c.int('minute'), c.int('second')
        w = c.choose([0, 1, 3, 6], 'fraction_digits')
        fr = c.int('fraction')
        zone = c.choose(['', 'Z', '+', '-'], 'zone')
        zh, zm = c.int('zone_hours'), c.int('zone_minutes')
        if c.concrete:
            if not (0 <= H < 24 and 0 <= M < 60 and 0 <= S_ < 60 and (w == 0 or 0 <= fr < 10 ** w) and 0 <= zh <= 14
                    and 0 <= zm < 60 and (zh < 14 or zm == 0)):
                c.end('outside the lexical space')
            text = '%02d:%02d:%02d' % (H, M, S_) + (('.' + str(fr).zfill(w)) if w else '') + (
                'Z' if zone == 'Z' else ('' if not zone else '%s%02d:%02d' % (zone, zh, zm)))
        else:
            c.assume(SBool(z3.And(tm.time_ok(H.t, M.t, S_.t, z3.IntVal(0)), zh.t >= 0, zh.t <= 14, zm.t >= 0, zm.t < 60,
                                  z3.Or(zh.t < 14, zm.t == 0))))
            if w:
                c.assume(And(fr >= 0, fr < 10 ** w))
            toks = [Dec(H.t, 2, True), Lit(':'), Dec(M.t, 2, True), Lit(':'), Dec(S_.t, 2, True)]
            if w:
                toks += [Lit('.'), Dec(fr.t, w, True)]
            if zone == 'Z':
                toks.append(Lit('Z'))
            elif zone:
                toks += [Lit(zone), Dec(zh.t, 2, True), Lit(':'), Dec(zm.t, 2, True)]
            text = FmtStr(toks, str)
        back = c.run(prot.from_unicode, Time, text)
        c.check('decodes', back.returned, detail=repr(back))
        if back.returned:
            v = back.value
            us = (fr * 10 ** (6 - w)) if w else 0
            c.check('denoted_time_of_day', And(v.hour == H, v.minute == M, v.second == S_, v.microsecond == us),
                    detail=repr(v))
    return ob


for _pn, _P in PROTS.items():
    _mk_time_lexical(_pn, _P)


# ------------------------------------------------------------------------------------------ text as element content

@obligation('C08.text.element_roundtrip', targets=['spyne.protocol.xml:XmlDocument.unicode_to_parent',
                                                   'spyne.protocol.xml:XmlDocument.unicode_from_element'],
            bounded="14 texts: empty, blank-only (space, tab, newline, mixed), leading / trailing blanks, markup characters, "
                    "CDATA-like, non-BMP, long",
            desc="a Unicode / AnyUri value written as element content by XmlDocument / Soap11 and read back from the "
                 "serialised element is the same text (xs:string preserves white space); the empty text comes back empty or "
                 "None")
def text_element_roundtrip(c):
    from lxml import etree
    from spyne.protocol.xml import XmlDocument
    from spyne.protocol.soap import Soap11
    TEXTS = [u'', u' ', u'\t', u'\n', u' \n\t ', u'  a  ', u'a\nb', u'\ta', u'a ', u'<x>&amp;</x>', u']]>', u'\U0001f600 \xe9',
             u'x' * 5000, u'a\r\nb']
    t = c.choose(TEXTS, 'text')
    T = c.choose([Unicode, AnyUri], 'type')
    P = c.choose([XmlDocument, Soap11], 'protocol')
    prot = P()
    parent = etree.Element('parent')
    out = c.run(prot.to_parent, None, T, t, parent, 'urn:t', 'v')
    c.check('encodes', out.returned and len(parent) == 1, detail=repr(out))
    if not (out.returned and len(parent) == 1):
        return
    elt = etree.fromstring(etree.tostring(parent))[0]          # what travels: serialise and parse again
    back = c.run(prot.from_element, None, T, elt)
    c.check('decodes', back.returned, detail=repr(back))
    if back.returned:
        # (a carriage return is written as a character reference, so it survives line-end normalisation)
        c.check('same_text', back.value == t or (t == u'' and back.value in (u'', None)), detail=(back.value, t))


# MessagePack sends an integer outside its native range as decimal text: that text form is part of this property too
# (the obligation body is C02's, proved for every integer)
from .c02_dict_fidelity import integer_split as _integer_split       # noqa: E402

obligation('C08.msgpack.integer_text_form', targets=['spyne.protocol.msgpack:MessagePackDocument.integer_to_bytes',
                                                     'spyne.protocol.msgpack:MessagePackDocument.integer_from_bytes'],
           desc="for every integer v: MessagePack's integer_to_bytes returns v itself iff v is in the format's native range "
                "[-2**63, 2**64) and its decimal text otherwise; integer_from_bytes reads either form back as v",
           assumptions=["str(n)/int(text) are inverse (CPython)", "magnitudes below 10**40 for the text branch"])(_integer_split)


# ------------------------------------------------------------------------------------------ thorough tier: generated values

def _mk_generated(tname):
    @obligation('C08.generated.%s' % tname, thorough_only=True,
                targets=['spyne.protocol._outbase:OutProtocolBase.to_unicode', 'spyne.protocol._inbase:InProtocolBase.from_unicode'],
                bounded="1500 values of %s generated from VERIF_SEED (spec/gen.py) x 3 protocols" % tname,
                desc="generated values: the text written is a literal of the advertised xs: type and reads back as an equal "
                     "value")
    def ob(c):
        from spec import gen
        from spyne.model.primitive import DateTime, Date, Duration, Double, Uuid
        P = c.choose(sorted(PROTS), 'protocol')
        prot = PROTS[P]()
        T, g, xs = {'Decimal': (Decimal, gen.dec, 'decimal'), 'Double': (Double, gen.double, 'double'),
                    'DateTime': (DateTime, gen.datetime_, 'dateTime'), 'Date': (Date, gen.date_, 'date'),
                    'Duration': (Duration, gen.duration, 'duration'), 'Integer': (number.Integer, gen.integer, 'integer'),
                    'Unicode': (Unicode, gen.text, None)}[tname]
        r = gen.rng(c.seed, 'C08/' + tname)
        bad = []
        for _ in range(1500):
            v = g(r)
            if v is None:
                continue
            o = c.run(prot.to_unicode, T, v)
            if not o.returned:
                bad.append((repr(v), repr(o)[:120]))
                continue
            s_ = o.value
            if xs is not None and not in_lexical_space(c, xs, s_):
                bad.append((repr(v), 'not an xs:%s literal' % xs, s_))
                continue
            b = c.run(prot.from_unicode, T, s_)
            same = b.returned and b.value == v
            if same and tname == 'DateTime' and v.tzinfo is not None:
                same = b.value.utcoffset() == v.utcoffset()
            if not same:
                bad.append((repr(v), s_, repr(b)[:120]))
        c.check('generated_values_roundtrip', not bad, detail=(len(bad), bad[:3]))
    return ob


for _t in ('Decimal', 'Double', 'DateTime', 'Date', 'Duration', 'Integer', 'Unicode'):
    _mk_generated(_t)


@obligation('C08.datetime.offsets_enumerated', targets=['spyne.protocol._inbase:InProtocolBase.datetime_from_unicode',
                                                        'spyne.protocol._outbase:OutProtocolBase.datetime_to_unicode'],
            bounded="every UTC offset from -14:00 to +14:00 in steps of 15 minutes (113 offsets) and 'Z', on one instant, x 3 "
                    "protocols; literal read, and value written and read back",
            desc="concrete companion of the symbolic offset proof (it refutes with an input when a change puts the code outside "
                 "what the token matcher can follow): an xs:dateTime literal with any legal offset is read with that offset, "
                 "and a value with that offset is written and read back unchanged")
def datetime_offsets_enumerated(c):
    import datetime as dt
    P = c.choose(sorted(PROTS), 'protocol')
    prot = PROTS[P]()
    bad = []
    for minutes in list(range(-14 * 60, 14 * 60 + 1, 15)) + ['Z']:
        if minutes == 'Z':
            lit, off = '2020-06-15T12:30:45Z', dt.timedelta(0)
        else:
            sign = '-' if minutes < 0 else '+'
            lit = '2020-06-15T12:30:45%s%02d:%02d' % (sign, abs(minutes) // 60, abs(minutes) % 60)
            off = dt.timedelta(minutes=minutes)
        o = c.run(prot.from_unicode, DateTime, lit)
        want = dt.datetime(2020, 6, 15, 12, 30, 45, tzinfo=dt.timezone(off))
        if not (o.returned and isinstance(o.value, dt.datetime) and o.value.utcoffset() == off and o.value == want):
            bad.append((lit, repr(o)[:120]))
            continue
        w = c.run(prot.to_unicode, DateTime, want)
        b = c.run(prot.from_unicode, DateTime, w.value) if w.returned else w
        if not (b.returned and b.value == want and b.value.utcoffset() == off):
            bad.append((lit, 'written as', repr(w)[:80], 'read back', repr(b)[:80]))
    c.check('every_offset_read_and_written', not bad, detail=(len(bad), bad[:3]))


@obligation('C08.date.datetime_values', targets=['spyne.protocol._outbase:OutProtocolBase.date_to_unicode'],
            bounded="4 datetime.datetime values (naive, UTC, fixed offsets, microseconds) given where a Date is declared x 3 protocols",
            desc="a datetime.datetime is a datetime.date: given as the value of a Date it is written as the xs:date literal of "
                 "its day and reads back as that day")
def date_datetime_values(c):
    import datetime as dt
    P = c.choose(sorted(PROTS), 'protocol')
    prot = PROTS[P]()
    v = c.choose([dt.datetime(2020, 2, 29, 13, 14, 15), dt.datetime(1999, 12, 31, 23, 59, 59, 999999, dt.timezone.utc),
                  dt.datetime(2021, 6, 1, 0, 0, 0, 0, dt.timezone(dt.timedelta(hours=5, minutes=30))),
                  dt.datetime(1, 1, 1, 0, 0, 0)], 'value')
    out = c.run(prot.to_unicode, Date, v)
    c.check('encodes', out.returned, detail=repr(out))
    if not out.returned:
        return
    s = out.value
    c.check('lexical_space', in_lexical_space(c, 'date', s), detail=repr(s))
    back = c.run(prot.from_unicode, Date, s)
    c.check('decodes_to_the_day', back.returned and back.value == v.date(), detail=(repr(s), repr(back)))


def _text_protocols():
    """every protocol class of the package that reads primitives from their text form (some override single readers)"""
    from spyne.protocol.http import HttpRpc
    from spyne.protocol.soap import Soap12
    # (the dict-document protocols carry booleans and numbers natively, not as text: C02 / C04)
    return dict(PROTS, HttpRpc=HttpRpc, Soap12=Soap12)


CANONICAL_LITERALS = [(Boolean, 'true', True), (Boolean, 'false', False), (Boolean, '1', True), (Boolean, '0', False),
                      (Integer, '0', 0), (Integer, '-1', -1), (Integer, '+7', 7), (Integer, '007', 7),
                      (Decimal, '1.50', decimal.Decimal('1.50')), (Decimal, '-0', decimal.Decimal('0')),
                      (Double, '1.5', 1.5), (Double, '1e3', 1000.0), (Double, '-0.0', 0.0)]


@obligation('C08.literals.every_protocol', targets=['spyne.protocol._inbase:InProtocolBase.from_bytes',
                                                    'spyne.protocol._inbase:InProtocolBase.from_unicode',
                                                    'spyne.protocol.http:HttpRpc.boolean_from_bytes'],
            bounded="13 literals of xs:boolean / xs:integer / xs:decimal / xs:double x 5 protocol classes (those of C08's "
                    "other obligations plus HttpRpc and Soap12), from text",
            desc="each protocol class -- several override single readers -- reads every literal of the type's lexical space as "
                 "the value it denotes")
def literals_every_protocol(c):
    prots = _text_protocols()
    P = c.choose(sorted(prots), 'protocol')
    prot = prots[P]()
    as_bytes = False      # on Python 3 every transport of the package hands the readers text (element text, query strings)
    bad = []
    for T, lit, want in CANONICAL_LITERALS:
        o = c.run(prot.from_bytes, T, lit.encode('ascii')) if as_bytes else c.run(prot.from_unicode, T, lit)
        if not (o.returned and o.value == want and type(o.value) is type(want)):
            bad.append((T.__name__, lit, repr(o)[:100]))
    c.check('every_literal_read_as_its_value', not bad, detail=bad[:4])
