"""C15: deriving a model never changes another model; field order is deterministic.

Result contracts (proved, symbolic attribute values): T.customize(**kw) / T(**kw) returns a class carrying
exactly the requested constraints and inheriting the rest, and the original's attributes are untouched.
Frame + evolution contracts (bounded histories, labelled): every sequence of up to three derivation /
evolution operations over a pool of models leaves every model that the operation does not target
observably unchanged (attributes, ordered fields, verdicts on probe values), fields added later appear in
every variant at the stated position, field order is declaration order with parents first.
"""
import itertools

from pyvc.oblig import obligation
from pyvc.sym import And, Or, Not, Implies, Iff, SInt, SBool

from spyne.model.complex import ComplexModel, ComplexModelBase, Array, Mandatory, Iterable, SelfReference
from spyne.model.primitive import Integer, Integer32, Unicode, Decimal, Date, Boolean, AnyUri
from spyne.model.binary import ByteArray
from spyne.model._base import ModelBase

TNS = 'verif.tns'

SIMPLE = {'Integer': Integer, 'Integer32': Integer32, 'Unicode': Unicode, 'Decimal': Decimal, 'Date': Date,
          'ByteArray': ByteArray, 'AnyUri': AnyUri}
INT_ATTRS = ['min_occurs', 'max_occurs']


def _mk_result(tname):
    T = SIMPLE[tname]
    num = tname in ('Integer', 'Integer32', 'Decimal')
    txt = tname in ('Unicode', 'AnyUri')

    @obligation('C15.customize.result.%s' % tname,
                targets=['spyne.model._base:ModelBase._s_customize', 'spyne.model._base:SimpleModel.customize'],
                desc="T.customize(**kw) with symbolic constraint values: the new class carries exactly the requested "
                     "values, inherits every other attribute of the original, is a distinct class whose Attributes is a "
                     "fresh subclass, and the original's attributes are the same objects as before")
    def ob(c):
        how = c.choose(['customize', 'call'], 'derivation_form')
        kw = {'min_occurs': c.int('min_occurs'), 'max_occurs': c.int('max_occurs'), 'nullable': c.bool('nullable')}
        if num:
            kw.update(ge=c.int('ge'), lt=c.int('lt'))
        if txt:
            kw.update(min_len=c.int('min_len'), max_len=c.int('max_len'))
        if c.concrete:
            kw['max_occurs'] = max(kw['max_occurs'], 1)
        base = T.customize(default=None) if c.choose([False, True], 'from_customised_original') else T
        before = {k: getattr(base.Attributes, k) for k in dir(base.Attributes) if not k.startswith('__')}
        out = c.run(base.customize, **kw) if how == 'customize' else c.run(base, **kw)
        minb, maxb = getattr(base.Attributes, 'min_bound', None), getattr(base.Attributes, 'max_bound', None)
        if out.raised and num and minb is not None:
            # documented: a bound that excludes the whole value space of a fixed-width type is refused
            c.check('refused_only_outside_type_bounds', And(out.raised_a(ValueError), Or(kw['lt'] <= minb, kw['ge'] > maxb)),
                    detail=repr(out))
            return
        c.check('returns', out.returned, detail=repr(out))
        if not out.returned:
            return
        new = out.value
        c.check('new_class', isinstance(new, type) and new is not base and issubclass(new, base))
        c.check('fresh_attributes_class', new.Attributes is not base.Attributes and issubclass(new.Attributes, base.Attributes))
        for k, v in kw.items():
            got = getattr(new.Attributes, k)
            c.check('carries[%s]' % k, (got is v) if not c.concrete else (got == v), detail=(k, repr(got)))
        after = {k: getattr(base.Attributes, k) for k in dir(base.Attributes) if not k.startswith('__')}
        changed = [k for k in before if k not in ('_variants',) and before[k] is not after.get(k) and before[k] != after.get(k)]
        c.check('original_untouched', not changed and set(before) == set(after), detail=changed)
        # translations / sqla_column_args are re-created per class by design (None -> {} and a deep copy)
        inherited = [k for k in before if k not in kw and not k.startswith('_') and k not in (
            'nillable', 'translations', 'sqla_column_args', 'max_str_len') and not callable(before[k])]
        bad = [k for k in inherited if getattr(new.Attributes, k) is not before[k] and getattr(new.Attributes, k) != before[k]]
        c.check('inherits_the_rest', not bad, detail=bad)
        c.check('orig_points_to_root', (new.__orig__ is (base.__orig__ or base)))
    return ob


for _t in SIMPLE:
    _mk_result(_t)


# ------------------------------------------------------------------------------------------ histories (bounded)

def _make_default():
    return 'made'


def make_pool():
    Int10 = Integer(ge=10)
    Str5 = Unicode(max_len=5)

    class Base(ComplexModel):
        __namespace__ = TNS
        a = Integer
        b = Str5

    class Derived(Base):
        __namespace__ = TNS
        c = Int10

    Arr = Array(Base)
    ArrInt = Array(Integer)
    V1 = Base.customize(min_occurs=1)
    V2 = V1.customize(nullable=False)
    Pending = Base.customize(child_attrs={'future': dict(max_len=3), 'a': dict(ge=1)})
    Pending2 = Pending.customize(max_occurs=4)

    class Holder(ComplexModel):
        __namespace__ = TNS
        items = Arr
        one = Base
        v = V1
        d = Derived
        ints = ArrInt
    # a type that already carries database column options (they live in one dict per type)
    Name = Unicode(64, server_default='n/a')
    NameIdx = Name(index=True)
    Pat = Unicode(pattern='[a-z]+')             # a pattern-restricted text type (derivations may drop the pattern)
    Fact = Unicode(default_factory=_make_default, max_len=9)     # a type whose default is computed by a callable

    class Node(ComplexModel):                   # a recursive model: the placeholder SelfReference stands for the class
        __namespace__ = TNS
        v = Integer
        child = SelfReference
    return dict(Pat=Pat, Node=Node, Fact=Fact, Int10=Int10, Str5=Str5, Base=Base, Derived=Derived, Arr=Arr, ArrInt=ArrInt, V1=V1, V2=V2,
                Pending=Pending, Pending2=Pending2, Holder=Holder, Integer=Integer, Unicode=Unicode, Name=Name, NameIdx=NameIdx)


PROBES = [None, -1, 0, 5, 10, 11, 10 ** 12, '', 'abc', 'abcdef', 'ABC']
SKIP_ATTRS = {'_variants', 'parent_variant', '_delayed_child_attrs', '_subclasses'}   # registries (whitelisted frame)


def _val(v):
    if isinstance(v, type):
        return ('class', id(v))
    if isinstance(v, (int, float, str, bytes, bool, type(None))):
        return v
    if isinstance(v, (list, tuple)):
        return [_val(x) for x in v]
    if isinstance(v, dict):
        return sorted((repr(k), _val(x)) for k, x in v.items())
    return repr(type(v))


def snapshot(m):
    snap = {'type_name': m.__type_name__ if isinstance(m.__type_name__, str) else repr(m.__type_name__),
            'namespace': getattr(m, '__namespace__', None), 'orig': id(getattr(m, '__orig__', None)),
            'extends': id(getattr(m, '__extends__', None))}
    A = m.Attributes
    snap['attrs'] = {k: _val(getattr(A, k)) for k in dir(A) if not k.startswith('__') and k not in SKIP_ATTRS and not
                     callable(getattr(A, k))}
    dca = getattr(A, '_delayed_child_attrs', None)
    snap['pending_child_attrs'] = _val(dca) if dca else None
    if issubclass(m, ComplexModelBase):
        snap['type_info'] = [(k, id(v)) for k, v in m._type_info.items()]
        snap['flat'] = [(k, id(v)) for k, v in m.get_flat_type_info(m).items()]
    else:
        verdicts = []
        for p in PROBES:
            try:
                verdicts.append((bool(m.validate_native(m, p)), bool(m.validate_string(m, p if isinstance(p, str) or p is None
                                                                                     else str(p)))))
            except Exception as e:
                verdicts.append(type(e).__name__)
        snap['verdicts'] = verdicts
    return snap


def variants_of(pool, root):
    """Every model of the pool that is a customised variant of root (root itself excluded)."""
    return [m for m in pool.values() if isinstance(m, type) and issubclass(m, ComplexModelBase) and m is not root
            and (getattr(m, '__orig__', None) or m) is (getattr(root, '__orig__', None) or root)]


OPS = ['prim_call', 'simple_customize', 'complex_customize', 'child_attrs', 'child_attrs_all', 'variant_of_variant',
       'array_wrap', 'mandatory_array', 'mandatory_complex', 'mandatory_simple', 'subclass', 'append_field',
       'insert_field', 'append_pending_field', 'append_to_derived_parent', 'variant_child_attrs_future',
       'insert_pending_field', 'array_wrap_variant', 'array_wrap_simple_variant', 'iterable_wrap_variant',
       'array_wrap_with_item_attrs', 'column_option_pk', 'column_option_server_default',
       # operations whose argument objects (dicts of per-field attributes) are shared by every use in a history, the way a
       # module-level constant is, and derivations with a result contract of their own
       'child_attrs_noexc_shared_args', 'child_attrs_noexc_shared_args_on_derived', 'child_attrs_shared_args',
       'mandatory_with_kwargs', 'mandatory_unicode', 'mandatory_integer',
       'pattern_removed', 'pattern_removed_then_derived', 'declare_recursive_customized', 'declare_recursive_plain',
       'derive_from_default_factory', 'derive_twice_from_default_factory', 'mandatory_from_default_factory']


def _attrs(m):
    return snapshot(m)['attrs']


def _mandatory_result(src_attrs, new, extra):
    """Mandatory(src, **extra) carries exactly: min_occurs=1, not nillable, the extra keywords (and min_len >= 1 for text);
    everything else as in src."""
    want = dict(src_attrs)
    want.update(min_occurs=1, nillable=False, _nullable=False)
    want.update(extra)
    got = _attrs(new)
    # re-created per class by design (None -> empty containers), derived from other attributes, or naming
    skip = ('type_name', '_explicit_type_name', 'sqla_column_args', 'translations', 'max_str_len', 'nullable')
    bad = [(k, got.get(k), want[k]) for k in want if k not in skip and got.get(k) != want[k]]
    return bad


def apply_op(c, op, pool, step):
    """Runs one operation on the live pool through the interpreter.  Returns (outcome, expectation dict)."""
    P = pool
    exp = {'changed': {}, 'new': None}     # changed: model name -> function(before_snapshot, after_snapshot) -> ok
    tag = 's%d' % step
    SH = P.setdefault('_shared_args', {'noexc': {'a': dict(ge=1)}, 'ca': {'a': dict(ge=1), 'b': dict(min_len=1)}})
    if op in ('child_attrs_noexc_shared_args', 'child_attrs_noexc_shared_args_on_derived'):
        src = P['Base'] if op == 'child_attrs_noexc_shared_args' else P['Derived']
        out = c.run(src.customize, child_attrs_noexc=SH['noexc'])

        def result(new, src=src):
            ti = new.get_flat_type_info(new) if src is P['Derived'] else new._type_info
            bad = []
            for k, t in new._type_info.items():
                if k == 'a':
                    if t.Attributes.ge != 1 or t.Attributes.exc:
                        bad.append((k, t.Attributes.ge, t.Attributes.exc))
                elif not t.Attributes.exc:
                    bad.append((k, 'not excluded'))
            if 'a' not in ti:
                bad.append('a missing')
            return bad
        exp['result'] = result
    elif op == 'child_attrs_shared_args':
        out = c.run(P['Base'].customize, child_attrs=SH['ca'])
        exp['result'] = lambda new: [x for x in [('a', new._type_info['a'].Attributes.ge), ('b', new._type_info['b'].Attributes.min_len)]
                                     if x[1] != 1] + [(k, 'excluded') for k, t in new._type_info.items() if t.Attributes.exc]
    elif op == 'mandatory_with_kwargs':
        src_attrs = _attrs(P['Int10'])
        out = c.run(Mandatory, P['Int10'], max_occurs=5)
        exp['result'] = lambda new: _mandatory_result(src_attrs, new, dict(max_occurs=5))
    elif op == 'mandatory_unicode':
        src_attrs = _attrs(P['Unicode'])
        out = c.run(Mandatory, P['Unicode'])
        exp['result'] = lambda new: _mandatory_result(src_attrs, new, dict(min_len=1))
    elif op == 'mandatory_integer':
        src_attrs = _attrs(P['Integer'])
        out = c.run(Mandatory, P['Integer'])
        exp['result'] = lambda new: _mandatory_result(src_attrs, new, {})
    elif op in ('derive_from_default_factory', 'derive_twice_from_default_factory', 'mandatory_from_default_factory'):
        if op == 'mandatory_from_default_factory':
            out = c.run(Mandatory, P['Fact'])
        else:
            out = c.run(P['Fact'].customize, min_occurs=1)
            if out.returned and op == 'derive_twice_from_default_factory':
                out = c.run(out.value.customize, max_occurs=3)

        def result(new):
            bad = []
            if new.Attributes.default_factory is not _make_default:
                bad.append(('default_factory', repr(new.Attributes.default_factory)))
            if new.Attributes.max_len != 9:
                bad.append(('max_len', new.Attributes.max_len))
            H = type(ComplexModel)('HoldsFact', (ComplexModel,), {'__namespace__': TNS, '_type_info': [('f', new)]})
            if H().f != 'made':
                bad.append(('instance default', repr(H().f)))
            return bad
        exp['result'] = result
    elif op in ('pattern_removed', 'pattern_removed_then_derived'):
        out = c.run(P['Pat'].customize, pattern=None)
        if out.returned and op == 'pattern_removed_then_derived':
            out = c.run(out.value.customize, max_len=7)

        def result(new):
            bad = []
            if new.Attributes.pattern is not None:
                bad.append(('pattern', new.Attributes.pattern))
            for probe, want in (('ABC', True), ('abc', True), ('12 3', True)):
                if bool(new.validate_string(new, probe) and new.validate_native(new, probe)) != want:
                    bad.append(('verdict', probe, not want))
            return bad
        exp['result'] = result
    elif op in ('declare_recursive_customized', 'declare_recursive_plain'):
        member = SelfReference.customize(min_occurs=1, nullable=False) if op == 'declare_recursive_customized' else SelfReference
        out = c.run(type(ComplexModel), 'Rec' + tag, (ComplexModel,), {'__namespace__': TNS, '_type_info': [
            ('v', Integer), ('next', member), ('all', Array(SelfReference))]})

        def result(new, customized=(op == 'declare_recursive_customized')):
            nxt = new._type_info['next']
            bad = []
            if (nxt.__orig__ or nxt) is not new:
                bad.append(('next is not the class itself', repr(nxt)))
            want = (1, False) if customized else (0, True)
            if (nxt.Attributes.min_occurs, bool(nxt.Attributes.nullable)) != want:
                bad.append(('next', nxt.Attributes.min_occurs, nxt.Attributes.nullable, want))
            (_, item), = new._type_info['all']._type_info.items()
            if (item.__orig__ or item) is not new or item.Attributes.min_occurs != 0:
                bad.append(('array item', repr(item), item.Attributes.min_occurs))
            return bad
        exp['result'] = result
    elif op == 'prim_call':
        out = c.run(P['Integer'], lt=5, ge=-3)
    elif op == 'simple_customize':
        out = c.run(P['Int10'].customize, le=20, max_occurs=2)
    elif op == 'complex_customize':
        out = c.run(P['Base'].customize, min_occurs=2, nullable=False)
    elif op == 'child_attrs':
        out = c.run(P['Base'].customize, child_attrs={'a': dict(ge=1), 'b': dict(min_len=1)})
    elif op == 'child_attrs_all':
        out = c.run(P['Derived'].customize, child_attrs_all=dict(nullable=False))
    elif op == 'variant_child_attrs_future':
        out = c.run(P['Pending'].customize, child_attrs={'later': dict(max_len=2)}, min_occurs=1)
    elif op == 'variant_of_variant':
        out = c.run(P['V2'].customize, max_occurs=3)
    elif op == 'array_wrap':
        out = c.run(Array, P['Derived'], min_occurs=1)
    elif op == 'array_wrap_variant':
        out = c.run(Array, P['V1'])                      # an already customised class as item type
    elif op == 'array_wrap_simple_variant':
        out = c.run(Array, P['Str5'], max_occurs=3)
    elif op == 'iterable_wrap_variant':
        out = c.run(Iterable, P['V2'])
    elif op == 'array_wrap_with_item_attrs':
        out = c.run(P['ArrInt'].customize, serializer_attrs=dict(le=99))
    elif op == 'column_option_pk':
        out = c.run(P['Name'], pk=True)
    elif op == 'column_option_server_default':
        out = c.run(P['NameIdx'].customize, server_default='other', unique=True)
    elif op == 'mandatory_array':
        out = c.run(Mandatory, P['ArrInt'])
    elif op == 'mandatory_complex':
        out = c.run(Mandatory, P['Base'])
    elif op == 'mandatory_simple':
        out = c.run(Mandatory, P['Str5'])
    elif op == 'subclass':
        out = c.run(type(ComplexModel), 'Sub' + tag, (P['Base'],), {'__namespace__': TNS, 'z': Unicode})
    elif op in ('append_field', 'insert_field', 'append_pending_field', 'append_to_derived_parent', 'insert_pending_field'):
        name = {'append_field': 'n_' + tag, 'insert_field': 'i_' + tag, 'append_pending_field': 'future',
                'append_to_derived_parent': 'p_' + tag, 'insert_pending_field': 'future'}[op]
        root = P['Base']
        ftype = Unicode if op != 'insert_field' else Integer
        if op in ('insert_field', 'insert_pending_field'):
            out = c.run(root.insert_field, 0, name, ftype)
        else:
            out = c.run(root.append_field, name, ftype)
        targets = ['Base'] + [k for k, m in P.items() if m in variants_of(P, root)]

        def expect_field(nm):
            def chk(before, after):
                bi = [k for k, _ in before['type_info']]
                ai = [k for k, _ in after['type_info']]
                if name in bi:          # already there: append overwrites in place, insert moves it to the index
                    if op in ('insert_field', 'insert_pending_field'):
                        return ai == [name] + [x for x in bi if x != name]
                    return ai == bi
                want = ([name] + bi) if op in ('insert_field', 'insert_pending_field') else (bi + [name])
                rest_same = [x for x in after['type_info'] if x[0] != name] == [x for x in before['type_info'] if x[0] != name]
                return ai == want and rest_same
            return chk
        for t in targets:
            exp['changed'][t] = expect_field(t)
        # classes whose flat type info includes Base's fields see the new field through inheritance
        def inherits_from_root(m):
            e = getattr(m, '__extends__', None)
            while e is not None:
                if (getattr(e, '__orig__', None) or e) is (getattr(root, '__orig__', None) or root):
                    return True
                e = getattr(e, '__extends__', None)
            return False
        exp['flat_changes'] = [k for k, m in P.items() if isinstance(m, type) and issubclass(m, ComplexModelBase)
                               and k not in targets and inherits_from_root(m)]
        exp['field'] = (name, ftype)
    else:
        raise KeyError(op)
    if out.returned and op not in ('append_field', 'insert_field', 'append_pending_field', 'append_to_derived_parent',
                                   'insert_pending_field'):
        exp['new'] = out.value
    return out, exp


def _mk_histories(length, first_op=None):
    @obligation('C15.histories.len%d' % length + ('' if first_op is None else '.' + first_op), thorough_only=first_op is not None,
                targets=['spyne.model.complex:ComplexModelBase.customize',
                                                          'spyne.model.complex:_process_child_attrs',
                                                          'spyne.model.complex:ComplexModelBase.append_field',
                                                          'spyne.model.complex:ComplexModelBase.insert_field',
                                                          'spyne.model.complex:Mandatory', 'spyne.model.complex:Array.__new__'],
                bounded="every sequence of %d operation(s) from an alphabet of %d derivation/evolution operations over a "
                        "pool of 13 models (%d histories), every model observed after every step" % (
                            length, len(OPS), len(OPS) ** length),
                desc="after each operation every model the operation does not target is observably unchanged (attributes, "
                     "ordered fields, flat field order, pending child attributes, validation verdicts on probe values); a "
                     "field added to a class appears in the class and in all of its customised variants at the stated "
                     "position; derived classes see it before their own fields")
    def ob(c):
        pool = make_pool()
        names = [k for k in pool if k not in ('Integer', 'Unicode') and not k.startswith('_')] + ['Integer', 'Unicode']
        for step in range(length):
            op = first_op if (step == 0 and first_op is not None) else c.choose(OPS, 'op%d' % step)
            before = {k: snapshot(pool[k]) for k in names}
            out, exp = apply_op(c, op, pool, step)
            c.check('op_returns[%d]' % step, out.returned, detail=(op, repr(out)))
            if not out.returned:
                return
            after = {k: snapshot(pool[k]) for k in names}
            for k in names:
                if k in exp['changed']:
                    ok = exp['changed'][k](before[k], after[k])
                    same_else = all(before[k][f] == after[k][f] for f in before[k] if f not in ('type_info', 'flat',
                                                                                               'pending_child_attrs'))
                    c.check('field_added_to_class_and_variants', ok and same_else,
                            detail=(op, k, before[k].get('type_info'), after[k].get('type_info')))
                elif k in exp.get('flat_changes', ()):
                    b2 = dict(before[k]); a2 = dict(after[k])
                    bf, af = b2.pop('flat'), a2.pop('flat')
                    c.check('untargeted_model_unchanged', b2 == a2, detail=(op, k, _diff(b2, a2)))
                    name, ftype = exp['field']
                    own = [x[0] for x in after[k]['type_info']]
                    inherited = [x[0] for x in af if x[0] not in own]
                    c.check('parents_fields_first', [x[0] for x in af] == inherited + own and name in inherited,
                            detail=(op, k, [x[0] for x in af]))
                else:
                    c.check('untargeted_model_unchanged', before[k] == after[k], detail=(op, k, _diff(before[k], after[k])))
            if 'field' in exp:
                name, ftype = exp['field']
                for k in exp['changed']:
                    t = pool[k]._type_info.get(name)
                    pend = before[k]['pending_child_attrs']
                    want_cust = dict((kk, vv) for kk, vv in (pend or [])).get(repr(name))
                    if t is not None and want_cust:
                        c.check('pending_child_attrs_applied', all(getattr(t.Attributes, a, None) == v for a, v in
                                                                  _undo(want_cust)), detail=(k, name, want_cust))
                    elif t is not None:
                        c.check('field_type_is_the_given_type', (getattr(t, '__orig__', None) or t) is ftype,
                                detail=(k, name, repr(t)))
            if exp.get('result') is not None and exp['new'] is not None:
                bad = exp['result'](exp['new'])
                c.check('new_type_carries_exactly_the_requested_constraints', not bad, detail=(op, step, bad[:4]))
            if exp['new'] is not None:
                pool['new_%d' % step] = exp['new']
                names.append('new_%d' % step)
        # declaration order, parents first
        B, D = pool['Base'], pool['Derived']
        flat = list(D.get_flat_type_info(D).keys())
        c.check('derived_flat_order_parents_first', flat == list(B._type_info.keys()) + [k for k in D._type_info.keys()],
                detail=flat)
    return ob


def _undo(pairs):
    return [(eval(k), v) for k, v in pairs]


def _diff(a, b):
    out = []
    for k in a:
        if a[k] != b.get(k):
            if isinstance(a[k], dict):
                out.append((k, [(x, a[k][x], b[k].get(x)) for x in a[k] if a[k][x] != b[k].get(x)][:4]))
            else:
                out.append((k, a[k], b.get(k)))
    return out[:4]


_mk_histories(1)
_mk_histories(2)
for _op in OPS:                    # thorough tier: every history of three operations, one obligation per first operation
    _mk_histories(3, _op)


# ------------------------------------------------------------------------------------------ explicit field positions

def spec_order(fields):
    """Declaration order; a field with an explicit `order` is inserted at that index, explicit fields taken in
    declaration order (list.insert semantics, as the class documentation of `order` says)."""
    out = [k for k, v in fields if v.Attributes.order is None]
    for k, v in fields:
        if v.Attributes.order is not None:
            out.insert(v.Attributes.order, k)
    return out


ORDER_CASES = {
    'two_positions': lambda: [('a', Integer), ('b', Unicode(order=0)), ('c', Integer), ('d', Unicode(order=1))],
    'same_position': lambda: [('a', Integer), ('b', Unicode(order=0)), ('c', Integer(order=0)), ('d', Date(order=0)), ('e', Unicode)],
    'negative_and_late': lambda: [('p', Unicode(order=-1)), ('q', Integer), ('r', Integer(order=5)), ('s', Unicode(order=1)),
                                  ('t', Integer), ('u', Date(order=2))],
    'none': lambda: [('z', Integer), ('y', Unicode), ('x', Date), ('w', Boolean)],
}

_ORDER_SNIPPET = r'''
import sys, logging, warnings
warnings.filterwarnings('ignore'); logging.disable(logging.CRITICAL)
sys.path.insert(0, %r)
from contracts.c15_derivation import ORDER_CASES, TNS
from spyne.model.complex import ComplexModel
K = type(ComplexModel)('K', (ComplexModel,), {'__namespace__': TNS, '_type_info': ORDER_CASES[%r]()})
V = K.customize(min_occurs=1)
class Sub(K):
    __namespace__ = TNS
    extra = K
print(','.join(K._type_info.keys()), ','.join(V._type_info.keys()), ','.join(Sub.get_flat_type_info(Sub).keys()))
'''


def _mk_order(case):
    @obligation('C15.field_order.%s' % case, targets=['spyne.model.complex:ComplexModelMeta.__init__'],
                bounded="three adversarial iteration orders for every set; 6 hash seeds in the native replay",
                desc="fields with explicit positions (order=...): the class, its customised variant and a subclass list "
                     "their fields in the documented order -- declaration order, explicit fields inserted at their index in "
                     "declaration order -- whatever order sets iterate in (the metaclass is interpreted with an adversary "
                     "fixing every set's iteration order; replay in fresh processes under different hash seeds)")
    def ob(c):
        import os
        import subprocess
        import sys
        fields = ORDER_CASES[case]()
        want = spec_order(fields)
        if c.concrete:
            root = os.path.dirname(os.path.dirname(os.path.abspath(__file__)))
            outs = []
            for seed in range(6):
                env = dict(os.environ, PYTHONHASHSEED=str(seed), PYTHONDONTWRITEBYTECODE='1')
                p = subprocess.run([sys.executable, '-c', _ORDER_SNIPPET % (root, case)], capture_output=True, env=env, timeout=120)
                outs.append(p.stdout.decode().strip())
            exp = ','.join(want)
            c.check('class_created', all(outs), detail=outs[:2])
            c.check('documented_field_order', all(o.split(' ')[0] == exp for o in outs), detail=(exp, sorted(set(outs))))
            c.check('variant_and_subclass_follow', all(o.split(' ')[1] == exp and o.split(' ')[2] == exp + ',extra' for o in outs if o),
                    detail=sorted(set(outs)))
            return
        for order in ('sorted', 'reversed', 'rotated'):
            c.interp.set_order = order
            out = c.run(type(ComplexModel), 'K_' + order, (ComplexModel,), {'__namespace__': TNS, '_type_info': ORDER_CASES[case]()})
            c.check('class_created', out.returned, detail=repr(out))
            if not out.returned:
                return
            K = out.value
            got = list(K._type_info.keys())
            c.check('documented_field_order', got == want, detail=(order, got, want))
            v = c.run(K.customize, min_occurs=1)
            s_ = c.run(type(ComplexModel), 'S_' + order, (K,), {'__namespace__': TNS, 'extra': Integer})
            c.check('variant_and_subclass_follow', v.returned and list(v.value._type_info.keys()) == want and s_.returned and
                    list(s_.value.get_flat_type_info(s_.value).keys()) == want + ['extra'],
                    detail=(order, v.returned and list(v.value._type_info.keys()), repr(s_)[:200]))
        c.interp.set_order = None
    return ob


for _c in ORDER_CASES:
    _mk_order(_c)


@obligation('C15.field_order.mixin', targets=['spyne.model.complex:_get_type_info', 'spyne.model.complex:ComplexModelMeta.__new__'],
            bounded="one and two mixin parents with 3 and 2 fields, with and without an ordinary base class; class, customised "
                    "variant and subclass",
            desc="fields that come from a mixin parent (__mixin__ = True) keep their declaration order and precede the "
                 "class's own fields (parents first); ordinary base classes come before mixins; variants and subclasses "
                 "see the same order")
def field_order_mixin(c):
    how = c.choose(['one_mixin', 'two_mixins', 'base_and_mixin'], 'parents')
    Meta = type(ComplexModel)
    out1 = c.run(Meta, 'Audit', (ComplexModel,), {'__namespace__': TNS, '__mixin__': True,
                                                  '_type_info': [('created_by', Unicode), ('created_at', Date), ('revision', Integer)]})
    out2 = c.run(Meta, 'Tagged', (ComplexModel,), {'__namespace__': TNS, '__mixin__': True,
                                                   '_type_info': [('tag', Unicode), ('weight', Integer)]})
    c.check('mixins_declared', out1.returned and out2.returned, detail=(repr(out1), repr(out2)))
    if not (out1.returned and out2.returned):
        return
    Audit, Tagged = out1.value, out2.value

    class Plain(ComplexModel):
        __namespace__ = TNS
        p1 = Integer
        p2 = Unicode
    parents = {'one_mixin': (Audit,), 'two_mixins': (Audit, Tagged), 'base_and_mixin': (Plain, Audit)}[how]
    out = c.run(Meta, 'Invoice', parents, {'__namespace__': TNS, '_type_info': [('number', Integer), ('total', Decimal)]})
    c.check('class_created', out.returned, detail=repr(out))
    if not out.returned:
        return
    K = out.value
    audit, tagged, plain, own = ['created_by', 'created_at', 'revision'], ['tag', 'weight'], ['p1', 'p2'], ['number', 'total']
    want = {'one_mixin': audit + own, 'two_mixins': audit + tagged + own, 'base_and_mixin': plain + audit + own}[how]
    got = list(K.get_flat_type_info(K).keys())
    c.check('parents_first_in_declaration_order', got == want, detail=(got, want))
    v = c.run(K.customize, min_occurs=1)
    c.check('variant_follows', v.returned and list(v.value.get_flat_type_info(v.value).keys()) == want,
            detail=v.returned and list(v.value.get_flat_type_info(v.value).keys()))
    s_ = c.run(Meta, 'Sub', (K,), {'__namespace__': TNS, 'extra': Integer})
    c.check('subclass_follows', s_.returned and list(s_.value.get_flat_type_info(s_.value).keys()) == want + ['extra'],
            detail=s_.returned and list(s_.value.get_flat_type_info(s_.value).keys()))
