"""C09: faults arrive intact, are classified correctly and never leak internals."""
from pyvc.oblig import obligation
from pyvc.sym import And, Or, Not, Implies, Iff, If, StartsWith
from spec import faultdoc

from spyne import Fault
from spyne.const.http import HTTP_400, HTTP_401, HTTP_404, HTTP_405, HTTP_413, HTTP_500
from spyne.error import (RequestTooLongError, ResourceNotFoundError, RequestNotAllowed, InvalidCredentialsError,
                         ValidationError, InvalidInputError, InternalError, ArgumentError)
from spyne.protocol._outbase import OutProtocolBase
from spyne.protocol.http import HttpRpc
from spyne.protocol.json import JsonDocument
from spyne.protocol.msgpack import MessagePackDocument
from spyne.protocol.soap import Soap11, Soap12
from spyne.protocol.xml import XmlDocument
from spyne.protocol.yaml import YamlDocument

from .pipeline import Harness, requests_for, SECRET, FAMILIES_ALL

DEDICATED = [(RequestTooLongError, HTTP_413), (ResourceNotFoundError, HTTP_404), (RequestNotAllowed, HTTP_405),
             (InvalidCredentialsError, HTTP_401)]


class _Sub404(ResourceNotFoundError):
    pass


class _SubFault(Fault):
    pass


class _CodedFault(Fault):
    """an application fault class that declares a class-level code; instances are raised with a more specific one"""
    CODE = 'Client.Declared'


class _CodedSub(_CodedFault):
    __namespace__ = 'verif.faults'


def _fault_object(c):
    """Forks over the kinds of object handed to the classifier; returns (object, expected status or None)."""
    kind = c.choose(['fault', 'fault_subclass', 'too_long', 'not_found', 'not_found_subclass', 'not_allowed',
                     'bad_credentials', 'validation_error', 'non_fault'], 'fault_kind')
    code = c.str('faultcode')
    if kind in ('fault', 'fault_subclass'):
        f = (Fault if kind == 'fault' else _SubFault)(code if c.concrete else 'x', 'msg')
        f.faultcode = code
        return f, code, None
    if kind == 'non_fault':
        return RuntimeError('boom'), None, HTTP_500
    cls, want = {'too_long': (RequestTooLongError, HTTP_413), 'not_found': (ResourceNotFoundError, HTTP_404),
                 'not_found_subclass': (_Sub404, HTTP_404), 'not_allowed': (RequestNotAllowed, HTTP_405),
                 'bad_credentials': (InvalidCredentialsError, HTTP_401),
                 'validation_error': (ValidationError, HTTP_400)}[kind]
    f = cls('what') if cls in (ValidationError, ResourceNotFoundError, _Sub404) else cls()
    return f, None, want


def _mk_classify(name, factory, always_500):
    @obligation('C09.classify.%s' % name,
                targets=['spyne.protocol._outbase:OutProtocolBase.fault_to_http_response_code'
                         if not always_500 else 'spyne.protocol.soap.soap11:Soap11.fault_to_http_response_code'],
                desc="fault_to_http_response_code(f) == documented status: 413/404/405/401 for the dedicated errors (and "
                     "subclasses), 400 iff the code is Client or Client.<sub-code>, else 500; always 500 for SOAP; "
                     "the fault code is an arbitrary (symbolic) string",
                assumptions=["str.startswith / == on the fault code are modelled by z3 sequence theory (PrefixOf, =)"])
    def ob(c):
        prot = factory()
        f, code, want = _fault_object(c)
        out = c.run(prot.fault_to_http_response_code, f)
        c.check('returns', out.returned, detail=repr(out))
        if not out.returned:
            return
        if always_500:
            c.check('soap_always_500', out.value == HTTP_500, detail=out.value)
        elif want is not None:
            c.check('dedicated_status', out.value == want, detail=(out.value, want))
        else:
            is_client = faultdoc.is_client_code(code)
            c.check('400_iff_client_code', Iff(is_client, out.value == HTTP_400), detail=out.value)
            c.check('500_iff_not_client_code', Iff(Not(is_client), out.value == HTTP_500), detail=out.value)
    return ob


for _n, _f, _s in (('OutProtocolBase', OutProtocolBase, False), ('HttpRpc', HttpRpc, False), ('JsonDocument', JsonDocument, False),
                   ('XmlDocument', XmlDocument, False), ('YamlDocument', YamlDocument, False),
                   ('MessagePackDocument', MessagePackDocument, False), ('Soap11', Soap11, True), ('Soap12', Soap12, True)):
    _mk_classify(_n, _f, _s)


def _every_error():
    """an instance of every Fault class the package defines in spyne.error (by introspection)"""
    import inspect
    import spyne.error as E
    out = []
    for n, k in sorted(vars(E).items()):
        if not (isinstance(k, type) and issubclass(k, Fault) and k.__module__ == 'spyne.error') or n == 'Redirect':
            continue
        params = [p for p in list(inspect.signature(k.__init__).parameters.values())[1:]
                  if p.default is inspect.Parameter.empty and p.kind in (p.POSITIONAL_ONLY, p.POSITIONAL_OR_KEYWORD)]
        try:
            out.append((n, k(*['x' for _ in params])))
        except Exception:
            continue
    return out


DOCUMENTED_STATUS = {'Client.RequestTooLong': HTTP_413, 'Client.ResourceNotFound': HTTP_404, 'Client.RequestNotAllowed': HTTP_405,
                     'Client.InvalidCredentialsError': HTTP_401}


def _mk_every_error(name, factory, always_500):
    @obligation('C09.classify_every_error.%s' % name,
                targets=['spyne.protocol._outbase:OutProtocolBase.fault_to_http_response_code'],
                bounded="every Fault class defined in spyne.error (12, found by introspection), one instance each",
                desc="the status of each of the package's own fault classes is the documented one for its fault code: 413 / "
                     "404 / 405 / 401 for the four dedicated codes, 400 for any other Client code, 500 otherwise; always 500 "
                     "for SOAP")
    def ob(c):
        prot = factory()
        errs = _every_error()
        c.check('fault_classes_found', len(errs) >= 10, detail=[n for n, _ in errs])
        n = c.choose(list(range(len(errs))), 'fault_class')
        cname, f = errs[n]
        out = c.run(prot.fault_to_http_response_code, f)
        c.check('returns', out.returned, detail=(cname, repr(out)))
        if not out.returned:
            return
        code = f.faultcode
        if always_500:
            want = HTTP_500
        elif code in DOCUMENTED_STATUS:
            want = DOCUMENTED_STATUS[code]
        elif code == 'Client' or code.startswith('Client.'):
            want = HTTP_400
        else:
            want = HTTP_500
        c.check('documented_status_for_the_fault_code', out.value == want, detail=(cname, code, out.value, want))
    return ob


for _n, _f, _s in (('OutProtocolBase', OutProtocolBase, False), ('HttpRpc', HttpRpc, False), ('JsonDocument', JsonDocument, False),
                   ('XmlDocument', XmlDocument, False), ('Soap11', Soap11, True), ('Soap12', Soap12, True)):
    _mk_every_error(_n, _f, _s)


def _expected_status(family, fault):
    if family.startswith('soap'):
        return '500'
    for cls, st in DEDICATED:
        if isinstance(fault, cls):
            return st[:3]
    if fault.faultcode == 'Client' or fault.faultcode.startswith('Client.'):
        return '400'
    return '500'


def _norm_detail(family, d):
    """XML carries text only: leaves are compared as text there, as typed values elsewhere."""
    if isinstance(d, dict):
        return {k: _norm_detail(family, v) for k, v in d.items()}
    if family in ('soap11', 'soap12', 'xml') and d is not None:
        return str(d)
    return d


def _mk_pipeline(family):
    @obligation('C09.pipeline.%s' % family, targets=['spyne.application:Application.process_request',
                                                      'spyne.server.wsgi:WsgiApplication.handle_error'],
                desc="a Fault raised by user code (or by a method_call/method_return_object listener) reaches the client "
                     "with the same code, message and detail, the return value is not sent, the HTTP status is the "
                     "documented one; any other exception yields Server/'Internal Error' and no part of the exception "
                     "appears in the response or in the context's error",
                assumptions=["one concrete service; faults with fixed representative codes (arbitrary codes are covered "
                             "by the C09.classify and C09.serialise obligations)",
                             "return_traceback_in_unhandled_exceptions() has not been called"])
    def ob(c):
        failing = c.choose([None, ('app', 'method_call', 'fault'), ('service', 'method_call', 'other'),
                            ('method', 'method_return_object', 'fault'), ('app', 'method_return_object', 'other')],
                           'failing_listener')
        h = Harness(c, family, failing=failing)
        h.server_fault_detail = {}
        seen = {}

        def grab(ctx):
            seen['ctx'] = ctx
        grab._pyvc_native = True
        h.app.event_manager.add_listener('method_exception_object', grab)
        out = h.run_wsgi('valid')
        c.check('callable_returns', out.returned, detail=repr(out))
        if not out.returned:
            return
        sr = [t for t in c.trace if t[0] == 'start_response']
        body = b''.join(t[1] for t in c.trace if t[0] == 'chunk' and isinstance(t[1], bytes))
        status = sr[0][1] if sr else ''
        headers = sr[0][2] if sr else []
        fault_expected = h.the_fault is not None or h.the_exception is not None
        doc = None
        try:
            doc = faultdoc.decode_fault(family, body)
        except Exception as e:
            c.check('response_decodes', False, detail=repr(e))
            return
        c.check('fault_document_iff_fault', (doc is not None) == fault_expected, detail=(doc, body[:200]))
        leak = SECRET.encode() in body or any(SECRET in k or SECRET in v for k, v in headers) or SECRET in status
        c.check('no_secret_in_response', not leak, detail=body[:300])
        c.check('no_exception_type_in_response', b'RuntimeError' not in body and b'Traceback' not in body, detail=body[:300])
        if not fault_expected or doc is None:
            if not fault_expected:
                c.check('success_status_200', status.startswith('200'), detail=status)
            return
        ctx = seen.get('ctx')
        c.check('context_seen', ctx is not None)
        if h.the_exception is not None:
            # non-Fault: generic fault, nothing of the exception anywhere
            c.check('generic_code', doc['faultcode'] == 'Server', detail=doc)
            c.check('generic_string', doc['faultstring'] == 'Internal Error', detail=doc)
            c.check('generic_no_detail', doc['detail'] in (None, '', {}), detail=doc)
            c.check('status_500', status.startswith('500'), detail=status)
            if ctx is not None:
                err = ctx.out_error
                c.check('out_error_is_fresh_generic_fault', type(err) is Fault and err.faultcode == 'Server' and
                        err.faultstring == 'Internal Error' and err.detail is None and err is not h.the_exception,
                        detail=repr(err))
                c.check('exception_not_reachable_from_fault', all(v is not h.the_exception for v in vars(err).values())
                        and err.__cause__ is None and not (err.args and SECRET in repr(err.args)), detail=repr(vars(err)))
        else:
            f = h.the_fault
            if ctx is not None:
                c.check('out_error_is_the_raised_fault', ctx.out_error is f, detail=repr(ctx.out_error))
            c.check('code_intact', doc['faultcode'] == f.faultcode, detail=(doc['faultcode'], f.faultcode))
            c.check('string_intact', doc['faultstring'] == f.faultstring, detail=(doc['faultstring'], f.faultstring))
            c.check('detail_intact', _norm_detail(family, doc['detail'] or None) == _norm_detail(family, f.detail or None),
                    detail=(doc['detail'], f.detail))
            if family not in ('soap11', 'soap12', 'xml', 'httprpc'):
                # typed documents tell an empty detail from no detail: a detail that was given is present
                c.check('detail_presence_intact', (doc['detail'] is None) == (f.detail is None), detail=(doc['detail'], f.detail))
            c.check('status_documented', status[:3] == _expected_status(family, f), detail=(status, f.faultcode))
        c.check('return_value_not_sent', not doc['extra'] and b'mResult' not in body and b'mResponse' not in body,
                detail=(doc['extra'], body[:200]))
    return ob


for _f in FAMILIES_ALL:
    _mk_pipeline(_f)


def _mk_switched(family):
    @obligation('C09.switched_out_protocol.%s' % family, targets=['spyne.server.wsgi:WsgiApplication.handle_error',
                                                                   'spyne.context:MethodContext.set_out_protocol'],
                bounded="the method picks another output protocol for the request (json / soap11 / xml / http, whichever "
                        "differs from the configured one) x {return, client fault, server fault, other exception}",
                desc="when the method chooses the output protocol of the request (ctx.out_protocol = ...), the fault "
                     "arrives intact in that protocol and the HTTP status is the one documented for the protocol that "
                     "writes the response (always 500 for SOAP, 400 for Client faults otherwise); other exceptions stay "
                     "generic")
    def ob(c):
        other = c.choose([f for f in ('json', 'soap11', 'xml', 'http') if f != family], 'chosen_out_protocol')
        h = Harness(c, family, user_outcomes=['return', 'client_fault', 'server_fault', 'non_fault'])
        h.switch_out = other
        out = h.run_wsgi('valid')
        c.check('callable_returns', out.returned, detail=repr(out))
        if not out.returned:
            return
        sr = [t for t in c.trace if t[0] == 'start_response']
        body = b''.join(t[1] for t in c.trace if t[0] == 'chunk' and isinstance(t[1], bytes))
        status = sr[0][1] if sr else ''
        c.check('no_secret_in_response', SECRET.encode() not in body and b'RuntimeError' not in body, detail=body[:300])
        if h.user_outcome == 'return':
            c.check('success_status_200', status.startswith('200'), detail=(status, body[:200]))
            return
        try:
            doc = faultdoc.decode_fault(other, body)
        except Exception as e:
            c.check('response_decodes_in_the_chosen_protocol', False, detail=(repr(e), body[:300]))
            return
        c.check('response_decodes_in_the_chosen_protocol', doc is not None, detail=body[:300])
        if doc is None:
            return
        if h.the_exception is not None:
            c.check('generic_fault', doc['faultcode'] == 'Server' and doc['faultstring'] == 'Internal Error', detail=doc)
            c.check('status_500', status.startswith('500'), detail=status)
        else:
            f = h.the_fault
            c.check('code_intact', doc['faultcode'] == f.faultcode, detail=(doc['faultcode'], f.faultcode))
            c.check('string_intact', doc['faultstring'] == f.faultstring, detail=(doc['faultstring'], f.faultstring))
            c.check('status_documented_for_the_writing_protocol', status[:3] == _expected_status(other, f),
                    detail=(status, other, f.faultcode))
    return ob


for _f in ('json', 'soap11', 'http', 'xml'):
    _mk_switched(_f)


HOSTILE_MESSAGES = [u'plain', u'a <word> in brackets', u'<b>bold</b> tail', u'a &amp; b', u'a & b < c > d', u'  blanks around  ',
                    u'two\nlines\tand a tab', u'unicode \u00e9 \U0001f600', u'<![CDATA[x]]>', u'&lt;escaped&gt;', u'"double" \'single\'',
                    u'<!-- comment -->', u'{curly} %s %(x)s', u'x' * 3000]
CODES = ['Client', 'Server', 'Client.Sub', 'Server.A.B.C', 'Client.with space', u'Client.\u00e9']


def _mk_messages(family):
    @obligation('C09.messages.%s' % family, targets=['spyne.protocol.xml:XmlDocument.fault_to_parent',
                                                      'spyne.protocol.soap.soap12:Soap12.fault_to_parent',
                                                      'spyne.protocol.soap.soap12:Soap12.gen_fault_codes',
                                                      'spyne.model.fault:Fault.to_dict'],
                bounded="14 message texts (markup, entities, CDATA, comments, blanks, control characters, non-BMP, format "
                        "directives, 3000 characters) x 6 fault codes (bare, one and several sub-codes, blank, non-ASCII) x 4 fault "
                        "classes (Fault, a subclass, subclasses declaring a class-level CODE)",
                desc="a Fault raised by user code reaches the client with exactly the same code and the same message text, "
                     "whatever characters they contain")
    def ob(c):
        msg = c.choose(HOSTILE_MESSAGES, 'message')
        code = c.choose(CODES, 'code')
        form = c.choose([dict, list, tuple], 'complex_as') if family in ('json', 'yaml', 'msgpack') else dict
        h = Harness(c, family, user_outcomes=['client_fault'], prot_kwargs=None if form is dict else dict(complex_as=form))
        h.fault_spec = (code, msg)
        # the class of the raised object: the library's, an application subclass, one declaring a class-level CODE
        h.fault_class = c.choose([Fault, _SubFault, _CodedFault, _CodedSub], 'fault_class')
        out = h.run_wsgi('valid')
        c.check('callable_returns', out.returned, detail=repr(out))
        if not out.returned:
            return
        body = b''.join(t[1] for t in c.trace if t[0] == 'chunk' and isinstance(t[1], bytes))
        try:
            if form is dict:
                doc = faultdoc.decode_fault(family, body)
            else:
                # positional form of a fault: one document [faultcode, faultstring, faultactor, detail]
                if family == 'json':
                    import json as _json
                    d = _json.loads(body.decode('utf8'))
                elif family == 'yaml':
                    import yaml
                    d = yaml.safe_load(body.decode('utf8'))
                else:
                    import msgpack
                    d = msgpack.unpackb(body, raw=False)
                doc = dict(faultcode=d[0], faultstring=d[1]) if isinstance(d, (list, tuple)) and len(d) == 4 else None
        except Exception as e:
            c.check('response_decodes', False, detail=(repr(e), body[:300]))
            return
        c.check('fault_document', doc is not None, detail=body[:300])
        if doc is None:
            return
        c.check('code_intact', doc['faultcode'] == code, detail=(doc['faultcode'], code, body[:400]))
        c.check('string_intact', doc['faultstring'] == msg, detail=(doc['faultstring'][:200], msg[:200]))
    return ob


for _f in FAMILIES_ALL:
    _mk_messages(_f)


def _mk_serialise(name):
    @obligation('C09.serialise.%s' % name, targets=['spyne.model.fault:Fault.' + name],
                desc="the dict/list/bytes form of a fault carries faultcode, faultstring and detail verbatim, for arbitrary "
                     "(symbolic) code and message strings",
                assumptions=["str.encode('utf8') is injective (CPython)"] if name == 'to_bytes_iterable' else [])
    def ob(c):
        code, msg = c.str('faultcode'), c.str('faultstring')
        has_detail = c.choose(2, 'has_detail')
        detail = {'k': {'n': 'v'}} if has_detail else None
        F = c.choose([Fault, _SubFault, _CodedFault, _CodedSub], 'fault_class')
        f = F('x' if not c.concrete else code, 'y' if not c.concrete else (msg or 'y'), detail=detail)
        f.faultcode, f.faultstring = code, msg
        prot = JsonDocument()
        if name == 'to_dict':
            out = c.run(Fault.to_dict, F, f, prot)
            c.check('returns', out.returned, detail=repr(out))
            if out.returned:
                d = out.value
                c.check('code', d.get('faultcode') is code if not c.concrete else d.get('faultcode') == code)
                c.check('string', d.get('faultstring') is msg if not c.concrete else d.get('faultstring') == msg)
                c.check('detail', d.get('detail') == detail)
                c.check('nothing_else', set(d) <= {'faultcode', 'faultstring', 'detail', 'faultactor'}, detail=sorted(d))
        elif name == 'to_list':
            out = c.run(Fault.to_list, F, f, prot)
            c.check('returns', out.returned, detail=repr(out))
            if out.returned:
                l = out.value
                c.check('code', l[0] is code if not c.concrete else l[0] == code)
                c.check('string', l[1] is msg if not c.concrete else l[1] == msg)
                c.check('detail', l[3] == (detail if detail is not None else ''))
                c.check('length', len(l) == 4)
    return ob


for _n in ('to_dict', 'to_list'):
    _mk_serialise(_n)
