"""C05 (a) for the temporal types: validate_native of DateTime / Date / Time == the declared range constraints,
for every value (symbolic fields) and every combination of declared bounds -- each of gt / ge / lt / le enforced,
none displacing another."""
import datetime as dt

import pytz
import z3

from pyvc.oblig import obligation
from pyvc.sym import And, Or, Not, Implies, Iff, SBool
from pyvc import timemodel as tm

from spyne.model.primitive import DateTime, Date, Time

U = pytz.utc


def _lt(a, b):
    """a < b over field tuples (ints or z3 terms) -- the reference ordering, written independently of the engine's."""
    conds = []
    eq = []
    for x, y in zip(a, b):
        x, y = tm._t(x), tm._t(y)
        conds.append(z3.And(*(eq + [x < y])))
        eq.append(x == y)
    return z3.Or(*conds)


def _fields(v):
    if isinstance(v, dt.datetime):
        return (v.year, v.month, v.day, v.hour, v.minute, v.second, v.microsecond)
    if isinstance(v, dt.date):
        return (v.year, v.month, v.day)
    if isinstance(v, dt.time):
        return (v.hour, v.minute, v.second, v.microsecond)
    return v.fields()


BOUNDS = {
    'DateTime': dict(T=DateTime, lo=dt.datetime(2020, 1, 1, 0, 0, 0, 0, U), lo2=dt.datetime(2020, 1, 10, 12, 30, 0, 5, U),
                     hi2=dt.datetime(2020, 2, 1, 0, 0, 0, 0, U), hi=dt.datetime(2020, 3, 1, 23, 59, 59, 999999, U)),
    'Date': dict(T=Date, lo=dt.date(2020, 1, 1), lo2=dt.date(2020, 1, 10), hi2=dt.date(2020, 2, 1), hi=dt.date(2020, 3, 1)),
    'Time': dict(T=Time, lo=dt.time(8, 0, 0), lo2=dt.time(9, 30, 0, 5), hi2=dt.time(16, 0, 0), hi=dt.time(17, 0, 0, 999999)),
}
# which bounds are declared: every subset that matters, including an exclusive and an inclusive bound on the same side
CONFIGS = [dict(), dict(ge='lo'), dict(gt='lo'), dict(le='hi'), dict(lt='hi'), dict(ge='lo', le='hi'), dict(gt='lo', lt='hi'),
           dict(gt='lo', ge='lo2'), dict(gt='lo2', ge='lo'), dict(lt='hi', le='hi2'), dict(lt='hi2', le='hi'),
           dict(gt='lo', ge='lo2', lt='hi', le='hi2'), dict(gt='lo2', ge='lo', lt='hi2', le='hi')]


def _mk(kind):
    B = BOUNDS[kind]

    @obligation('C05.temporal.%s.validate_native.equiv' % kind,
                targets=['spyne.model.primitive.datetime:%s.validate_native' % ('Time' if kind == 'Time' else 'DateTime')],
                desc="validate_native(v) == every declared bound holds (gt and lt strictly, ge and le inclusively), for every "
                     "value of the type (symbolic calendar / clock fields) and 13 combinations of declared bounds, including "
                     "an exclusive and an inclusive bound on the same side",
                assumptions=["bounds and values in one zone (UTC / naive): ordering = lexicographic order of the fields"])
    def ob(c):
        cfg = CONFIGS[c.choose(list(range(len(CONFIGS))), 'declared_bounds')]
        kw = {k: B[v] for k, v in cfg.items()}
        T = B['T'].customize(**kw)
        if kind == 'DateTime':
            y, m, d = c.int('year'), c.int('month'), c.int('day')
            H, M, S_, us = c.int('hour'), c.int('minute'), c.int('second'), c.int('microsecond')
            aware = c.choose([True, False], 'value_has_tzinfo')
            if c.concrete:
                try:
                    v = dt.datetime(y, m, d, H, M, S_, us, U if aware else None)
                except ValueError:
                    c.end('fields outside the value space')
            else:
                c.assume(SBool(z3.And(tm.date_ok(y.t, m.t, d.t), tm.time_ok(H.t, M.t, S_.t, us.t), y.t >= 1, y.t <= 9999)))
                v = tm.SymDateTime(y, m, d, H, M, S_, us, U if aware else None)
            vf = (y, m, d, H, M, S_, us)
        elif kind == 'Date':
            y, m, d = c.int('year'), c.int('month'), c.int('day')
            if c.concrete:
                try:
                    v = dt.date(y, m, d)
                except ValueError:
                    c.end('fields outside the value space')
            else:
                c.assume(SBool(z3.And(tm.date_ok(y.t, m.t, d.t), y.t >= 1, y.t <= 9999)))
                v = tm.SymDate(y, m, d)
            vf = (y, m, d)
        else:
            H, M, S_, us = c.int('hour'), c.int('minute'), c.int('second'), c.int('microsecond')
            if c.concrete:
                try:
                    v = dt.time(H, M, S_, us)
                except ValueError:
                    c.end('fields outside the value space')
            else:
                c.assume(SBool(tm.time_ok(H.t, M.t, S_.t, us.t)))
                v = tm.SymTime(H, M, S_, us)
            vf = (H, M, S_, us)
        out = c.run(T.validate_native, T, v)
        c.check('returns', out.returned, detail=repr(out))
        if not out.returned:
            return
        A = T.Attributes
        conds = []
        if A.gt is not None:
            conds.append(_lt(_fields(A.gt), vf))
        if A.ge is not None:
            conds.append(z3.Not(_lt(vf, _fields(A.ge))))
        if A.lt is not None:
            conds.append(_lt(vf, _fields(A.lt)))
        if A.le is not None:
            conds.append(z3.Not(_lt(_fields(A.le), vf)))
        spec = SBool(z3.And(*conds)) if conds else True
        if c.concrete:
            spec = bool(z3.simplify(z3.And(*conds))) if conds else True
        c.check('verdict_is_the_conjunction_of_the_declared_bounds', Iff(out.value, spec) if not c.concrete else
                (bool(out.value) == spec), detail=repr(out.value))
    return ob


for _k in BOUNDS:
    _mk(_k)
