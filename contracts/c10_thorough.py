"""C10, thorough tier only: every single-byte mutation (from a set of 12 edits) at every byte position of the valid
request of each protocol family.  Bounded (stated), never counted as proved; the quick tier does not run it."""
import json

from pyvc.oblig import obligation
from spec import faultdoc

from .pipeline import soap_env, SOAP11_NS, SOAP12_NS, TNS
from .c10_malformed import _run, VALID, VALID_MSGPACK, XML_ARGS, ARGS

EDITS = [('set', 0x00), ('set', 0x20), ('set', 0x22), ('set', 0x26), ('set', 0x3c), ('set', 0x3e), ('set', 0x7b),
         ('set', 0x5b), ('set', 0xff), ('set', 0x80), ('delete', None), ('duplicate', None)]


def _valid(family):
    import msgpack
    import yaml
    return {'json': (json.dumps({'m': VALID}).encode(), 'application/json'),
            'yaml': (yaml.safe_dump({'m': VALID}).encode(), 'text/yaml'),
            'msgpack': (msgpack.packb({b'm': {k.encode(): v for k, v in VALID_MSGPACK.items()}}), 'application/x-msgpack'),
            'msgpackrpc': (msgpack.packb([0, 1, 'm', [VALID_MSGPACK[k] for k, _ in ARGS]]), 'application/x-msgpack'),
            'xml': (('<tns:m xmlns:tns="%s">%s</tns:m>' % (TNS, XML_ARGS)).encode(), 'text/xml'),
            'soap11': (soap_env(SOAP11_NS, '<tns:m>%s</tns:m>' % XML_ARGS), 'text/xml'),
            'soap12': (soap_env(SOAP12_NS, '<tns:m>%s</tns:m>' % XML_ARGS), 'application/soap+xml')}[family]


def _mk(family, edit):
    how, byte = edit
    name = how if byte is None else 'set_%02x' % byte

    @obligation('C10.every_position.%s.%s' % (family, name), targets=['spyne.server.wsgi:WsgiApplication.__call__'],
                thorough_only=True,
                bounded="the edit '%s' applied at every byte position of one valid %s request (soft validation)" % (name, family),
                desc="every single-byte edit of a valid request ends in a normal response or a Client fault: nothing "
                     "escapes the WSGI callable, no Server fault, no user code for a faulted request")
    def ob(c):
        data, ctype = _valid(family)
        bad = []
        for k in range(len(data)):
            if how == 'set':
                if data[k] == byte:
                    continue
                body = data[:k] + bytes([byte]) + data[k + 1:]
            elif how == 'delete':
                body = data[:k] + data[k + 1:]
            else:
                body = data[:k + 1] + data[k:]
            out, seen, resp, calls = _run(c, family, 'soft', 'POST', '/', '', body, ctype)
            if not out.returned:
                bad.append((k, repr(out)[:160]))
                continue
            st = seen[0] if seen else ''
            try:
                doc = faultdoc.decode_fault(family, resp) if resp else None
            except Exception:
                doc = None
            if doc is not None:
                code = doc.get('faultcode') or ''
                if not (code == 'Client' or code.startswith('Client.')) or calls:
                    bad.append((k, st, code, len(calls)))
            elif not st.startswith('200'):
                bad.append((k, st, (resp or b'')[:80]))
        c.check('every_position_handled', not bad, detail=(len(bad), bad[:4]))
    return ob


for _f in ('json', 'yaml', 'msgpack', 'msgpackrpc', 'xml', 'soap11', 'soap12'):
    for _e in EDITS:
        _mk(_f, _e)
