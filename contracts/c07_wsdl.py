"""C07: WSDL/XSD are well-formed, closed and deterministic.

Determinism (ordered-iteration obligation, structural rule on every interpreted path): while the real
document builders (Wsdl11.build_interface_document, XmlSchema.build_schema_nodes and the model emitters they
call) run, every iteration they start must be over an ordered collection -- iterating a set (whose order
depends on the hash seed) inside an emitter is a violation, and a sorted(set, key=f) needs f injective on
the set.  The replay builds the documents in fresh processes under different hash seeds and compares bytes.
Closure / one-operation-per-method (bounded, labelled): for generated applications every QName reference
in the WSDL and its schemas resolves, and every exposed method has exactly one portType operation with
matching binding operation, messages and faults -- decided by an independent reference resolver."""
import datetime
import decimal
import io
import os
import subprocess
import sys

from lxml import etree

from pyvc.oblig import obligation

from spyne import Application, ServiceBase, rpc, Fault
from spyne.model.complex import ComplexModel, Array, XmlAttribute
from spyne.model.enum import Enum
from spyne.model.primitive import Integer, Unicode, Decimal, DateTime, Boolean, AnyXml
from spyne.protocol.soap import Soap11, Soap12
from spyne.interface.wsdl import Wsdl11

WSDL = 'http://schemas.xmlsoap.org/wsdl/'
XSD = 'http://www.w3.org/2001/XMLSchema'
SOAPB = 'http://schemas.xmlsoap.org/wsdl/soap/'

WHEN = datetime.datetime(2021, 3, 4, 5, 6, 7)

EMITTER_MODULES = ('spyne.interface.wsdl.wsdl11', 'spyne.interface.xml_schema._base', 'spyne.interface.xml_schema.model',
                   'spyne.interface.xml_schema.defn', 'spyne.interface._base')


def make_app(kind, services_only=False, soap='soap11'):
    """Generated applications (bounded program space)."""
    ns = ['urn:a', 'urn:b', 'urn:c', 'urn:d', 'urn:e']

    class A(ComplexModel):
        __namespace__ = ns[1]
        x = Integer
        colour = Enum('red', 'green', 'blue', type_name='Colour')

    class E(ComplexModel):
        """A class that uses the schema emitter's other features: documentation, several choice groups (members of one
        group are not adjacent), an attribute, a wildcard, a default."""
        __namespace__ = ns[2]
        first = Unicode(xml_choice_group='zulu')
        second = Integer(xml_choice_group='alpha')
        third = Unicode(xml_choice_group='mike')
        fourth = Integer(xml_choice_group='zulu')
        fifth = Unicode(xml_choice_group='bravo', doc='a documented member')
        sixth = Integer(xml_choice_group='alpha')
        att = XmlAttribute(Integer)
        hue = XmlAttribute(Enum('warm', 'cold', type_name='Hue'), ns=ns[3])       # an attribute with a namespace of its own
        plain_enum_att = XmlAttribute(Enum('on', 'off', type_name='Switch'))
        anyx = AnyXml
        dflt = Integer(default=5)
        # restricted simple types of every facet family the emitter knows
        code3 = Unicode(min_len=3, max_len=3)
        short = Unicode(max_len=5, pattern='[a-z]+')
        ranged = Integer(ge=1, le=9)
        money = Decimal(8, 2)
        open_range = Decimal(gt=0)

    class B(ComplexModel):
        __namespace__ = ns[2]
        a = A
        when = DateTime
        e = E

    class C(ComplexModel):
        __namespace__ = ns[3]
        b = B
        items = Array(A)
        name = Unicode(values=['zeta', 'alpha', 'mid', 'beta'])
        level = Unicode(values={'low', 'mid', 'high', 'top'}, type_name='Level')    # "the set of possible values"

    class D(C):
        __namespace__ = ns[4]
        extra = Decimal

    class Hdr1(ComplexModel):
        __namespace__ = ns[1]
        t = Unicode

    class Hdr2(ComplexModel):
        __namespace__ = ns[2]
        u = Unicode

    class MyFault(Fault):
        __namespace__ = ns[0]

    class OtherFault(Fault):
        __namespace__ = ns[2]

    class S1(ServiceBase):
        @rpc(A, _returns=B)
        def one(ctx, a):
            return B(a=a, when=WHEN)

        @rpc(C, D, _returns=[A, B], _in_message_name='TwoIn', _out_message_name='TwoOut', _throws=[MyFault])
        def two(ctx, c, d):
            return (d.items[0] if d is not None and d.items else A(x=0, colour='red')), (c.b if c is not None else None)

    class S2(ServiceBase):
        __in_header__ = (Hdr1, Hdr2)
        __out_header__ = (Hdr1, Hdr2)

        @rpc(Integer, _returns=Integer, _operation_name='Renamed')
        def three(ctx, i):
            if ctx.in_header is not None:
                ctx.out_header = (Hdr1(t='re:%s' % ctx.in_header[0].t), Hdr2(u='re:%s' % ctx.in_header[1].u))
            return i + 1

        @rpc(A, _returns=A, _body_style='bare')
        def bare(ctx, a):
            return a

        @rpc(Integer, _returns=D, _body_style='out_bare')
        def outbare(ctx, i):
            return D(b=B(a=A(x=i, colour='blue'), when=WHEN), items=[A(x=i + 1), A(x=i + 2, colour='green')], name='mid',
                     level='top', extra=decimal.Decimal('12.50'))

        @rpc()
        def empty(ctx):
            return None

        @rpc(Unicode, _returns=Unicode, _in_message_name='FourReq', _out_message_name='FourResp')
        def four(ctx, s):
            return s + '/4'

        @rpc(Unicode, _returns=Unicode, _in_message_name='FiveReq', _in_header=(Hdr2, Hdr1), _out_header=(Hdr2,))
        def five(ctx, s):
            h = ctx.in_header
            ctx.out_header = Hdr2(u='five')
            return '%s/%s/%s' % (s, h[0].u if h else None, h[1].t if h else None)

        @rpc(Unicode, _returns=Unicode, _in_header=(Hdr1,), _out_header=(Hdr1, Hdr2), _throws=[MyFault, Fault, OtherFault])
        def six(ctx, s):
            if s == 'fault':
                raise MyFault('Client.My', 'declared fault')
            ctx.out_header = (Hdr1(t='six1'), Hdr2(u='six2'))
            return '%s/%s' % (s, ctx.in_header.t if ctx.in_header is not None and not isinstance(ctx.in_header, (list, tuple))
                              else (ctx.in_header[0].t if ctx.in_header else None))

    class S3(ServiceBase):
        __port_types__ = ('PortX',)

        @rpc(Unicode, _returns=Unicode, _port_type='PortX')
        def ported(ctx, s):
            return s[::-1]
    services = {'small': [S1], 'multi': [S1, S2], 'ports': [S1, S2, S3], 'multi_reversed': [S2, S1],
                'other_xsd_prefix': [S1, S2]}[kind]
    if services_only:
        return services, ns[0]
    SP = Soap11 if soap == 'soap11' else Soap12
    app = Application(services, ns[0], name='GenApp', in_protocol=SP(), out_protocol=SP())
    if kind == 'other_xsd_prefix':
        # an application may bind the XML Schema namespace to another prefix than the library's default
        itf = app.interface
        del itf.nsmap['xs']
        itf.nsmap['xsd'] = XSD
        itf.prefmap[XSD] = 'xsd'
    return app


def _q(elt, value):
    """Clark name for a QName attribute value, using the in-scope namespaces of elt."""
    if value is None:
        return None
    prefix, _, local = value.rpartition(':')
    ns = elt.nsmap.get(prefix or None)
    return '{%s}%s' % (ns, local), ns


def reference_check(doc):
    """Independent resolver: returns the list of problems found in a WSDL 1.1 document."""
    problems = []
    root = etree.fromstring(doc)
    tns = root.get('targetNamespace')
    schemas = root.findall('.//{%s}schema' % XSD)
    types, elements = set(), set()
    for s in schemas:
        sns = s.get('targetNamespace')
        for e in s:
            if not isinstance(e.tag, str):
                continue
            n = e.get('name')
            if e.tag in ('{%s}complexType' % XSD, '{%s}simpleType' % XSD):
                if ('{%s}%s' % (sns, n)) in types:
                    problems.append('duplicate type %s in %s' % (n, sns))
                types.add('{%s}%s' % (sns, n))
            elif e.tag == '{%s}element' % XSD:
                if ('{%s}%s' % (sns, n)) in elements:
                    problems.append('duplicate element %s in %s' % (n, sns))
                elements.add('{%s}%s' % (sns, n))
    schema_ns = set(s.get('targetNamespace') for s in schemas)
    for s in schemas:
        imported = set(i.get('namespace') for i in s.findall('{%s}import' % XSD))
        sns = s.get('targetNamespace')
        for e in s.iter():
            if not isinstance(e.tag, str):
                continue
            for attr in ('type', 'base', 'ref', 'itemType'):
                v = e.get(attr)
                if v is None:
                    continue
                clark, ns_ = _q(e, v)
                if ns_ is None:
                    problems.append('unbound prefix in %s=%s' % (attr, v))
                elif ns_ == XSD:
                    continue
                elif attr == 'ref':
                    if clark not in elements:
                        problems.append('unresolved element ref %s' % v)
                elif clark not in types:
                    problems.append('unresolved %s %s' % (attr, v))
                elif ns_ != sns and ns_ not in imported:
                    problems.append('schema %s uses %s without importing %s' % (sns, v, ns_))
        for i in s.findall('{%s}import' % XSD):
            if i.get('namespace') not in schema_ns and i.get('namespace') != XSD and not i.get('schemaLocation'):
                problems.append('import of unknown namespace %s' % i.get('namespace'))
    W = lambda n: '{%s}%s' % (WSDL, n)
    messages = {}
    for m in root.findall(W('message')):
        if m.get('name') in messages:
            problems.append('duplicate message %s' % m.get('name'))
        messages[m.get('name')] = m
        for p in m.findall(W('part')):
            for attr, pool in (('element', elements), ('type', types)):
                v = p.get(attr)
                if v is not None:
                    clark, ns_ = _q(p, v)
                    if ns_ != XSD and clark not in pool:
                        problems.append('message %s part refers to missing %s %s' % (m.get('name'), attr, v))
    port_ops = {}
    port_types = {}
    for pt in root.findall(W('portType')):
        port_types[pt.get('name')] = pt
        for op in pt.findall(W('operation')):
            port_ops.setdefault(op.get('name'), []).append((pt.get('name'), op))
            for child in op:
                if child.tag in (W('input'), W('output'), W('fault')):
                    clark, ns_ = _q(child, child.get('message'))
                    if ns_ != tns or clark.split('}')[1] not in messages:
                        problems.append('operation %s refers to missing message %s' % (op.get('name'), child.get('message')))
    bindings = {}
    for b in root.findall(W('binding')):
        bindings[b.get('name')] = b
        clark, ns_ = _q(b, b.get('type'))
        ptn = clark.split('}')[1]
        if ns_ != tns or ptn not in port_types:
            problems.append('binding %s refers to missing portType %s' % (b.get('name'), b.get('type')))
            continue
        pt_ops = set(o.get('name') for o in port_types[ptn].findall(W('operation')))
        b_ops = [o.get('name') for o in b.findall(W('operation'))]
        if sorted(b_ops) != sorted(pt_ops):
            problems.append('binding %s operations %s differ from portType operations %s' % (b.get('name'), sorted(b_ops),
                                                                                            sorted(pt_ops)))
        for h in b.iter('{%s}header' % SOAPB):
            clark, ns_ = _q(h, h.get('message'))
            mname = clark.split('}')[1]
            if ns_ != tns or mname not in messages:
                problems.append('soap:header refers to missing message %s' % h.get('message'))
            elif h.get('part') not in [p.get('name') for p in messages[mname].findall(W('part'))]:
                problems.append('soap:header refers to missing part %s of %s' % (h.get('part'), mname))
    for svc in root.findall(W('service')):
        for port in svc.findall(W('port')):
            clark, ns_ = _q(port, port.get('binding'))
            if ns_ != tns or clark.split('}')[1] not in bindings:
                problems.append('port %s refers to missing binding %s' % (port.get('name'), port.get('binding')))
    return problems, port_ops, messages


def _first_diff(a, b):
    if a is None or b is None:
        return (a is None, b is None)
    import difflib
    pp = lambda d: etree.tostring(etree.fromstring(d), pretty_print=True).decode().splitlines()
    try:
        return [l for l in difflib.unified_diff(pp(a), pp(b), lineterm='', n=0)][:8]
    except Exception as e:
        return repr(e)


def _mk_closure(kind, soap='soap11'):
    @obligation('C07.closure.%s' % kind + ('' if soap == 'soap11' else '.' + soap), targets=['spyne.interface.wsdl.wsdl11:Wsdl11.build_interface_document',
                                                  'spyne.interface.xml_schema._base:XmlSchema.build_schema_nodes'],
                bounded="generated application '%s' (services with custom operation/message names, two in/out headers, "
                        "declared faults, port types, five namespaces, inheritance across namespaces, all body styles)" % kind,
                desc="the WSDL is well-formed; every QName reference (type, base, element, message, binding, port, header "
                     "part) resolves in the document or to an XSD builtin; cross-namespace references are imported; every "
                     "exposed method appears as exactly one portType operation with matching binding operation and messages")
    def ob(c):
        o0 = c.run(make_app, kind, False, soap)
        # the generated application uses documented features only: it must be constructible
        c.check('application_builds', o0.returned, detail=repr(o0)[:600])
        if not o0.returned:
            return
        app = o0.value
        w = Wsdl11(app.interface)
        out = c.run(w.build_interface_document, 'http://example.com/')
        c.check('build_returns', out.returned, detail=repr(out))
        if not out.returned:
            return
        doc = w.get_interface_document()
        # the SOAP binding extension elements belong to the namespace of the SOAP version the application speaks
        WSDL_SOAP = {'soap11': 'http://schemas.xmlsoap.org/wsdl/soap/', 'soap12': 'http://schemas.xmlsoap.org/wsdl/soap12/'}
        try:
            bind_ns = sorted(set(e.tag.split('}')[0][1:] for e in etree.fromstring(doc).iter()
                                 if isinstance(e.tag, str) and e.tag.endswith('}binding') and 'wsdl/soap' in e.tag))
            c.check('soap_binding_namespace_is_the_protocol_version', bind_ns == [WSDL_SOAP[soap]], detail=(soap, bind_ns))
        except etree.XMLSyntaxError:
            pass
        try:
            problems, port_ops, messages = reference_check(doc)
        except etree.XMLSyntaxError as e:
            c.check('well_formed', False, detail=repr(e))
            return
        c.check('well_formed', True)
        c.check('all_references_resolve', not problems, detail=problems[:6])
        for s in app.services:
            for name, d in s.public_methods.items():
                opname = d.operation_name
                c.check('one_operation_per_method', len(port_ops.get(opname, [])) == 1,
                        detail=(opname, [p for p, _ in port_ops.get(opname, [])]))
        try:
            schemas = etree.fromstring(doc).findall('.//{%s}schema' % XSD)
            c.check('schemas_present', len(schemas) >= 1)
        except Exception as e:
            c.check('schemas_present', False, detail=repr(e))
        # "building the documents repeatedly": the same builder again, a second builder on the same interface, and a
        # builder that runs after the validation schema was generated from it, all give the same bytes
        again = c.run(w.build_interface_document, 'http://example.com/')
        c.check('rebuild_is_identical', again.returned and w.get_interface_document() == doc,
                detail=_first_diff(doc, w.get_interface_document()) if again.returned else repr(again))
        w2 = Wsdl11(app.interface)
        o2 = c.run(w2.build_interface_document, 'http://example.com/')
        c.check('second_builder_is_identical', o2.returned and w2.get_interface_document() == doc,
                detail=_first_diff(doc, w2.get_interface_document()) if o2.returned else repr(o2))
        from spyne.interface.xml_schema import XmlSchema
        xs = XmlSchema(app.interface)
        o3 = c.run(xs.build_validation_schema)
        w3 = Wsdl11(app.interface)
        o4 = c.run(w3.build_interface_document, 'http://example.com/')
        c.check('embedded_schemas_compile', o3.returned, detail=repr(o3)[:600])
        c.check('builder_after_validation_schema_is_identical', o3.returned and o4.returned and
                w3.get_interface_document() == doc, detail=_first_diff(doc, w3.get_interface_document()) if o4.returned
                else (repr(o3), repr(o4)))
    return ob


for _k in ('small', 'multi', 'ports', 'multi_reversed', 'other_xsd_prefix'):
    _mk_closure(_k)
_mk_closure('ports', 'soap12')


_BUILD_SNIPPET = r'''
import sys, logging, warnings
warnings.filterwarnings('ignore'); logging.disable(logging.CRITICAL)
sys.path.insert(0, %r)
junk = [type('J%%d' %% i, (object,), {}) for i in range(%d)]          # shifts the addresses of later objects
from contracts.c07_wsdl import make_app
junk2 = [type('K%%d' %% i, (object,), {}) for i in range(%d)]
from spyne.interface.wsdl import Wsdl11
try:
    app = make_app(%r)
except BaseException:
    import traceback
    traceback.print_exc()
    sys.exit(3)                    # the generated application itself is wrong: a checker error, not a verdict
w = Wsdl11(app.interface)
w.build_interface_document('http://example.com/')
sys.stdout.buffer.write(w.get_interface_document())
'''

FRESH_RUNS = ((0, 0), (1, 0), (2, 14), (3, 35), (0, 63), (1, 91), (2, 70), (3, 105))     # (hash seed, junk objects)


def build_in_fresh_processes(kind, runs=FRESH_RUNS):
    """The document built by the real code in fresh interpreter processes, one per (hash seed, memory layout)."""
    root = os.path.dirname(os.path.dirname(os.path.abspath(__file__)))
    outs = []
    for i in range(0, len(runs), 8):
        outs.extend(_build_batch(kind, runs[i:i + 8], root))
    return outs


def _build_batch(kind, runs, root):
    procs = []
    for seed, junk in runs:
        env = dict(os.environ, PYTHONHASHSEED=str(seed), PYTHONDONTWRITEBYTECODE='1')
        procs.append(subprocess.Popen([sys.executable, '-c', _BUILD_SNIPPET % (root, junk, junk, kind)], stdout=subprocess.PIPE,
                                      stderr=subprocess.PIPE, env=env))
    outs = []
    for p in procs:
        o, e = p.communicate(timeout=300)
        if p.returncode == 3:
            raise RuntimeError("generated application could not be declared: %s" % e.decode('utf8', 'replace')[-800:])
        outs.append(o)
    return outs


def _mk_determinism(kind):
    @obligation('C07.determinism.%s' % kind, targets=['spyne.interface.wsdl.wsdl11:Wsdl11.build_interface_document',
                                                      'spyne.interface.xml_schema._base:XmlSchema.build_schema_nodes',
                                                      'spyne.interface._base:Interface.populate_interface',
                                                      'spyne.util.toposort:toposort2'],
                bounded="three adversarial iteration orders for every set (sorted, reversed, rotated by half) on the generated "
                        "application '%s'; 8 fresh processes (4 hash seeds x memory layouts) in the native replay" % kind,
                desc="order-independence obligation: the interface is populated and the documents are built by the "
                     "interpreted real code with an adversary choosing the iteration order of every set (a set's order is "
                     "unspecified, so each choice is a legal execution); all choices must yield byte-identical documents, "
                     "and every sorted(set, key=f) must have f injective on the set.  Replay: the document is built in "
                     "fresh processes under four hash seeds and shifted memory layouts and compared byte for byte",
                assumptions=["dict and list preserve insertion order (language guarantee)",
                             "lxml serialisation is a function of the tree"])
    def ob(c):
        if c.concrete:
            runs = FRESH_RUNS if not c.thorough else FRESH_RUNS + tuple((s_, 7 * s_ + 3) for s_ in range(4, 36))
            docs = build_in_fresh_processes(kind, runs)
            same = len(set(docs)) == 1 and len(docs[0]) > 0
            c.check('build_returns', len(docs[0]) > 0)
            c.check('identical_under_every_set_order', same,
                    detail="documents built in fresh processes under (hash seed, junk objects allocated first) = %r: %d distinct "
                           "byte strings (lengths %r)" % (runs, len(set(docs)), [len(d) for d in docs]))
            return
        bad_sort, set_loops = [], set()

        def hook(obj, info):
            if isinstance(obj, tuple) and len(obj) == 3 and obj[0] == 'sorted':
                _, items, key = obj
                if isinstance(items, (set, frozenset)) and len(items) > 1:
                    keys = [key(x) for x in items]
                    if len(set(map(repr, keys))) != len(keys):
                        bad_sort.append("%s sorted() key not injective on a set of %d" % (info and info.qualname, len(keys)))
            elif isinstance(obj, (set, frozenset)) and len(obj) > 1 and info is not None:
                set_loops.add('%s:%s' % (info.module, info.qualname))
        c.interp.iter_hook = hook
        docs = {}
        for order in ('sorted', 'reversed', 'rotated'):
            c.interp.set_order = order
            services, tns = make_app(kind, services_only=True)
            a = c.run(Application, services, tns, name='GenApp', in_protocol=Soap11(), out_protocol=Soap11())
            c.check('build_returns', a.returned, detail=repr(a))
            if not a.returned:
                return
            w = Wsdl11(a.value.interface)
            out = c.run(w.build_interface_document, 'http://example.com/')
            c.check('build_returns', out.returned, detail=repr(out))
            if not out.returned:
                return
            docs[order] = w.get_interface_document()
        c.interp.set_order = None
        c.emit('set_iterations', sorted(set_loops))
        if os.environ.get('C07_DEBUG'):
            print('SET LOOPS', sorted(set_loops))
        diff = ''
        if len(set(docs.values())) != 1:
            import difflib
            pp = lambda d: etree.tostring(etree.fromstring(d), pretty_print=True).decode().splitlines()
            diff = [l for l in difflib.unified_diff(pp(docs['sorted']), pp(docs['reversed']), lineterm='', n=0)][:12] or \
                   [l for l in difflib.unified_diff(pp(docs['sorted']), pp(docs['rotated']), lineterm='', n=0)][:12]
        c.check('identical_under_every_set_order', len(set(docs.values())) == 1 and not bad_sort, detail=(diff, bad_sort[:4]))
    return ob


for _k in ('multi', 'ports'):
    _mk_determinism(_k)


# ---------------------------------------------------------------------------------------------------------
# a SOAP client generated from the WSDL alone by an independent toolkit (zeep)
def _calls(kind):
    """(operation, keyword arguments for the foreign client, soap headers or None, expected body, expected headers)."""
    a = dict(x=5, colour='green')
    b = dict(a=a, when=WHEN)
    c_ = dict(b=b, items=dict(A=[dict(x=1, colour='red'), dict(x=2, colour=None)]), name='alpha', level='low')
    d_ = dict(c_, items=dict(A=[dict(x=9, colour='blue')]), extra=decimal.Decimal('3.25'))
    hdrs = [('Hdr1', dict(t='tok')), ('Hdr2', dict(u='usr'))]
    calls = [
        ('one', dict(a=a), None, dict(a=a, when=WHEN), None),
        ('two', dict(c=c_, d=d_), None, dict(twoResult0=dict(x=9, colour='blue'), twoResult1=b), None),
    ]
    if kind in ('multi', 'ports', 'multi_reversed', 'other_xsd_prefix'):
        calls += [
            ('Renamed', dict(i=41), hdrs, 42, dict(Hdr1=dict(t='re:tok'), Hdr2=dict(u='re:usr'))),
            ('bare', a, hdrs, a, None),
            ('outbare', dict(i=7), hdrs, dict(b=dict(a=dict(x=7, colour='blue'), when=WHEN),
                                             items=dict(A=[dict(x=8, colour=None), dict(x=9, colour='green')]), name='mid',
                                             level='top', extra=decimal.Decimal('12.50')), None),
            ('empty', dict(), hdrs, None, None),
            ('four', dict(s='abc'), hdrs, 'abc/4', None),
            ('five', dict(s='abc'), [('Hdr2', dict(u='usr')), ('Hdr1', dict(t='tok'))], 'abc/usr/tok', dict(Hdr2=dict(u='five'))),
            ('six', dict(s='abc'), [('Hdr1', dict(t='tok'))], 'abc/tok', dict(Hdr1=dict(t='six1'), Hdr2=dict(u='six2'))),
        ]
    if kind == 'ports':
        calls.append(('ported', dict(s='abc'), None, 'cba', None))
    return calls


def _plain(o):
    """zeep values -> plain dict/list/scalars."""
    import zeep.helpers
    o = zeep.helpers.serialize_object(o, dict)
    return o


def _matches(got, want):
    """want is matched member-wise; members absent from want must be None/absent in got."""
    if isinstance(want, dict):
        if not isinstance(got, dict):
            return False
        for k, v in want.items():
            if not _matches(got.get(k), v):
                return False
        return all(got.get(k) in (None, [], {}) for k in got if k not in want)
    if isinstance(want, list):
        return isinstance(got, list) and len(got) == len(want) and all(_matches(g, w) for g, w in zip(got, want))
    if isinstance(want, datetime.datetime) and isinstance(got, datetime.datetime):
        return got.replace(tzinfo=None) == want.replace(tzinfo=None)
    return got == want


def _mk_client(kind, soap='soap11'):
    @obligation('C07.foreign_client.%s' % kind + ('' if soap == 'soap11' else '.' + soap), targets=['spyne.interface.wsdl.wsdl11:Wsdl11.build_interface_document',
                                                         'spyne.server.wsgi:WsgiApplication.__call__',
                                                         'spyne.protocol.soap.soap11:Soap11.create_in_document',
                                                         'spyne.protocol.soap.soap11:Soap11.serialize'],
                bounded="generated application '%s'; one call per exposed method with nested / inherited / enumerated / "
                        "array arguments and SOAP headers; zeep 4.3 is the independent toolkit" % kind,
                desc="a SOAP client generated from the ?wsdl document alone by an independent toolkit builds requests the "
                     "real server (interpreted WsgiApplication with lxml schema validation) accepts, and decodes the "
                     "server's replies -- bodies, output headers and declared faults -- to the values returned",
                assumptions=["zeep implements WSDL 1.1 / SOAP 1.1 document-literal correctly"])
    def ob(c):
        import zeep
        from zeep.transports import Transport
        from spyne.server.wsgi import WsgiApplication
        services, tns = make_app(kind, services_only=True)
        SP = Soap11 if soap == 'soap11' else Soap12
        app = Application(services, tns, name='GenApp', in_protocol=SP(validator='lxml'), out_protocol=SP())
        wsgi = WsgiApplication(app)
        url = 'http://localhost:7789/app'

        def call_wsgi(method, body=b'', ctype='text/xml; charset=utf-8' if soap == 'soap11' else 'application/soap+xml; charset=utf-8',
                      qs='', soapaction=None):
            env = {'REQUEST_METHOD': method, 'PATH_INFO': '/app', 'QUERY_STRING': qs, 'SERVER_NAME': 'localhost',
                   'SERVER_PORT': '7789', 'HTTP_HOST': 'localhost:7789', 'wsgi.url_scheme': 'http',
                   'wsgi.input': io.BytesIO(body), 'CONTENT_LENGTH': str(len(body)), 'CONTENT_TYPE': ctype}
            if soapaction is not None:
                env['HTTP_SOAPACTION'] = soapaction
            st = {}

            def sr(status, hdrs, exc_info=None):
                st['status'] = status
                st['headers'] = dict(hdrs)
            sr._pyvc_native = True
            out = c.run(wsgi, env, sr)
            if not out.returned:
                return None, {}, repr(out).encode()
            chunks = []
            c.run(lambda: chunks.extend(list(out.value)))
            return st.get('status'), st.get('headers', {}), b''.join(chunks)
        status, _, wsdl = call_wsgi('GET', qs='wsdl')
        c.check('wsdl_served', bool(status) and status.startswith('200'), detail=(status, wsdl[:300]))
        if not (status and status.startswith('200')):
            return

        class T(Transport):
            def load(self, u):
                if u == url + '?wsdl':
                    return wsdl
                raise IOError("no network: %r" % u)
        try:
            client = zeep.Client(url + '?wsdl', transport=T())
        except Exception as e:
            c.check('client_generated_from_wsdl', False, detail=repr(e)[:600])
            return
        c.check('client_generated_from_wsdl', True)

        class Resp(object):
            def __init__(self, status, headers, content):
                self.status_code = int(status.split()[0])
                self.headers = headers
                self.content = content
                self.encoding = 'utf-8'
                self.text = content.decode('utf8')
        by_op = {}
        for sname, svc in client.wsdl.services.items():
            for pname, port in svc.ports.items():
                for opname in port.binding._operations:
                    by_op.setdefault(opname, []).append((sname, pname, port))
        for opname, kwargs, hdrs, want, want_hdrs in _calls(kind):
            c.check('operation_offered[%s]' % opname, len(by_op.get(opname, [])) >= 1, detail=(opname, sorted(by_op)))
            if not by_op.get(opname):
                continue
            sname, pname, port = by_op[opname][0]
            proxy = client.bind(sname, pname)
            kw = dict(kwargs)
            if hdrs:
                hv = []
                for hname, hval in hdrs:
                    el = [e for e in client.wsdl.types.elements if e.name == hname]
                    hv.append(el[0](**hval))
                kw['_soapheaders'] = hv
            try:
                envelope = client.create_message(proxy, opname, **kw)
            except Exception as e:
                c.check('request_built[%s]' % opname, False, detail=repr(e)[:600])
                continue
            c.check('request_built[%s]' % opname, True)
            body = etree.tostring(envelope)
            status, headers, resp = call_wsgi('POST', body, soapaction='"%s"' % opname)
            c.check('server_accepts[%s]' % opname, bool(status) and status.startswith('200'),
                    detail=(status, resp[:500], body[:800]))
            if not (status and status.startswith('200')):
                continue
            try:
                got = port.binding.process_reply(client, port.binding.get(opname), Resp(status, headers, resp))
            except Exception as e:
                c.check('reply_decoded[%s]' % opname, False, detail=(repr(e)[:400], resp[:600]))
                continue
            got = _plain(got)
            if want_hdrs is not None:
                gb = got.get('body') if isinstance(got, dict) and 'body' in got else got
                gh = got.get('header') if isinstance(got, dict) and 'header' in got else None
                if isinstance(gb, dict) and len(gb) == 1 and not isinstance(want, dict):
                    (gb,) = gb.values()
                c.check('reply_decoded[%s]' % opname, _matches(gb, want), detail=(gb, want, resp[:600]))
                c.check('reply_headers_decoded[%s]' % opname, _matches(gh, want_hdrs), detail=(gh, want_hdrs, resp[:800]))
            else:
                gb = got.get('body') if isinstance(got, dict) and set(got) == {'header', 'body'} else got
                if isinstance(gb, dict) and len(gb) == 1 and not isinstance(want, dict):
                    (gb,) = gb.values()
                c.check('reply_decoded[%s]' % opname, _matches(gb, want), detail=(gb, want, resp[:600]))
        if kind != 'small':
            sname, pname, port = by_op['six'][0]
            envelope = client.create_message(client.bind(sname, pname), 'six', s='fault')
            status, headers, resp = call_wsgi('POST', etree.tostring(envelope), soapaction='"six"')
            try:
                port.binding.process_reply(client, port.binding.get('six'), Resp(status, headers, resp))
                c.check('declared_fault_decoded', False, detail=(status, resp[:400]))
            except zeep.exceptions.Fault as f:
                if soap == 'soap12':
                    # SOAP 1.2 spells the Client family "Sender" and carries the rest of the code as sub-codes
                    subs = [str(getattr(x, 'localname', x)) for x in (getattr(f, 'subcodes', None) or [])]
                    c.check('declared_fault_decoded', f.code.endswith('Sender') and f.message == 'declared fault' and
                            (not subs or subs == ['My']), detail=(f.code, subs, f.message))
                else:
                    c.check('declared_fault_decoded', f.code.endswith('Client.My') and f.message == 'declared fault',
                            detail=(f.code, f.message))
            except Exception as e:
                c.check('declared_fault_decoded', False, detail=repr(e)[:400])
    return ob


for _k in ('small', 'ports', 'other_xsd_prefix'):
    _mk_client(_k)
_mk_client('ports', 'soap12')


# ---------------------------------------------------------------------------------------------------------
# prefix allocation (deductive: every namespace string, every counter value)
def _mk_prefix(tname, extra):
    @obligation('C07.prefix_allocation.%s' % tname, targets=['spyne.interface._base:Interface.get_namespace_prefix'],
                desc="for every namespace string and every value of the allocation counter: a namespace already in the "
                     "table keeps its prefix and nothing changes; a new namespace gets a prefix 's<n>' that was bound to "
                     "nothing before, both tables gain exactly that one entry (prefmap[ns] = pref, nsmap[pref] = ns), "
                     "every earlier binding is untouched -- so a prefix never names two namespaces in one document",
                assumptions=["table contents: the standard prefix table plus %r" % (extra,)])
    def ob(c):
        from pyvc.sym import And, Or, Not, Implies
        app = make_app('small')
        itf = app.interface
        for p, n in extra:
            itf.nsmap[p] = n
            itf.prefmap[n] = p
        ns = c.str('namespace')
        k = c.int('counter')
        c.assume(k >= 0)
        setattr(itf, '_Interface__ns_counter', k)
        nsmap0, prefmap0 = dict(itf.nsmap), dict(itf.prefmap)
        out = c.run(itf.get_namespace_prefix, ns)
        c.check('returns', out.returned, detail=repr(out))
        if not out.returned:
            return
        pref = out.value
        known = Or(*[ns == n for n in prefmap0])
        if len(itf.prefmap) == len(prefmap0):
            c.check('known_namespace_iff_unchanged', known, detail=(len(itf.prefmap), len(prefmap0)))
            c.check('tables_unchanged', itf.prefmap == prefmap0 and itf.nsmap == nsmap0)
            c.check('known_prefix_returned', Or(*[And(ns == n, pref == p) for n, p in prefmap0.items()]), detail=repr(pref))
            return
        c.check('known_namespace_iff_unchanged', Not(known))
        c.check('one_entry_each', len(itf.prefmap) == len(prefmap0) + 1 and len(itf.nsmap) == len(nsmap0) + 1,
                detail=(len(itf.prefmap), len(itf.nsmap)))
        c.check('earlier_bindings_untouched', all(itf.prefmap.get(n) is p for n, p in prefmap0.items()) and
                all(itf.nsmap.get(p) is n for p, n in nsmap0.items()))
        newp = [p for p in itf.nsmap if p not in nsmap0]
        newn = [n for n in itf.prefmap if n not in prefmap0]
        c.check('one_entry_each', len(newp) == 1 and len(newn) == 1, detail=(newp, newn))
        if len(newp) == 1 and len(newn) == 1:
            c.check('new_binding_is_the_request', And(newn[0] == ns, itf.nsmap[newp[0]] == ns, newp[0] == pref,
                                                      itf.prefmap[newn[0]] == pref), detail=(newp, newn, pref))
            c.check('prefix_was_free', And(*[Not(pref == p) for p in nsmap0]), detail=repr(pref))
        k1 = getattr(itf, '_Interface__ns_counter')
        c.check('counter_advances', k1 > k, detail=repr(k1))
    return ob


_mk_prefix('fresh', ())
_mk_prefix('with_gaps', (('s0', 'urn:p0'), ('s1', 'urn:p1'), ('s3', 'urn:p3'), ('s4', 'urn:p4')))


@obligation('C07.binding_namespace', targets=['spyne.const.xml:get_binding_ns'],
            desc="for every protocol type string: the WSDL binding extension namespace is the SOAP 1.2 one iff the type "
                 "mentions soap12, otherwise the HTTP one iff it mentions http, otherwise the SOAP 1.1 one -- in particular a "
                 "type that mentions both soap and soap12 (which is what a Soap12 application reports) is bound to SOAP 1.2",
            assumptions=["substring tests are z3 sequence containment"])
def binding_namespace(c):
    from pyvc.sym import And, Or, Not, Implies, Iff, Contains
    from spyne.const import xml as X
    t = c.str('protocol_type')
    out = c.run(X.get_binding_ns, t)
    c.check('returns', out.returned, detail=repr(out))
    if not out.returned:
        return
    has12, hashttp = (Contains(t, 'soap12'), Contains(t, 'http')) if not c.concrete else ('soap12' in t, 'http' in t)
    c.check('soap12_iff_mentioned', Iff(has12, out.value == X.WSDL11_SOAP12), detail=repr(out.value))
    c.check('http_iff_mentioned_and_not_soap12', Iff(And(Not(has12), hashttp), out.value == X.WSDL11_HTTP), detail=repr(out.value))
    c.check('soap11_otherwise', Iff(And(Not(has12), Not(hashttp)), out.value == X.WSDL11_SOAP), detail=repr(out.value))
    # what the protocols of the package report as their type
    for P, want in ((Soap11, X.WSDL11_SOAP), (Soap12, X.WSDL11_SOAP12)):
        o2 = c.run(X.get_binding_ns, P.type if isinstance(getattr(P, 'type', None), (str, frozenset, set, list, tuple)) else 'soap')
        c.check('package_protocols[%s]' % P.__name__, o2.returned and o2.value == want, detail=(repr(getattr(P, 'type', None)), repr(o2)))
