"""C07: WSDL/XSD are well-formed, closed and deterministic.

Determinism (ordered-iteration obligation, structural rule on every interpreted path): while the real
document builders (Wsdl11.build_interface_document, XmlSchema.build_schema_nodes and the model emitters they
call) run, every iteration they start must be over an ordered collection -- iterating a set (whose order
depends on the hash seed) inside an emitter is a violation, and a sorted(set, key=f) needs f injective on
the set.  The replay builds the documents in fresh processes under different hash seeds and compares bytes.
Closure / one-operation-per-method (bounded, labelled): for generated applications every QName reference
in the WSDL and its schemas resolves, and every exposed method has exactly one portType operation with
matching binding operation, messages and faults -- decided by an independent reference resolver."""
import os
import subprocess
import sys

from lxml import etree

from pyvc.oblig import obligation

from spyne import Application, ServiceBase, rpc, Fault
from spyne.model.complex import ComplexModel, Array
from spyne.model.enum import Enum
from spyne.model.primitive import Integer, Unicode, Decimal, DateTime, Boolean
from spyne.protocol.soap import Soap11
from spyne.interface.wsdl import Wsdl11

WSDL = 'http://schemas.xmlsoap.org/wsdl/'
XSD = 'http://www.w3.org/2001/XMLSchema'
SOAPB = 'http://schemas.xmlsoap.org/wsdl/soap/'

EMITTER_MODULES = ('spyne.interface.wsdl.wsdl11', 'spyne.interface.xml_schema._base', 'spyne.interface.xml_schema.model',
                   'spyne.interface.xml_schema.defn', 'spyne.interface._base')


def make_app(kind, services_only=False):
    """Generated applications (bounded program space)."""
    ns = ['urn:a', 'urn:b', 'urn:c', 'urn:d', 'urn:e']

    class A(ComplexModel):
        __namespace__ = ns[1]
        x = Integer
        colour = Enum('red', 'green', 'blue', type_name='Colour')

    class B(ComplexModel):
        __namespace__ = ns[2]
        a = A
        when = DateTime

    class C(ComplexModel):
        __namespace__ = ns[3]
        b = B
        items = Array(A)
        name = Unicode(values=['zeta', 'alpha', 'mid', 'beta'])
        level = Unicode(values={'low', 'mid', 'high', 'top'}, type_name='Level')    # "the set of possible values"

    class D(C):
        __namespace__ = ns[4]
        extra = Decimal

    class Hdr1(ComplexModel):
        __namespace__ = ns[1]
        t = Unicode

    class Hdr2(ComplexModel):
        __namespace__ = ns[2]
        u = Unicode

    class MyFault(Fault):
        __namespace__ = ns[0]

    class S1(ServiceBase):
        @rpc(A, _returns=B)
        def one(ctx, a):
            pass

        @rpc(C, D, _returns=[A, B], _in_message_name='TwoIn', _out_message_name='TwoOut', _throws=[MyFault])
        def two(ctx, c, d):
            pass

    class S2(ServiceBase):
        __in_header__ = (Hdr1, Hdr2)
        __out_header__ = (Hdr1, Hdr2)

        @rpc(Integer, _returns=Integer, _operation_name='Renamed')
        def three(ctx, i):
            pass

        @rpc(A, _returns=A, _body_style='bare')
        def bare(ctx, a):
            pass

        @rpc(Integer, _returns=D, _body_style='out_bare')
        def outbare(ctx, i):
            pass

        @rpc()
        def empty(ctx):
            pass

    class S3(ServiceBase):
        __port_types__ = ('PortX',)

        @rpc(Unicode, _returns=Unicode, _port_type='PortX')
        def ported(ctx, s):
            pass
    services = {'small': [S1], 'multi': [S1, S2], 'ports': [S1, S2, S3], 'multi_reversed': [S2, S1]}[kind]
    if services_only:
        return services, ns[0]
    return Application(services, ns[0], name='GenApp', in_protocol=Soap11(), out_protocol=Soap11())


def _q(elt, value):
    """Clark name for a QName attribute value, using the in-scope namespaces of elt."""
    if value is None:
        return None
    prefix, _, local = value.rpartition(':')
    ns = elt.nsmap.get(prefix or None)
    return '{%s}%s' % (ns, local), ns


def reference_check(doc):
    """Independent resolver: returns the list of problems found in a WSDL 1.1 document."""
    problems = []
    root = etree.fromstring(doc)
    tns = root.get('targetNamespace')
    schemas = root.findall('.//{%s}schema' % XSD)
    types, elements = set(), set()
    for s in schemas:
        sns = s.get('targetNamespace')
        for e in s:
            if not isinstance(e.tag, str):
                continue
            n = e.get('name')
            if e.tag in ('{%s}complexType' % XSD, '{%s}simpleType' % XSD):
                if ('{%s}%s' % (sns, n)) in types:
                    problems.append('duplicate type %s in %s' % (n, sns))
                types.add('{%s}%s' % (sns, n))
            elif e.tag == '{%s}element' % XSD:
                if ('{%s}%s' % (sns, n)) in elements:
                    problems.append('duplicate element %s in %s' % (n, sns))
                elements.add('{%s}%s' % (sns, n))
    schema_ns = set(s.get('targetNamespace') for s in schemas)
    for s in schemas:
        imported = set(i.get('namespace') for i in s.findall('{%s}import' % XSD))
        sns = s.get('targetNamespace')
        for e in s.iter():
            if not isinstance(e.tag, str):
                continue
            for attr in ('type', 'base', 'ref', 'itemType'):
                v = e.get(attr)
                if v is None:
                    continue
                clark, ns_ = _q(e, v)
                if ns_ is None:
                    problems.append('unbound prefix in %s=%s' % (attr, v))
                elif ns_ == XSD:
                    continue
                elif attr == 'ref':
                    if clark not in elements:
                        problems.append('unresolved element ref %s' % v)
                elif clark not in types:
                    problems.append('unresolved %s %s' % (attr, v))
                elif ns_ != sns and ns_ not in imported:
                    problems.append('schema %s uses %s without importing %s' % (sns, v, ns_))
        for i in s.findall('{%s}import' % XSD):
            if i.get('namespace') not in schema_ns and i.get('namespace') != XSD and not i.get('schemaLocation'):
                problems.append('import of unknown namespace %s' % i.get('namespace'))
    W = lambda n: '{%s}%s' % (WSDL, n)
    messages = {}
    for m in root.findall(W('message')):
        if m.get('name') in messages:
            problems.append('duplicate message %s' % m.get('name'))
        messages[m.get('name')] = m
        for p in m.findall(W('part')):
            for attr, pool in (('element', elements), ('type', types)):
                v = p.get(attr)
                if v is not None:
                    clark, ns_ = _q(p, v)
                    if ns_ != XSD and clark not in pool:
                        problems.append('message %s part refers to missing %s %s' % (m.get('name'), attr, v))
    port_ops = {}
    port_types = {}
    for pt in root.findall(W('portType')):
        port_types[pt.get('name')] = pt
        for op in pt.findall(W('operation')):
            port_ops.setdefault(op.get('name'), []).append((pt.get('name'), op))
            for child in op:
                if child.tag in (W('input'), W('output'), W('fault')):
                    clark, ns_ = _q(child, child.get('message'))
                    if ns_ != tns or clark.split('}')[1] not in messages:
                        problems.append('operation %s refers to missing message %s' % (op.get('name'), child.get('message')))
    bindings = {}
    for b in root.findall(W('binding')):
        bindings[b.get('name')] = b
        clark, ns_ = _q(b, b.get('type'))
        ptn = clark.split('}')[1]
        if ns_ != tns or ptn not in port_types:
            problems.append('binding %s refers to missing portType %s' % (b.get('name'), b.get('type')))
            continue
        pt_ops = set(o.get('name') for o in port_types[ptn].findall(W('operation')))
        b_ops = [o.get('name') for o in b.findall(W('operation'))]
        if sorted(b_ops) != sorted(pt_ops):
            problems.append('binding %s operations %s differ from portType operations %s' % (b.get('name'), sorted(b_ops),
                                                                                            sorted(pt_ops)))
        for h in b.iter('{%s}header' % SOAPB):
            clark, ns_ = _q(h, h.get('message'))
            mname = clark.split('}')[1]
            if mname not in messages:
                problems.append('soap:header refers to missing message %s' % h.get('message'))
            elif h.get('part') not in [p.get('name') for p in messages[mname].findall(W('part'))]:
                problems.append('soap:header refers to missing part %s of %s' % (h.get('part'), mname))
    for svc in root.findall(W('service')):
        for port in svc.findall(W('port')):
            clark, ns_ = _q(port, port.get('binding'))
            if ns_ != tns or clark.split('}')[1] not in bindings:
                problems.append('port %s refers to missing binding %s' % (port.get('name'), port.get('binding')))
    return problems, port_ops, messages


def _mk_closure(kind):
    @obligation('C07.closure.%s' % kind, targets=['spyne.interface.wsdl.wsdl11:Wsdl11.build_interface_document',
                                                  'spyne.interface.xml_schema._base:XmlSchema.build_schema_nodes'],
                bounded="generated application '%s' (services with custom operation/message names, two in/out headers, "
                        "declared faults, port types, five namespaces, inheritance across namespaces, all body styles)" % kind,
                desc="the WSDL is well-formed; every QName reference (type, base, element, message, binding, port, header "
                     "part) resolves in the document or to an XSD builtin; cross-namespace references are imported; every "
                     "exposed method appears as exactly one portType operation with matching binding operation and messages")
    def ob(c):
        app = make_app(kind)
        w = Wsdl11(app.interface)
        out = c.run(w.build_interface_document, 'http://example.com/')
        c.check('build_returns', out.returned, detail=repr(out))
        if not out.returned:
            return
        doc = w.get_interface_document()
        try:
            problems, port_ops, messages = reference_check(doc)
        except etree.XMLSyntaxError as e:
            c.check('well_formed', False, detail=repr(e))
            return
        c.check('well_formed', True)
        c.check('all_references_resolve', not problems, detail=problems[:6])
        for s in app.services:
            for name, d in s.public_methods.items():
                opname = d.operation_name
                c.check('one_operation_per_method', len(port_ops.get(opname, [])) == 1,
                        detail=(opname, [p for p, _ in port_ops.get(opname, [])]))
        if c.concrete or True:
            try:
                schemas = etree.fromstring(doc).findall('.//{%s}schema' % XSD)
                c.check('schemas_present', len(schemas) >= 1)
            except Exception as e:
                c.check('schemas_present', False, detail=repr(e))
    return ob


for _k in ('small', 'multi', 'ports', 'multi_reversed'):
    _mk_closure(_k)


_BUILD_SNIPPET = r'''
import sys, logging, warnings
warnings.filterwarnings('ignore'); logging.disable(logging.CRITICAL)
sys.path.insert(0, %r)
junk = [type('J%%d' %% i, (object,), {}) for i in range(%d)]          # shifts the addresses of later objects
from contracts.c07_wsdl import make_app
junk2 = [type('K%%d' %% i, (object,), {}) for i in range(%d)]
from spyne.interface.wsdl import Wsdl11
app = make_app(%r)
w = Wsdl11(app.interface)
w.build_interface_document('http://example.com/')
sys.stdout.buffer.write(w.get_interface_document())
'''

FRESH_RUNS = ((0, 0), (1, 0), (2, 14), (3, 35), (0, 63), (1, 91), (2, 70), (3, 105))     # (hash seed, junk objects)


def build_in_fresh_processes(kind, runs=FRESH_RUNS):
    """The document built by the real code in fresh interpreter processes, one per (hash seed, memory layout)."""
    root = os.path.dirname(os.path.dirname(os.path.abspath(__file__)))
    procs = []
    for seed, junk in runs:
        env = dict(os.environ, PYTHONHASHSEED=str(seed), PYTHONDONTWRITEBYTECODE='1')
        procs.append(subprocess.Popen([sys.executable, '-c', _BUILD_SNIPPET % (root, junk, junk, kind)], stdout=subprocess.PIPE,
                                      stderr=subprocess.DEVNULL, env=env))
    return [p.communicate(timeout=300)[0] for p in procs]


def _mk_determinism(kind):
    @obligation('C07.determinism.%s' % kind, targets=['spyne.interface.wsdl.wsdl11:Wsdl11.build_interface_document',
                                                      'spyne.interface.xml_schema._base:XmlSchema.build_schema_nodes',
                                                      'spyne.interface._base:Interface.populate_interface',
                                                      'spyne.util.toposort:toposort2'],
                bounded="three adversarial iteration orders for every set (sorted, reversed, rotated by half) on the generated "
                        "application '%s'; 8 fresh processes (4 hash seeds x memory layouts) in the native replay" % kind,
                desc="order-independence obligation: the interface is populated and the documents are built by the "
                     "interpreted real code with an adversary choosing the iteration order of every set (a set's order is "
                     "unspecified, so each choice is a legal execution); all choices must yield byte-identical documents, "
                     "and every sorted(set, key=f) must have f injective on the set.  Replay: the document is built in "
                     "fresh processes under four hash seeds and shifted memory layouts and compared byte for byte",
                assumptions=["dict and list preserve insertion order (language guarantee)",
                             "lxml serialisation is a function of the tree"])
    def ob(c):
        if c.concrete:
            docs = build_in_fresh_processes(kind)
            same = len(set(docs)) == 1 and len(docs[0]) > 0
            c.check('build_returns', len(docs[0]) > 0)
            c.check('identical_under_every_set_order', same,
                    detail="documents built in fresh processes under (hash seed, junk objects allocated first) = %r: %d distinct "
                           "byte strings (lengths %r)" % (FRESH_RUNS, len(set(docs)), [len(d) for d in docs]))
            return
        bad_sort, set_loops = [], set()

        def hook(obj, info):
            if isinstance(obj, tuple) and len(obj) == 3 and obj[0] == 'sorted':
                _, items, key = obj
                if isinstance(items, (set, frozenset)) and len(items) > 1:
                    keys = [key(x) for x in items]
                    if len(set(map(repr, keys))) != len(keys):
                        bad_sort.append("%s sorted() key not injective on a set of %d" % (info and info.qualname, len(keys)))
            elif isinstance(obj, (set, frozenset)) and len(obj) > 1 and info is not None:
                set_loops.add('%s:%s' % (info.module, info.qualname))
        c.interp.iter_hook = hook
        docs = {}
        for order in ('sorted', 'reversed', 'rotated'):
            c.interp.set_order = order
            services, tns = make_app(kind, services_only=True)
            a = c.run(Application, services, tns, name='GenApp', in_protocol=Soap11(), out_protocol=Soap11())
            c.check('build_returns', a.returned, detail=repr(a))
            if not a.returned:
                return
            w = Wsdl11(a.value.interface)
            out = c.run(w.build_interface_document, 'http://example.com/')
            c.check('build_returns', out.returned, detail=repr(out))
            if not out.returned:
                return
            docs[order] = w.get_interface_document()
        c.interp.set_order = None
        c.emit('set_iterations', sorted(set_loops))
        if os.environ.get('C07_DEBUG'):
            print('SET LOOPS', sorted(set_loops))
        diff = ''
        if len(set(docs.values())) != 1:
            import difflib
            pp = lambda d: etree.tostring(etree.fromstring(d), pretty_print=True).decode().splitlines()
            diff = [l for l in difflib.unified_diff(pp(docs['sorted']), pp(docs['reversed']), lineterm='', n=0)][:12] or \
                   [l for l in difflib.unified_diff(pp(docs['sorted']), pp(docs['rotated']), lineterm='', n=0)][:12]
        c.check('identical_under_every_set_order', len(set(docs.values())) == 1 and not bad_sort, detail=(diff, bad_sort[:4]))
    return ob


for _k in ('multi', 'ports'):
    _mk_determinism(_k)
