"""C10: hostile or malformed requests end in a client fault, never a crash.

(1) leaf level, symbolic: every primitive decoder, on an arbitrary string (z3 string) or on any literal that
    matches its pattern with unconstrained digit fields (token string), either returns or raises a
    Client-family Fault -- every call that may raise something else must be guarded (may-raise models of the
    stdlib calls fork on each documented exception);
(2) structure level, bounded: the real pipeline on type-directed mutations of valid requests (every JSON value
    kind at every argument position, element deletion/duplication/nesting errors for XML, every prefix
    truncation) never lets an exception escape, never answers with a Server fault, and never runs the user
    function for a request answered with a fault."""
import datetime as dt
import io
import json
import re

import z3

from pyvc.oblig import obligation
from pyvc.sym import And, Or, Not, SStr, SBool
from pyvc.text import FmtStr, Lit, Dec
from spec import faultdoc

from spyne import Application, ServiceBase, rpc, Fault
from spyne.error import ValidationError
from spyne.model.binary import ByteArray
from spyne.model.complex import ComplexModel, Array
from spyne.model.primitive import (Integer, Integer32, Decimal, Double, Boolean, DateTime, Date, Time, Duration, Uuid,
                                   Unicode, AnyUri, UnsignedInteger8)
from spyne.protocol import ProtocolBase
from spyne.protocol.soap import Soap11
from spyne.protocol.xml import XmlDocument
from spyne.server.wsgi import WsgiApplication

from .pipeline import protocols, soap_env, SOAP11_NS, SOAP12_NS, TNS, FAMILIES_ALL

LEAF_TYPES = {'Integer': Integer, 'Integer32': Integer32, 'UnsignedInteger8': UnsignedInteger8, 'Decimal': Decimal,
              'Double': Double, 'Boolean': Boolean, 'DateTime': DateTime, 'Date': Date, 'Time': Time,
              'Duration': Duration, 'Uuid': Uuid, 'Unicode': Unicode, 'AnyUri': AnyUri,
              'ByteArray_base64': ByteArray(encoding='base64'), 'ByteArray_hex': ByteArray(encoding='hex'),
              'ByteArray_urlsafe': ByteArray(encoding='urlsafe_base64')}

ASSUME = ["raise-sets of the stdlib calls as documented: int()/float() -> ValueError; Decimal() -> InvalidOperation; "
          "date/time/datetime constructors -> ValueError; b64decode/unhexlify -> binascii.Error (a ValueError); "
          "uuid.UUID -> ValueError; strptime -> ValueError (pyvc/extern.py)"]


def _is_client_fault(e):
    return isinstance(e, Fault) and isinstance(e.faultcode, str) and (e.faultcode == 'Client' or
                                                                      e.faultcode.startswith('Client.'))


def _native_kind_ok(tname, v):
    """v (a real or a symbolic value) is None or of the native type of the model named tname."""
    import datetime as _dt
    import decimal as _dec
    import uuid as _uuid
    from pyvc import timemodel as tm
    from pyvc.sym import SInt, SBool, SReal, SStr, SBytes
    if v is None:
        return True
    from pyvc.sym import SOpaque
    if isinstance(v, SOpaque):
        native = {'Integer': int, 'Decimal': _dec.Decimal, 'Double': float, 'Boolean': bool, 'Unicode': str, 'AnyUri': str,
                  'Date': _dt.date, 'DateTime': _dt.datetime, 'Time': _dt.time, 'Duration': _dt.timedelta, 'Uuid': _uuid.UUID}
        for k, t in native.items():
            if tname.startswith(k) and (k != 'Date' or not tname.startswith('DateTime')) and (k != 'Integer' or True):
                return v.pytype is t
        return False
    base = tname.split('_')[0]
    table = {
        'Integer': lambda: (isinstance(v, int) and not isinstance(v, bool)) or (isinstance(v, SInt) and not isinstance(v, SBool)),
        'Decimal': lambda: isinstance(v, (_dec.Decimal, SReal)),
        'Double': lambda: isinstance(v, (float, SReal)) or (isinstance(v, int) and not isinstance(v, bool)),
        'Boolean': lambda: isinstance(v, (bool, SBool)),
        'Unicode': lambda: isinstance(v, (str, FmtStr)) or (isinstance(v, SStr) and not isinstance(v, SBytes)),
        'AnyUri': lambda: isinstance(v, (str, FmtStr)) or (isinstance(v, SStr) and not isinstance(v, SBytes)),
        'Date': lambda: (isinstance(v, _dt.date) and not isinstance(v, _dt.datetime)) or type(v) is tm.SymDate,
        'DateTime': lambda: isinstance(v, (_dt.datetime, tm.SymDateTime)),
        'Time': lambda: isinstance(v, (_dt.time, tm.SymTime)),
        'Duration': lambda: isinstance(v, (_dt.timedelta, tm.SymTimedelta)),
        'Uuid': lambda: isinstance(v, _uuid.UUID),
        'ByteArray': lambda: isinstance(v, (bytes, SBytes)) or (isinstance(v, (list, tuple)) and all(
            isinstance(x, (bytes, SBytes, memoryview)) for x in v)),
    }
    for k, f in table.items():
        if base.startswith(k) and (k != 'Date' or not base.startswith('DateTime')):
            return f()
    return True


def _mk_leaf_arbitrary(pname, P, tname):
    @obligation('C10.leaf.%s.%s.arbitrary_text' % (pname, tname),
                targets=['spyne.protocol._inbase:InProtocolBase.from_unicode'],
                desc="decoder of the type on an arbitrary string: returns, or raises a Client-family Fault; nothing else "
                     "escapes", assumptions=ASSUME)
    def ob(c):
        from pyvc import extern
        prot = P()
        T = LEAF_TYPES[tname]
        s = c.str('text')
        if not c.concrete:
            extern.install_may_raise(c)
        out = c.run(prot.from_unicode, T, s)
        c.check('returns_or_client_fault', out.returned or _is_client_fault(out.exc), detail=repr(out))
        if out.returned:
            c.check('result_has_the_native_type', _native_kind_ok(tname, out.value), detail=(tname, type(out.value).__name__))
    return ob


for _pn, _P in (('ProtocolBase', ProtocolBase), ('Soap11', Soap11)):
    for _t in LEAF_TYPES:
        _mk_leaf_arbitrary(_pn, _P, _t)


def _two(c, name):
    v = c.int(name)
    c.assume(And(v >= 0, v <= 99))
    return v


def _mk_leaf_literal(pname, P, tname):
    @obligation('C10.leaf.%s.%s.pattern_literal' % (pname, tname),
                targets=['spyne.protocol._inbase:InProtocolBase.from_unicode'],
                desc="decoder on every literal that matches the type's pattern with unconstrained digit fields (month 13, "
                     "hour 25, 31 February, offset 99:99 ...): returns, or raises a Client-family Fault",
                assumptions=ASSUME)
    def ob(c):
        prot = P()
        T = LEAF_TYPES[tname]
        if c.concrete:
            y, mo, d, H, M, S_ = [c.int(n) for n in ('year', 'month', 'day', 'hour', 'minute', 'second')]
            zh, zm, fr = c.int('zone_hours'), c.int('zone_minutes'), c.int('fraction')
        else:
            y = c.int('year')
            c.assume(And(y >= 0, y <= 9999))
            mo, d, H, M, S_, zh, zm = [_two(c, n) for n in ('month', 'day', 'hour', 'minute', 'second', 'zone_hours',
                                                            'zone_minutes')]
            fr = c.int('fraction')
        w = c.choose([0, 1, 6], 'fraction_digits')
        zone = c.choose(['', 'Z', '+', '-'], 'zone')
        if not c.concrete and w:
            c.assume(And(fr >= 0, fr < 10 ** w))
        date_t = [Dec(getattr(y, 't', y), 4, True), Lit('-'), Dec(getattr(mo, 't', mo), 2, True), Lit('-'),
                  Dec(getattr(d, 't', d), 2, True)] if not c.concrete else None
        if c.concrete:
            date_s = '%04d-%02d-%02d' % (y, mo, d)
            time_s = '%02d:%02d:%02d' % (H, M, S_) + (('.' + str(fr).zfill(w)) if w else '')
            zone_s = 'Z' if zone == 'Z' else ('' if not zone else '%s%02d:%02d' % (zone, zh, zm))
            text = {'DateTime': date_s + 'T' + time_s + zone_s, 'Date': date_s + zone_s, 'Time': time_s}[tname]
        else:
            time_t = [Dec(H.t, 2, True), Lit(':'), Dec(M.t, 2, True), Lit(':'), Dec(S_.t, 2, True)]
            if w:
                time_t += [Lit('.'), Dec(fr.t, w, True)]
            zone_t = [Lit('Z')] if zone == 'Z' else ([] if not zone else [Lit(zone), Dec(zh.t, 2, True), Lit(':'),
                                                                           Dec(zm.t, 2, True)])
            text = FmtStr({'DateTime': date_t + [Lit('T')] + time_t + zone_t, 'Date': date_t + zone_t,
                           'Time': time_t}[tname], str)
        out = c.run(prot.from_unicode, T, text)
        c.check('returns_or_client_fault', out.returned or _is_client_fault(out.exc), detail=repr(out))
    return ob


for _pn, _P in (('ProtocolBase', ProtocolBase), ('Soap11', Soap11)):
    for _t in ('DateTime', 'Date', 'Time'):
        _mk_leaf_literal(_pn, _P, _t)


@obligation('C10.leaf.ProtocolBase.Duration.pattern_literal',
            targets=['spyne.protocol._inbase:InProtocolBase.duration_from_unicode'],
            desc="duration decoder on every literal -PnYnMnDTnHnMn.fS with arbitrary non-negative field values (ten "
                 "billion days ...): returns, or raises a Client-family Fault", assumptions=ASSUME)
def duration_literal(c):
    prot = ProtocolBase()
    names = ['years', 'months', 'days', 'hours', 'minutes', 'seconds']
    vals = {}
    for n in names:
        vals[n] = c.int(n)
        if not c.concrete:
            c.assume(vals[n] >= 0)
    w = c.choose([0, 3], 'fraction_digits')
    fr = c.int('fraction')
    if not c.concrete and w:
        c.assume(And(fr >= 0, fr < 10 ** w))
    neg = c.choose(['', '-'], 'sign')
    if c.concrete:
        if any(v < 0 for v in vals.values()):
            c.end('outside the domain')
        text = neg + 'P%dY%dM%dDT%dH%dM%d' % tuple(vals[n] for n in names) + (('.' + str(fr).zfill(w)) if w else '') + 'S'
    else:
        toks = [Lit(neg + 'P'), Dec(vals['years'].t), Lit('Y'), Dec(vals['months'].t), Lit('M'), Dec(vals['days'].t),
                Lit('DT'), Dec(vals['hours'].t), Lit('H'), Dec(vals['minutes'].t), Lit('M'), Dec(vals['seconds'].t)]
        if w:
            toks += [Lit('.'), Dec(fr.t, w, True)]
        toks.append(Lit('S'))
        text = FmtStr(toks, str)
    out = c.run(prot.from_unicode, Duration, text)
    c.check('returns_or_client_fault', out.returned or _is_client_fault(out.exc), detail=repr(out))


# ------------------------------------------------------------------------------------------ structure level

class Inner(ComplexModel):
    __namespace__ = TNS
    x = Integer
    s = Unicode


ARGS = [('i', Integer), ('u', Unicode), ('d', Date), ('t', DateTime), ('b', ByteArray), ('a', Array(Integer)),
        ('c', Inner), ('n', Decimal), ('f', Double), ('o', Boolean), ('r', Duration), ('z', Uuid)]
VALID = {'i': 5, 'u': 'x', 'd': '2020-02-29', 't': '2020-02-29T10:00:00', 'b': 'YWJj', 'a': [1, 2], 'c': {'x': 1, 's': 'y'},
         'n': '1.5', 'f': 1.5, 'o': True, 'r': 'PT1S', 'z': '12345678-1234-5678-1234-567812345678'}
VALID_MSGPACK = dict(VALID, b=b'abc')          # MessagePack carries binary data as bin, not as base64 text
KINDS = [None, True, 7, 2.5, 'text', '', [], [1, 'x'], {}, {'k': 1}, [[1]], 10 ** 30, float('nan'), float('-inf'), 'NaN']


def _svc(calls):
    def m(ctx, i, u, d, t, b, a, c, n, f, o, r, z):
        calls.append(1)
        return 1
    m._pyvc_native = True
    return type(ServiceBase)('Svc', (ServiceBase,), {'m': rpc(*[t for _, t in ARGS], _returns=Integer)(m)})


def _run(c, family, validator, method, path, qs, body, ctype, extra_env=None, prot_kw=None):
    calls = []
    inp, outp = protocols(family, validator, **(prot_kw or {}))
    app = Application([_svc(calls)], TNS, name='VApp', in_protocol=inp, out_protocol=outp)
    wsgi = WsgiApplication(app)
    env = {'REQUEST_METHOD': method, 'PATH_INFO': path, 'QUERY_STRING': qs, 'SERVER_NAME': 'h', 'SERVER_PORT': '80',
           'wsgi.url_scheme': 'http', 'wsgi.input': io.BytesIO(body), 'CONTENT_TYPE': ctype,
           'CONTENT_LENGTH': str(len(body))}
    env.update(extra_env or {})
    seen = []

    def sr(status, headers, exc_info=None):
        seen.append(status)
    sr._pyvc_native = True
    out = c.run(wsgi, env, sr)
    resp = None
    if out.returned:
        chunks = []
        o2 = c.run(lambda: chunks.extend(list(out.value)))
        if o2.raised:
            out = o2
        resp = b''.join(x for x in chunks if isinstance(x, bytes))
    return out, seen, resp, calls


def _verdict(c, family, out, seen, resp, calls, detail):
    c.check('no_exception_escapes', out.returned, detail=(repr(out), detail))
    if not out.returned:
        return
    status = seen[0] if seen else ''
    doc = None
    try:
        doc = faultdoc.decode_fault(family, resp) if resp else None
    except Exception:
        doc = None
    if doc is not None:
        code = doc.get('faultcode') or ''
        c.check('fault_is_client_family', code == 'Client' or code.startswith('Client.'), detail=(status, resp[:200], detail))
        c.check('user_function_not_run_on_fault', not calls, detail=detail)
        if not family.startswith('soap'):
            c.check('status_4xx', status[:1] == '4', detail=(status, detail))
    else:
        c.check('normal_response_status_200', status.startswith('200'), detail=(status, (resp or b'')[:200], detail))


def _mk_kinds(family, validator):
    @obligation('C10.kinds.%s.%s' % (family, validator or 'none'), targets=['spyne.server.wsgi:WsgiApplication.__call__'],
                bounded="12 argument positions x 15 value kinds (null, bool, int, float, text, empty text, lists, maps, "
                        "nested list, huge int, NaN, -inf, the text 'NaN') + wrong top-level shapes",
                desc="dict documents: any JSON/YAML/MessagePack value kind at any argument position ends in a normal "
                     "response or a Client fault; no exception escapes; the user function does not run for a faulted "
                     "request")
    def ob(c):
        pos = c.choose([a for a, _ in ARGS] + ['__top__', '__args__'], 'position')
        kind = c.choose(list(range(len(KINDS))), 'value_kind')
        v = KINDS[kind]
        args = dict(VALID_MSGPACK if family.startswith('msgpack') else VALID)
        if pos == '__top__':
            doc = v
        elif pos == '__args__':
            doc = {'m': v}
        else:
            args[pos] = v
            doc = {'m': args}
        if family == 'json':
            body, ctype = json.dumps(doc).encode(), 'application/json'
        elif family == 'yaml':
            import yaml
            body, ctype = yaml.safe_dump(doc).encode(), 'text/yaml'
        else:
            import msgpack

            def enc(o):
                if isinstance(o, dict):
                    return {(k.encode() if isinstance(k, str) else k): enc(x) for k, x in o.items()}
                if isinstance(o, list):
                    return [enc(x) for x in o]
                if isinstance(o, int) and not isinstance(o, bool) and not (-2 ** 63 <= o < 2 ** 64):
                    return str(o)
                return o
            if family == 'msgpackrpc':
                if pos == '__top__':
                    doc = v
                elif pos == '__args__':
                    doc = [0, 1, 'm', v]
                else:
                    doc = [0, 1, 'm', [args[k] for k, _ in ARGS]]
            body, ctype = msgpack.packb(enc(doc)), 'application/x-msgpack'
        out, seen, resp, calls = _run(c, family, validator, 'POST', '/', '', body, ctype)
        _verdict(c, family, out, seen, resp, calls, detail=(pos, repr(v)))
    return ob


for _f in ('json', 'yaml', 'msgpack', 'msgpackrpc'):
    for _v in ('soft', None):
        _mk_kinds(_f, _v)


PROTOCOL_OPTIONS = [dict(ignore_wrappers=False), dict(complex_as=list), dict(polymorphic=True),
                    dict(ignore_wrappers=False, polymorphic=True)]


def _mk_kinds_options(family):
    @obligation('C10.kinds_options.%s' % family, targets=['spyne.protocol.dictdoc.hier:HierDictDocument._doc_to_object',
                                                          'spyne.protocol.dictdoc.hier:HierDictDocument._from_dict_value'],
                bounded="4 non-default protocol configurations (wrapper keys kept, objects as lists, polymorphic, both) x 6 "
                        "positions (integer, array, object, its field, the argument map, the document) x 15 value kinds, "
                        "soft validation; objects spelled the way the configuration expects",
                desc="dict documents under the protocol's other configurations: any value kind at any position ends in a "
                     "normal response or a Client fault")
    def ob(c):
        opts = c.choose(PROTOCOL_OPTIONS, 'protocol_options')
        pos = c.choose(['i', 'a', 'c', 'c.x', '__args__', '__top__'], 'position')
        v = KINDS[c.choose(list(range(len(KINDS))), 'value_kind')]
        args = dict(VALID_MSGPACK if family == 'msgpack' else VALID)
        inner = dict(args['c'])
        if pos == 'c.x':
            inner['x'] = v
        if opts.get('complex_as') is list:
            args['c'] = [inner['x'], inner['s']]
        elif opts.get('ignore_wrappers') is False:
            args['c'] = {'Inner': inner}
        else:
            args['c'] = inner
        if pos in ('i', 'a', 'c'):
            args[pos] = v
        doc = v if pos == '__top__' else ({'m': v} if pos == '__args__' else {'m': args})
        if family == 'json':
            body, ctype = json.dumps(doc).encode(), 'application/json'
        elif family == 'yaml':
            import yaml
            body, ctype = yaml.safe_dump(doc).encode(), 'text/yaml'
        else:
            import msgpack

            def enc(o):
                if isinstance(o, dict):
                    return {(k.encode() if isinstance(k, str) else k): enc(x) for k, x in o.items()}
                if isinstance(o, list):
                    return [enc(x) for x in o]
                if isinstance(o, int) and not isinstance(o, bool) and not (-2 ** 63 <= o < 2 ** 64):
                    return str(o)
                return o
            body, ctype = msgpack.packb(enc(doc)), 'application/x-msgpack'
        out, seen, resp, calls = _run(c, family, 'soft', 'POST', '/', '', body, ctype, prot_kw=opts)
        if opts.get('complex_as') is list:
            # a fault document of this configuration is positional ([code, string, actor, detail]): only "no escape" and
            # "no user code on a non-200 answer" are decided here
            c.check('no_exception_escapes', out.returned, detail=(repr(out), pos, repr(v)))
            st = seen[0] if seen else ''
            c.check('user_function_not_run_on_fault', st.startswith('200') or not calls, detail=(st, pos, repr(v)))
            c.check('status_200_or_4xx', st[:1] in ('2', '4'), detail=(st, (resp or b'')[:200], pos, repr(v)))
        else:
            _verdict(c, family, out, seen, resp, calls, detail=(sorted(opts), pos, repr(v)))
    return ob


for _f in ('json', 'yaml', 'msgpack'):
    _mk_kinds_options(_f)


XML_ARGS = ('<tns:i>5</tns:i><tns:u>x</tns:u><tns:d>2020-02-29</tns:d><tns:t>2020-02-29T10:00:00</tns:t><tns:b>YWJj</tns:b>'
            '<tns:a><tns:integer>1</tns:integer><tns:integer>2</tns:integer></tns:a><tns:c><tns:x>1</tns:x><tns:s>y</tns:s>'
            '</tns:c><tns:n>1.5</tns:n><tns:f>1.5</tns:f><tns:o>true</tns:o><tns:r>PT1S</tns:r>'
            '<tns:z>12345678-1234-5678-1234-567812345678</tns:z>')
XSI_DECL = 'xmlns:xsi="http://www.w3.org/2001/XMLSchema-instance"'
XML_MUTATIONS = {
    'valid': lambda a: a,
    'bad_int': lambda a: a.replace('<tns:i>5<', '<tns:i>five<'),
    'empty_int': lambda a: a.replace('<tns:i>5</tns:i>', '<tns:i/>'),
    'month_13': lambda a: a.replace('2020-02-29<', '2020-13-29<'),
    'feb_30': lambda a: a.replace('<tns:d>2020-02-29<', '<tns:d>2020-02-30<'),
    'hour_25': lambda a: a.replace('T10:00:00', 'T25:00:00'),
    'bad_base64': lambda a: a.replace('YWJj', 'YWJ'),
    'bad_base64_chars': lambda a: a.replace('YWJj', '!!!!'),
    'bad_duration': lambda a: a.replace('PT1S', 'one second'),
    'bad_uuid': lambda a: a.replace('12345678-1234-5678-1234-567812345678', 'not-a-uuid'),
    'bad_decimal': lambda a: a.replace('<tns:n>1.5<', '<tns:n>1.5.5<'),
    'bad_double': lambda a: a.replace('<tns:f>1.5<', '<tns:f>1,5<'),
    'bad_bool': lambda a: a.replace('>true<', '>maybe<'),
    'child_in_simple': lambda a: a.replace('<tns:i>5</tns:i>', '<tns:i><tns:q>5</tns:q></tns:i>'),
    'text_in_complex': lambda a: a.replace('<tns:c><tns:x>1</tns:x><tns:s>y</tns:s></tns:c>', '<tns:c>text</tns:c>'),
    'text_in_array': lambda a: a.replace('<tns:a><tns:integer>1</tns:integer><tns:integer>2</tns:integer></tns:a>',
                                         '<tns:a>1 2</tns:a>'),
    'bad_array_item': lambda a: a.replace('<tns:integer>2</tns:integer>', '<tns:integer>x</tns:integer>'),
    'unknown_member': lambda a: a + '<tns:unknown>1</tns:unknown>',
    'duplicated_member': lambda a: a.replace('<tns:u>x</tns:u>', '<tns:u>x</tns:u><tns:u>y</tns:u>'),
    'all_deleted': lambda a: '',
    'no_namespace': lambda a: a.replace('tns:', ''),
    'nil_int': lambda a: a.replace('<tns:i>5</tns:i>',
                                   '<tns:i xmlns:xsi="http://www.w3.org/2001/XMLSchema-instance" xsi:nil="true"/>'),
    'huge_int': lambda a: a.replace('<tns:i>5<', '<tns:i>' + '9' * 2000 + '<'),
    'negative_year': lambda a: a.replace('<tns:d>2020-', '<tns:d>-2020-'),
    'offset_99': lambda a: a.replace('T10:00:00<', 'T10:00:00+99:99<'),
    # the special values of the number parsers: not numbers, signalling, infinite
    'decimal_nan': lambda a: a.replace('<tns:n>1.5<', '<tns:n>NaN<'),
    'decimal_snan': lambda a: a.replace('<tns:n>1.5<', '<tns:n>sNaN<'),
    'decimal_inf': lambda a: a.replace('<tns:n>1.5<', '<tns:n>-Infinity<'),
    'double_nan': lambda a: a.replace('<tns:f>1.5<', '<tns:f>nan<'),
    'double_inf': lambda a: a.replace('<tns:f>1.5<', '<tns:f>-inf<'),
    'int_nan': lambda a: a.replace('<tns:i>5<', '<tns:i>NaN<'),
    # xsi:type values that are not 'prefix:name' of a known class (simple and complex member)
    'xsi_type_no_colon': lambda a: a.replace('<tns:i>5<', '<tns:i %s xsi:type="integer">5<' % XSI_DECL),
    'xsi_type_empty': lambda a: a.replace('<tns:i>5<', '<tns:i %s xsi:type="">5<' % XSI_DECL),
    'xsi_type_colon_only': lambda a: a.replace('<tns:i>5<', '<tns:i %s xsi:type=":">5<' % XSI_DECL),
    'xsi_type_two_colons': lambda a: a.replace('<tns:c>', '<tns:c %s xsi:type="tns:Inner:x">' % XSI_DECL),
    'xsi_type_unknown_prefix': lambda a: a.replace('<tns:c>', '<tns:c %s xsi:type="zz:Inner">' % XSI_DECL),
    'xsi_type_no_colon_complex': lambda a: a.replace('<tns:c>', '<tns:c %s xsi:type="Inner">' % XSI_DECL),
    'xsi_type_blank': lambda a: a.replace('<tns:c>', '<tns:c %s xsi:type=" tns:Inner ">' % XSI_DECL),
}


def _mk_xml(family, validator):
    @obligation('C10.xml_mutations.%s.%s' % (family, validator or 'none'),
                targets=['spyne.server.wsgi:WsgiApplication.__call__'],
                bounded="38 structure-aware mutations of a valid 12-argument request",
                desc="XML families: leaf corruption, deletion, duplication, unknown members, wrong nesting end in a normal "
                     "response or a Client fault; no exception escapes; no user code on fault")
    def ob(c):
        name = c.choose(sorted(XML_MUTATIONS), 'mutation')
        inner = XML_MUTATIONS[name](XML_ARGS)
        body = '<tns:m>%s</tns:m>' % inner
        if name == 'no_namespace':
            body = '<tns:m>%s</tns:m>' % inner
        if family == 'xml':
            data = body.replace('<tns:m>', '<tns:m xmlns:tns="%s">' % TNS, 1).encode()
        else:
            data = soap_env(SOAP11_NS if family == 'soap11' else SOAP12_NS, body)
        out, seen, resp, calls = _run(c, family, validator, 'POST', '/', '', data, 'text/xml')
        _verdict(c, family, out, seen, resp, calls, detail=name)
    return ob


for _f in ('xml', 'soap11', 'soap12'):
    for _v in ('soft', None, 'lxml'):
        _mk_xml(_f, _v)


def _mk_trunc(family):
    @obligation('C10.truncation.%s' % family, targets=['spyne.server.wsgi:WsgiApplication.__call__'],
                bounded="every prefix of one valid request (all byte positions) x 4 ways of announcing the encoding",
                desc="every prefix truncation of a valid request ends in a normal response or a Client fault")
    def ob(c):
        if family in ('xml', 'soap11'):
            body = '<tns:m>%s</tns:m>' % XML_ARGS
            data = (body.replace('<tns:m>', '<tns:m xmlns:tns="%s">' % TNS, 1).encode() if family == 'xml'
                    else soap_env(SOAP11_NS, body))
            ctype = 'text/xml'
        elif family == 'json':
            data, ctype = json.dumps({'m': VALID}).encode(), 'application/json'
        elif family == 'yaml':
            import yaml
            data, ctype = yaml.safe_dump({'m': VALID}).encode(), 'text/yaml'
        else:
            import msgpack
            data, ctype = msgpack.packb({b'm': {k.encode(): v for k, v in VALID_MSGPACK.items()}}), 'application/x-msgpack'
        # how the encoding is announced: not at all, in an XML declaration, in the Content-Type, in both (text formats)
        announce = c.choose(['none', 'declaration', 'charset', 'both'], 'encoding_announced') if family in (
            'xml', 'soap11', 'json', 'yaml') else 'none'
        if announce in ('declaration', 'both') and family in ('xml', 'soap11'):
            data = b'<?xml version="1.0" encoding="utf-8"?>' + data
        if announce in ('charset', 'both'):
            ctype += '; charset=utf-8'
        block = c.choose(list(range(8)), 'prefix_block')
        n = len(data)
        bad = []
        for k in range(block, n, 8):
            out, seen, resp, calls = _run(c, family, 'soft', 'POST', '/', '', data[:k], ctype)
            if not out.returned:
                bad.append((k, repr(out)))
                continue
            st = seen[0] if seen else ''
            try:
                doc = faultdoc.decode_fault(family, resp) if resp else None
            except Exception:
                doc = None
            if doc is not None:
                code = doc.get('faultcode') or ''
                if not (code == 'Client' or code.startswith('Client.')) or calls:
                    bad.append((k, st, code, len(calls)))
            elif not st.startswith('200'):
                bad.append((k, st, (resp or b'')[:80]))
        c.check('all_prefixes_handled', not bad, detail=bad[:4])
    return ob


for _f in ('xml', 'soap11', 'json', 'yaml', 'msgpack'):
    _mk_trunc(_f)


def _mk_bytes(family):
    @obligation('C10.bytes.%s' % family, targets=['spyne.server.wsgi:WsgiApplication.__call__'],
                bounded="byte-level hostile bodies: invalid UTF-8, trailing data, NUL bytes, bogus charset, BOM, empty, "
                        "random bytes, a method name that is not text (8-9 cases)",
                desc="byte strings that are not documents of the protocol end in a Client fault")
    def ob(c):
        import msgpack, yaml
        valid = {'json': json.dumps({'m': VALID}).encode(), 'yaml': yaml.safe_dump({'m': VALID}).encode(),
                 'msgpack': msgpack.packb({b'm': {k.encode(): v for k, v in VALID_MSGPACK.items()}}),
                 'xml': ('<tns:m xmlns:tns="%s">%s</tns:m>' % (TNS, XML_ARGS)).encode(),
                 'soap11': soap_env(SOAP11_NS, '<tns:m>%s</tns:m>' % XML_ARGS),
                 'soap12': soap_env(SOAP12_NS, '<tns:m>%s</tns:m>' % XML_ARGS),
                 'msgpackrpc': msgpack.packb([0, 1, 'm', [VALID_MSGPACK[k] for k, _ in ARGS]]),
                 'http': b''}[family]
        ctypes = {'json': 'application/json', 'yaml': 'text/yaml', 'msgpack': 'application/x-msgpack', 'xml': 'text/xml',
                  'msgpackrpc': 'application/x-msgpack',
                  'soap11': 'text/xml', 'soap12': 'application/soap+xml', 'http': 'text/plain'}
        case = c.choose(['invalid_utf8', 'trailing_data', 'nul_bytes', 'bogus_charset', 'utf16_charset', 'bom', 'empty',
                         'random'] + (['method_name_not_utf8'] if family.startswith('msgpack') else []), 'case')
        body, ctype = valid, ctypes[family]
        if case == 'invalid_utf8':
            body = valid[:10] + b'\xff\xfe\xc3' + valid[10:]
        elif case == 'trailing_data':
            body = valid + b'\x01{"x": 1}<a/>'
        elif case == 'nul_bytes':
            body = valid.replace(b'x', b'\x00', 1)
        elif case == 'bogus_charset':
            ctype += '; charset=no-such-charset'
        elif case == 'utf16_charset':
            ctype += '; charset=utf-16'
        elif case == 'bom':
            body = b'\xef\xbb\xbf' + valid
        elif case == 'empty':
            body = b''
        elif case == 'random':
            body = bytes((i * 37 + 11) % 256 for i in range(200))
        elif case == 'method_name_not_utf8':
            # the method name as a byte string that is not text (found by the thorough tier's single-byte edits)
            body = (msgpack.packb([0, 1, b'\xff\xfe', [VALID_MSGPACK[k] for k, _ in ARGS]]) if family == 'msgpackrpc' else
                    msgpack.packb({b'\xff\xfe': {k.encode(): v for k, v in VALID_MSGPACK.items()}}))
        method, path, qs = ('GET', '/m', 'i=5') if family == 'http' else ('POST', '/', '')
        out, seen, resp, calls = _run(c, family, 'soft', method, path, qs, body, ctype)
        _verdict(c, family, out, seen, resp, calls, detail=case)
    return ob


for _f in FAMILIES_ALL:
    _mk_bytes(_f)


@obligation('C10.transport.wsgi_headers', targets=['spyne.server.wsgi:WsgiApplication.handle_rpc'],
            bounded="8 hostile transport-level inputs (the CONTENT_LENGTH cases for 5 protocol families)",
            desc="malformed transport metadata (non-numeric / negative CONTENT_LENGTH, odd content types, GET on SOAP) ends "
                 "in a client fault")
def transport(c):
    case = c.choose(['cl_text', 'cl_negative', 'cl_float', 'ct_garbage', 'ct_missing_soap', 'get_soap', 'charset_bogus',
                     'qs_garbage'], 'case')
    family = 'soap11' if case in ('ct_missing_soap', 'get_soap') else ('http' if case == 'qs_garbage' else 'json')
    if case.startswith('cl_'):
        family = c.choose(['json', 'yaml', 'msgpack', 'xml', 'soap11'], 'family')
    body = json.dumps({'m': VALID}).encode()
    extra = {}
    method, path, qs, ctype = 'POST', '/', '', 'application/json'
    if case == 'cl_text':
        extra['CONTENT_LENGTH'] = 'abc'
    elif case == 'cl_negative':
        extra['CONTENT_LENGTH'] = '-5'
    elif case == 'cl_float':
        extra['CONTENT_LENGTH'] = '12.5'
    elif case == 'ct_garbage':
        ctype = ';;;=;charset'
    elif case == 'charset_bogus':
        ctype = 'application/json; charset=no-such-charset'
    elif case == 'ct_missing_soap':
        body = soap_env(SOAP11_NS, '<tns:m>%s</tns:m>' % XML_ARGS)
        extra['CONTENT_TYPE'] = None
    elif case == 'get_soap':
        method = 'GET'
        body = b''
        ctype = 'text/xml'
    elif case == 'qs_garbage':
        method, path, qs, body = 'GET', '/m', 'i=%zz&&=&u=%', b''
    out, seen, resp, calls = _run(c, family, 'soft', method, path, qs, body, ctype, extra)
    if extra.get('CONTENT_TYPE', 1) is None:
        pass
    _verdict(c, family, out, seen, resp, calls, detail=case)


# ------------------------------------------------------------------------------------------ SOAP with attachments

def _mk_multipart(family):
    @obligation('C10.multipart.%s' % family, targets=['spyne.protocol.soap.soap11:Soap11.create_in_document',
                                                      'spyne.protocol.soap.mime:collapse_swa',
                                                      'spyne.protocol.soap.soap11:_parse_xml_string'],
                bounded="14 multipart/related (SwA) request forms: well-formed ones (with / without charset, XML declaration, "
                        "attachment) and broken ones (no boundary, wrong boundary, no parts, no root, garbage, nested, "
                        "attachment without Content-ID, truncated)",
                desc="a multipart/related SOAP request, well formed or not, ends in a normal response or a Client fault; no "
                     "exception escapes the WSGI callable")
    def ob(c):
        ns = SOAP11_NS if family == 'soap11' else SOAP12_NS
        envelope = soap_env(ns, '<tns:m>%s</tns:m>' % XML_ARGS)
        root = b'--B\r\nContent-Type: text/xml; charset=utf-8\r\nContent-ID: <root>\r\n\r\n'
        att = b'--B\r\nContent-Type: application/octet-stream\r\nContent-Transfer-Encoding: binary\r\nContent-ID: <att1>\r\n\r\nDATA\r\n'
        ct = 'multipart/related; boundary="B"; type="text/xml"; start="<root>"'
        cases = {
            'plain': (ct, root + envelope + b'\r\n--B--\r\n'),
            'charset_param': (ct + '; charset=utf-8', root + envelope + b'\r\n--B--\r\n'),
            'xml_declaration': (ct, root + b'<?xml version="1.0" encoding="utf-8"?>' + envelope + b'\r\n--B--\r\n'),
            'declaration_and_charset': (ct + '; charset=utf-8', root + b'<?xml version="1.0" encoding="utf-8"?>' + envelope +
                                        b'\r\n--B--\r\n'),
            'with_attachment': (ct, root + envelope + b'\r\n' + att + b'--B--\r\n'),
            'attachment_without_content_id': (ct, root + envelope + b'\r\n' + att.replace(b'Content-ID: <att1>\r\n', b'') +
                                              b'--B--\r\n'),
            'no_boundary_param': ('multipart/related; type="text/xml"', root + envelope + b'\r\n--B--\r\n'),
            'wrong_boundary': (ct.replace('"B"', '"OTHER"'), root + envelope + b'\r\n--B--\r\n'),
            'no_parts': (ct, b'--B--\r\n'),
            'empty_body': (ct, b''),
            'no_root_part': (ct.replace('<root>', '<nothing>'), root + envelope + b'\r\n--B--\r\n'),
            'garbage': (ct, b'\x00\xff--B\r\n\r\n\xfe\xfd--B'),
            'truncated': (ct, (root + envelope)[:120]),
            'bogus_charset': (ct + '; charset=no-such-charset', root + envelope + b'\r\n--B--\r\n'),
        }
        case = c.choose(sorted(cases), 'case')
        ctype, body = cases[case]
        out, seen, resp, calls = _run(c, family, c.choose(['soft', None], 'validator'), 'POST', '/', '', body, ctype)
        _verdict(c, family, out, seen, resp, calls, detail=case)
    return ob


for _f in ('soap11', 'soap12'):
    _mk_multipart(_f)


# ------------------------------------------------------------------------------------------ through a plain ServerBase

def _mk_serverbase(family):
    @obligation('C10.serverbase.%s' % family, targets=['spyne.server._base:ServerBase.generate_contexts',
                                                       'spyne.server._base:ServerBase.get_in_object',
                                                       'spyne.server._base:ServerBase.get_out_object',
                                                       'spyne.server._base:ServerBase.get_out_string'],
                bounded="the malformed request kinds of the family (truncated, wrong envelope, scalar / null / list / empty "
                        "bodies, unknown method, invalid argument) and 8 byte-level hostile bodies",
                desc="through a plain ServerBase (no HTTP): a malformed or hostile request never makes one of the "
                     "transport-facing calls raise; it ends in a Client-family fault document and the user function does "
                     "not run")
    def ob(c):
        from .pipeline import Harness, requests_for
        kinds = sorted(k for k in requests_for(family) if k not in ('declared_too_long', 'content_length_not_a_number'))
        kind = c.choose(kinds + ['invalid_utf8', 'nul_bytes', 'random', 'bom'], 'request_kind')
        h = Harness(c, family, user_outcomes=['return'])
        if kind in ('invalid_utf8', 'nul_bytes', 'random', 'bom'):
            valid = requests_for(family)['valid'][3]
            body = {'invalid_utf8': valid[:10] + b'\xff\xfe\xc3' + valid[10:], 'nul_bytes': valid.replace(b'i', b'\x00', 1),
                    'random': bytes((i * 37 + 11) % 256 for i in range(200)), 'bom': b'\xef\xbb\xbf' + valid}[kind]
            import contracts.pipeline as P
            real = P.requests_for
            P.requests_for = lambda f: dict(real(f), **{kind: ('POST', '/', '', body, 'x')})
            try:
                out = h.run_serverbase(kind)
            finally:
                P.requests_for = real
        else:
            out = h.run_serverbase(kind)
        c.check('no_exception_escapes', out.returned, detail=(kind, repr(out)))
        if not out.returned:
            return
        ran = sum(1 for t in c.trace if t[0] == 'user_fn')
        doc = None
        try:
            doc = faultdoc.decode_fault(family, out.value) if out.value else None
        except Exception:
            doc = None
        if kind == 'valid':
            c.check('valid_request_runs_the_function', ran == 1 and doc is None, detail=(ran, out.value[:200]))
        elif doc is not None:
            code = doc.get('faultcode') or ''
            c.check('fault_is_client_family', code == 'Client' or code.startswith('Client.'), detail=(kind, out.value[:200]))
            c.check('user_function_not_run_on_fault', ran == 0, detail=kind)
        else:
            # a few odd bodies are readable requests (a BOM in front of JSON is not): then the function ran once
            c.check('no_fault_means_the_request_was_served', ran == 1, detail=(kind, out.value[:200]))
    return ob


for _f in ('json', 'yaml', 'msgpack', 'msgpackrpc', 'xml', 'soap11', 'soap12'):
    _mk_serverbase(_f)


def _mk_soap_headers(family):
    @obligation('C10.soap_headers.%s' % family, targets=['spyne.protocol.soap.soap11:Soap11.deserialize',
                                                         'spyne.protocol.soap.soap11:_from_soap'],
                bounded="a service that declares one input header class x 9 Header contents (absent, the declared block, a "
                        "foreign block such as wsse:Security alone / before / after the declared one, an unqualified block, "
                        "the declared block twice, text only, an empty Header) x 3 validators",
                desc="whatever header blocks a SOAP request carries -- declared, foreign, repeated, malformed -- the request "
                     "ends in a normal response or a Client fault; no exception escapes")
    def ob(c):
        from spyne.model.complex import ComplexModel
        ns = SOAP11_NS if family == 'soap11' else SOAP12_NS
        calls = []

        class Token(ComplexModel):
            __namespace__ = TNS
            user = Unicode

        def m(ctx, i):
            calls.append(1)
            return i
        m._pyvc_native = True
        Svc = type(ServiceBase)('HSvc', (ServiceBase,), {'__in_header__': Token, 'm': rpc(Integer, _returns=Integer)(m)})
        validator = c.choose(['soft', None, 'lxml'], 'validator')
        inp, outp = protocols(family, validator)
        wsgi = WsgiApplication(Application([Svc], TNS, name='VApp', in_protocol=inp, out_protocol=outp))
        declared = '<tns:Token><tns:user>u</tns:user></tns:Token>'
        foreign = '<wsse:Security xmlns:wsse="urn:wsse" e:mustUnderstand="0"><wsse:UsernameToken>x</wsse:UsernameToken></wsse:Security>'
        hdr = c.choose([None, declared, foreign, foreign + declared, declared + foreign, '<plain>text</plain>', declared + declared,
                        'just text', ''], 'header_content')
        doc = '<e:Envelope xmlns:e="%s" xmlns:tns="%s">%s<e:Body><tns:m><tns:i>5</tns:i></tns:m></e:Body></e:Envelope>' % (
            ns, TNS, '' if hdr is None else '<e:Header>%s</e:Header>' % hdr)
        body = doc.encode()
        env = {'REQUEST_METHOD': 'POST', 'PATH_INFO': '/', 'QUERY_STRING': '', 'SERVER_NAME': 'h', 'SERVER_PORT': '80',
               'wsgi.url_scheme': 'http', 'wsgi.input': io.BytesIO(body), 'CONTENT_TYPE': 'text/xml', 'CONTENT_LENGTH': str(len(body))}
        seen = []

        def sr(status, headers, exc_info=None):
            seen.append(status)
        sr._pyvc_native = True
        out = c.run(wsgi, env, sr)
        resp = None
        if out.returned:
            chunks = []
            o2 = c.run(lambda: chunks.extend(list(out.value)))
            if o2.raised:
                out = o2
            resp = b''.join(x for x in chunks if isinstance(x, bytes))
        _verdict(c, family, out, seen, resp, calls, detail=(validator, hdr))
    return ob


for _f in ('soap11', 'soap12'):
    _mk_soap_headers(_f)
