"""C18: calling a method through NullServer behaves like calling it over the wire."""
import io
import json

from lxml import etree

from pyvc.oblig import obligation
from pyvc.sym import And, Or, Not, Implies, Iff, SInt

from spyne import Application, ServiceBase, rpc, Fault
from spyne.auxproc.sync import SyncAuxProc
from spyne.model._base import Ignored
from spyne.model.complex import ComplexModel, Array, Iterable
from spyne.model.primitive import Integer, Unicode, Boolean, Duration, DateTime, Decimal, Double, Date
from spyne.protocol.json import JsonDocument
from spyne.protocol.soap import Soap11
from spyne.protocol.xml import XmlDocument
from spyne.server.null import NullServer
from spyne.server.wsgi import WsgiApplication

TNS = 'verif.tns'


def _mk_packing(n_args):
    @obligation('C18.packing.%d_args' % n_args, targets=['spyne.server.null:_FunctionCall.__call__'],
                desc="argument packing of NullServer for symbolic argument values (including 0 / False-like values): the "
                     "user function receives exactly the given values whether each argument is passed positionally or by "
                     "keyword, and the call returns what the function returned")
    def ob(c):
        got = []
        names = ['a', 'b', 'c'][:n_args]

        def f(ctx, *args):
            got.append(args)
            return args[0] if args else None
        f._pyvc_native = True
        f._pyvc_accepts_sym = True
        if n_args == 0:
            def f0(ctx):
                got.append(())
                return 7
            f0._pyvc_native = True
            meth = rpc(_returns=Integer)(f0)
        else:
            def mk():
                if n_args == 1:
                    def g(ctx, a):
                        got.append((a,))
                        return a
                elif n_args == 2:
                    def g(ctx, a, b):
                        got.append((a, b))
                        return a
                else:
                    def g(ctx, a, b, c):
                        got.append((a, b, c))
                        return a
                g._pyvc_native = True
                g._pyvc_accepts_sym = True
                return g
            meth = rpc(*([Integer] * n_args), _returns=Integer)(mk())
        Svc = type(ServiceBase)('Svc', (ServiceBase,), {'m': meth})
        app = Application([Svc], TNS, in_protocol=JsonDocument(), out_protocol=JsonDocument())
        server = NullServer(app)
        vals = [c.int('arg_' + n) for n in names]
        by_kw = [bool(c.choose(2, 'by_keyword_' + n)) for n in names]
        # positional arguments must precede keyword ones
        if any(by_kw[i] and not by_kw[j] for i in range(n_args) for j in range(i + 1, n_args)):
            c.end('not a valid call form')
        args = [v for v, k in zip(vals, by_kw) if not k]
        kwargs = {n: v for n, v, k in zip(names, vals, by_kw) if k}
        out = c.run(server.service.m, *args, **kwargs)
        c.check('returns', out.returned, detail=repr(out))
        if not out.returned:
            return
        c.check('function_called_once', len(got) == 1, detail=len(got))
        if got:
            for i, n in enumerate(names):
                r = got[0][i]
                c.check('argument[%s]_delivered' % n, (r is vals[i]) if not c.concrete else (r == vals[i]),
                        detail=(n, repr(r)))
        want = vals[0] if n_args else 7
        c.check('result_is_the_return_value', (out.value is want) if (not c.concrete and n_args) else (out.value == want),
                detail=repr(out.value))
    return ob


for _n in (0, 1, 2, 3):
    _mk_packing(_n)


class Pt(ComplexModel):
    __namespace__ = TNS
    x = Integer
    s = Unicode


def _service(calls):
    class Svc(ServiceBase):
        @rpc()
        def w0(ctx):
            calls.append('w0')

        @rpc(Integer, _returns=Integer)
        def w1(ctx, i):
            calls.append(('w1', i))
            return (i or 0) + 1

        @rpc(Integer, Unicode, _returns=[Integer, Unicode])
        def w2(ctx, i, s):
            return i, s

        @rpc(Integer, _returns=[Integer, Unicode, Boolean])
        def w3(ctx, i):
            return i, None, False

        @rpc(Integer, _returns=Integer, _body_style='out_bare')
        def ob1(ctx, i):
            return i * 2

        @rpc(Pt, _returns=Pt, _body_style='bare')
        def bare(ctx, p):
            return Pt(x=(p.x or 0) + 1, s=p.s)

        @rpc(_returns=Array(Integer))
        def arr(ctx):
            return [1, 2, 3]

        @rpc(_returns=Iterable(Integer))
        def gen(ctx):
            yield 1
            yield 2

        @rpc(Integer, _returns=Integer)
        def boom(ctx, i):
            if i == 1:
                raise Fault('Client.Custom', 'nope', detail={'k': 'v'})
            if i == 3:
                raise Fault('Client.EmptyDetail', 'empty detail', detail={})
            if i == 4:
                raise Fault('Client.NoString', '')
            raise RuntimeError('secret')

        @rpc(Integer)
        def boom_void(ctx, i):
            raise Fault('Client.EmptyDetail', 'no return value either', detail={})

        @rpc(Integer, _returns=[Integer, Unicode])
        def ign2(ctx, i):
            return Ignored(i)

        @rpc(Integer, _returns=[Integer, Unicode])
        def boom2(ctx, i):
            raise Fault('Client.Two', 'two return values', detail={})

        @rpc(Integer, _returns=Integer)
        def ign(ctx, i):
            return Ignored(i)

        @rpc(_returns=Pt)
        def none_complex(ctx):
            return None

        @rpc(Integer, _returns=Integer)
        def falsy(ctx, i):
            return 0

        @rpc(_returns=Pt, _body_style='bare')
        def bare0(ctx):
            return Pt(x=4, s='z')

        @rpc(Duration, DateTime, Decimal, Double, Date, _returns=[Duration, DateTime, Decimal, Double, Date])
        def prims(ctx, r, t, n, f, a):
            return r, t, n, f, a

        @rpc(_returns=[Pt, Pt])
        def same_twice(ctx):
            p = Pt(x=8, s='same')          # one object given as both return values
            return p, p

        @rpc(_returns=Array(Pt))
        def same_in_array(ctx):
            return [Pt(x=9, s='rep')] * 2

        @rpc(_returns=Array(Integer), _body_style='bare')
        def bare0arr(ctx):
            return [4, 5]

        @rpc(_returns=Iterable(Integer), _body_style='bare')
        def bare0gen(ctx):
            yield 6
            yield 7
    return Svc


import datetime as _dt
import decimal as _dec

# (duration, date-time, decimal, double, date): values whose parts are zero in places where a shortcut may look
PRIM_CALLS = [(_dt.timedelta(days=1, microseconds=250), _dt.datetime(2020, 1, 1, 0, 0, 0, 7), _dec.Decimal('0.10'), 0.0, _dt.date(2020, 2, 29)),
              (_dt.timedelta(0), _dt.datetime(2020, 1, 1, 0, 0, 0, 0, _dt.timezone.utc), _dec.Decimal('-1'), -1.5, _dt.date(1, 1, 1)),
              (_dt.timedelta(days=-3, seconds=5), _dt.datetime(1999, 12, 31, 23, 59, 59, 999999), _dec.Decimal('1E+2') * 0 + 7, 1e22, _dt.date(9999, 12, 31))]

CALLS = [('w0', (), {}), ('w1', (5,), {}), ('w1', (), {'i': 5}), ('w1', (0,), {}), ('w1', (), {'i': 0}), ('w1', (), {}),
         ('w2', (1, 'a'), {}), ('w2', (1,), {'s': 'a'}), ('w2', (), {'s': 'a', 'i': 1}), ('w2', (0, ''), {}),
         ('w3', (4,), {}), ('ob1', (3,), {}), ('ob1', (), {'i': 3}), ('bare', (), {'x': 1, 's': 'q'}),
         ('bare', (1, 'q'), {}), ('arr', (), {}), ('gen', (), {}), ('boom', (1,), {}), ('boom', (2,), {}),
         ('ign', (5,), {}), ('none_complex', (), {}), ('falsy', (1,), {}), ('bare0', (), {}), ('bare0arr', (), {}),
         ('bare0gen', (), {}), ('boom', (3,), {}), ('boom', (4,), {}), ('boom_void', (1,), {}), ('boom2', (1,), {}),
         ('ign2', (5,), {}), ('same_twice', (), {}), ('same_in_array', (), {}),
         # values that are false in a boolean context, field-wise for a bare complex argument; no field at all
         ('bare', (0, ''), {}), ('bare', (), {'x': 0, 's': ''}), ('bare', (), {}), ('w2', (), {}), ('w3', (0,), {})] + [
    ('prims', v, {}) for v in PRIM_CALLS]


def norm(v):
    import datetime as _dt
    import decimal as _dec
    if isinstance(v, _dt.timedelta):
        return ('duration', v.days, v.seconds, v.microseconds)
    if isinstance(v, (_dt.datetime, _dt.date, _dec.Decimal)):
        return str(v)
    if isinstance(v, ComplexModel):
        return {k: norm(getattr(v, k, None)) for k in type(v).get_flat_type_info(type(v))}
    if isinstance(v, (list, tuple)) or hasattr(v, '__next__'):
        return [norm(x) for x in v]
    if isinstance(v, Ignored):
        return ('Ignored', norm(list(v.args)))
    return v


def wire_json(c, name, args, kwargs):
    """The same call over JsonDocument through WSGI, reply decoded by the documented conventions."""
    calls = []
    Svc = _service(calls)
    app = Application([Svc], TNS, in_protocol=JsonDocument(), out_protocol=JsonDocument())
    wsgi = WsgiApplication(app)
    d = app.interface.service_method_map['{%s}%s' % (TNS, name)][0]
    names = list(d.in_message._type_info.keys())
    if name == 'bare':
        fields = dict(zip(['x', 's'], args))
        fields.update(kwargs)
        doc = {name: fields}
    else:
        a = dict(zip(names, args))
        a.update(kwargs)
        doc = {name: a}
    body = json.dumps(doc).encode()
    env = {'REQUEST_METHOD': 'POST', 'PATH_INFO': '/', 'QUERY_STRING': '', 'SERVER_NAME': 'h', 'SERVER_PORT': '80',
           'wsgi.url_scheme': 'http', 'wsgi.input': io.BytesIO(body), 'CONTENT_TYPE': 'application/json',
           'CONTENT_LENGTH': str(len(body))}
    seen = []

    def sr(status, headers, exc_info=None):
        seen.append(status)
    sr._pyvc_native = True
    out = c.run(wsgi, env, sr)
    resp = b''
    if out.returned:
        chunks = []
        c.run(lambda: chunks.extend(list(out.value)))
        resp = b''.join(chunks)
    return seen[0] if seen else '', json.loads(resp.decode() or 'null'), d


@obligation('C18.relational.json', targets=['spyne.server.null:_FunctionCall.__call__', 'spyne.server.null:_cb_sync',
                                            'spyne.application:Application.process_request'],
            bounded="32 calls over 23 signatures: body styles wrapped / out_bare / bare with a complex argument passed "
                    "field-wise / empty; 0, 1, 2, 3 return values; array and generator results; Fault, non-Fault, "
                    "Ignored; positional vs keyword; falsy values; one object returned twice (two return values, array items)",
            desc="server.service.m(...) returns (or raises) the same native result that a client obtains by sending the "
                 "same call as a JsonDocument request and decoding the reply; an Ignored return reaches the direct caller "
                 "and is empty on the wire")
def relational(c):
    # (the calls that pass date / duration / decimal values are compared over the XML family, whose reference codec spells them)
    name, args, kwargs = c.choose([x for x in CALLS if x[0] != 'prims'], 'call')
    calls = []
    Svc = _service(calls)
    app = Application([Svc], TNS, in_protocol=JsonDocument(), out_protocol=JsonDocument())
    server = NullServer(app)
    out = c.run(getattr(server.service, name), *args, **kwargs)
    status, wire, d = wire_json(c, name, args, kwargs)
    n_out = len(d.out_message._type_info) if hasattr(d.out_message, '_type_info') else 1
    if name.startswith('boom'):
        c.check('null_raises_fault', out.raised and isinstance(out.exc, Fault), detail=repr(out))
        c.check('wire_sends_a_fault', isinstance(wire, dict) and 'faultcode' in wire, detail=wire)
        if out.raised and isinstance(out.exc, Fault) and isinstance(wire, dict):
            c.check('same_fault', (out.exc.faultcode, out.exc.faultstring, out.exc.detail or None) ==
                    (wire.get('faultcode'), wire.get('faultstring'), wire.get('detail') or None), detail=(repr(out.exc), wire))
        return
    c.check('null_returns', out.returned, detail=repr(out))
    if not out.returned:
        return
    got = norm(out.value)
    if name in ('ign', 'ign2'):
        c.check('ignored_delivered_to_direct_caller', got == ('Ignored', [5]), detail=got)
        if name == 'ign':
            c.check('ignored_is_empty_on_the_wire', wire in (None, [], {}, ''), detail=wire)
        return
    # decode the wire reply by the documented conventions (ignore_wrappers=True: bare value / list of values)
    if isinstance(wire, dict) and name != 'bare' and n_out > 1 and not isinstance(got, dict):
        wire_vals = [wire.get(k) for k in d.out_message._type_info.keys()]
    else:
        wire_vals = wire
    if n_out == 0:
        c.check('no_return_value_both_empty', got is None and wire in (None, {}, [], ''), detail=(got, wire))
    elif n_out > 1 and isinstance(got, (list, tuple)):
        c.check('same_values_as_wire', list(got) == list(wire_vals if isinstance(wire_vals, list) else [wire_vals]),
                detail=(got, wire))
    else:
        def unset_dropped(v):
            # dict documents do not send unset members
            if isinstance(v, dict):
                return {k: unset_dropped(x) for k, x in v.items() if x is not None}
            if isinstance(v, list):
                return [unset_dropped(x) for x in v]
            return v
        c.check('same_value_as_wire', unset_dropped(got) == unset_dropped(wire_vals), detail=(got, wire))
    c.check('wire_ok', status.startswith('200'), detail=status)


def _mk_relational_xml(wire):
    @obligation('C18.relational.%s' % wire, targets=['spyne.server.null:_FunctionCall.__call__', 'spyne.server.null:_cb_sync',
                                                     'spyne.protocol.xml:XmlDocument.deserialize',
                                                     'spyne.protocol.xml:XmlDocument.serialize'],
                bounded="the same calls as C18.relational.json (faults and Ignored excepted: C18.relational.json / C18.ignored.*), "
                        "sent as documents built by the reference XML encoder and decoded by the reference decoder",
                desc="server.service.m(...) returns the same native result that a client obtains by sending the same call as "
                     "an %s request and decoding the reply" % wire)
    def ob(c):
        from spec import xmlref
        calls_ = [x for x in CALLS if not x[0].startswith('boom') and not x[0].startswith('ign')]
        name, args, kwargs = c.choose(calls_, 'call')
        calls = []
        Svc = _service(calls)
        server = NullServer(Application([Svc], TNS, in_protocol=JsonDocument(), out_protocol=JsonDocument()))
        out = c.run(getattr(server.service, name), *args, **kwargs)
        c.check('null_returns', out.returned, detail=repr(out))
        if not out.returned:
            return
        if hasattr(out.value, '__next__'):
            out.value = list(out.value)          # a generator result is read once
        got = norm(out.value)
        P = {'xml': XmlDocument, 'soap11': Soap11}[wire]
        app = Application([_service([])], TNS, in_protocol=P(), out_protocol=P())
        d = app.interface.service_method_map['{%s}%s' % (TNS, name)][0]
        root = etree.Element('{%s}%s' % (TNS, name), nsmap={'tns': TNS, 'xsi': xmlref.XSI})
        in_ti = d.in_message._type_info
        if name == 'bare':
            fields = dict(zip(['x', 's'], args))
            fields.update(kwargs)
            for k, ft in Pt.get_flat_type_info(Pt).items():
                xmlref.encode_into(root, ft, fields.get(k), k, TNS)
        else:
            a = dict(zip(in_ti.keys(), args))
            a.update(kwargs)
            for k, ft in in_ti.items():
                xmlref.encode_into(root, ft, a.get(k), k, TNS)
        body = etree.tostring(root)
        if wire == 'soap11':
            body = b'<e:Envelope xmlns:e="http://schemas.xmlsoap.org/soap/envelope/"><e:Body>' + body + b'</e:Body></e:Envelope>'
        env = {'REQUEST_METHOD': 'POST', 'PATH_INFO': '/', 'QUERY_STRING': '', 'SERVER_NAME': 'h', 'SERVER_PORT': '80',
               'wsgi.url_scheme': 'http', 'wsgi.input': io.BytesIO(body), 'CONTENT_TYPE': 'text/xml', 'CONTENT_LENGTH': str(len(body))}
        seen = []

        def sr(status, headers, exc_info=None):
            seen.append(status)
        sr._pyvc_native = True
        w = c.run(WsgiApplication(app), env, sr)
        c.check('wire_call_returns', w.returned, detail=repr(w))
        if not w.returned:
            return
        chunks = []
        c.run(lambda: chunks.extend(list(w.value)))
        resp = b''.join(x for x in chunks if isinstance(x, bytes))
        c.check('wire_ok', bool(seen) and seen[0].startswith('200'), detail=(seen, resp[:300], body[:300]))
        if not (seen and seen[0].startswith('200')):
            return
        rroot = etree.fromstring(resp)
        rmsg = rroot if wire == 'xml' else rroot.find('{http://schemas.xmlsoap.org/soap/envelope/}Body')[0]
        out_ti = d.out_message._type_info if hasattr(d.out_message, '_type_info') else {}
        if d.is_out_bare() and not issubclass(d.out_message, ComplexModel):
            # a bare primitive / array result: the message element is the value
            holder = etree.Element('h')
            holder.append(rmsg)
            T = d.out_message
            wire_val = xmlref.decode_from(holder, T, rmsg.tag.split('}')[-1], TNS)
            c.check('same_value_as_wire', norm_x(T, got) == xmlref.norm(T, wire_val), detail=(got, wire_val, resp[:300]))
        elif d.is_out_bare():
            T = d.out_message
            dec = {k: xmlref.decode_from(rmsg, ft, k, TNS) for k, ft in T.get_flat_type_info(T).items()}
            c.check('same_value_as_wire', norm_x(T, out.value) == xmlref.norm(T, dec), detail=(got, dec, resp[:300]))
        else:
            vals = []
            for k, t in out_ti.items():
                vals.append((t, xmlref.decode_from(rmsg, t, k, TNS)))
            n_out = len(out_ti)
            if n_out == 0:
                c.check('no_return_value_both_empty', out.value is None and len(rmsg) == 0, detail=(got, resp[:200]))
            elif n_out == 1:
                c.check('same_value_as_wire', norm_x(vals[0][0], out.value) == xmlref.norm(*vals[0]), detail=(got, vals[0][1], resp[:300]))
            else:
                direct = list(out.value) if isinstance(out.value, (list, tuple)) else [out.value]
                c.check('same_values_as_wire', [norm_x(t, v) for (t, _), v in zip(vals, direct)] == [xmlref.norm(t, v) for t, v in vals]
                        and len(direct) == n_out, detail=(got, [v for _, v in vals], resp[:300]))
    return ob


def norm_x(t, v):
    """the direct caller's value in the reference codec's comparison form (generators are consumed)"""
    from spec import xmlref
    if hasattr(v, '__next__'):
        v = list(v)
    return xmlref.norm(t, v)


for _w in ('xml', 'soap11'):
    _mk_relational_xml(_w)


@obligation('C18.aux', targets=['spyne.server.null:_FunctionCall.__call__'],
            bounded="one primary + one auxiliary method of the same name",
            desc="with an auxiliary method bound to the same name, NullServer returns the primary method's value (as the "
                 "wire does) and runs both")
def aux(c):
    ran = []

    class Prim(ServiceBase):
        @rpc(Integer, _returns=Integer)
        def op(ctx, i):
            ran.append('prim')
            return 1

    class Aux(ServiceBase):
        __aux__ = SyncAuxProc()

        @rpc(Integer, _returns=Integer)
        def op(ctx, i):
            ran.append('aux')
            return 99
    order = c.choose([[Prim, Aux], [Aux, Prim]], 'service_order')
    app = Application(order, TNS, in_protocol=JsonDocument(), out_protocol=JsonDocument())
    out = c.run(NullServer(app).service.op, 5)
    c.check('returns_primary_value', out.returned and out.value == 1, detail=repr(out))
    c.check('both_ran_primary_first', ran == ['prim', 'aux'], detail=ran)


# ------------------------------------------------------------------------------------------ Ignored, every body style

def _ign_service():
    class Pair(ComplexModel):
        __namespace__ = TNS
        a = Integer
        b = Unicode

    class ISvc(ServiceBase):
        @rpc(Integer, _returns=Integer)
        def wrapped(ctx, i):
            return Ignored(i)

        @rpc(Integer, _returns=Unicode, _body_style='out_bare')
        def out_bare_primitive(ctx, i):
            return Ignored(i)

        @rpc(Integer, _returns=Pair, _body_style='out_bare')
        def out_bare_complex(ctx, i):
            return Ignored(i)

        @rpc(Pair, _returns=Pair, _body_style='bare')
        def bare_complex(ctx, p):
            return Ignored(p.a)

        @rpc(Pair, _returns=Integer, _body_style='bare')
        def bare_primitive(ctx, p):
            return Ignored(p.a)

        @rpc(Integer, _returns=Pair)
        def wrapped_complex(ctx, i):
            return Ignored(i)

        @rpc(Integer, _returns=[Integer, Unicode])
        def wrapped_two_values(ctx, i):
            return Ignored(i)

        @rpc(Integer, _returns=Integer)
        def control(ctx, i):
            return i + 1
    return ISvc, Pair


def _mk_ignored(wire):
    @obligation('C18.ignored.%s' % wire, targets=['spyne.server._base:ServerBase.get_out_object',
                                                 'spyne.server.null:_FunctionCall.__call__'],
                bounded="7 methods returning Ignored: wrapped / out_bare / bare body styles x primitive / complex / two return values",
                desc="an Ignored return is delivered to the direct (NullServer) caller as it is, and the same call over the "
                     "wire is answered normally (200) with an empty result -- for every body style and return type")
    def ob(c):
        from spyne.protocol.xml import XmlDocument
        from spyne.protocol.soap import Soap11
        name = c.choose(['wrapped', 'out_bare_primitive', 'out_bare_complex', 'bare_complex', 'bare_primitive',
                         'wrapped_complex', 'wrapped_two_values', 'control'], 'method')
        ISvc, Pair = _ign_service()
        P = {'json': JsonDocument, 'xml': XmlDocument, 'soap11': Soap11}[wire]
        app = Application([ISvc], TNS, in_protocol=P(), out_protocol=P())
        server = NullServer(Application([ISvc], TNS, in_protocol=JsonDocument(), out_protocol=JsonDocument()))
        if name.startswith('bare'):
            out = c.run(getattr(server.service, name), 5, 'x')
        else:
            out = c.run(getattr(server.service, name), 5)
        c.check('null_returns', out.returned, detail=repr(out))
        if out.returned and name != 'control':
            c.check('ignored_delivered_to_direct_caller', isinstance(out.value, Ignored) and list(out.value.args) == [5],
                    detail=repr(out.value))
        # the same call over the wire
        if wire == 'json':
            doc = {name: ({'a': 5, 'b': 'x'} if name.startswith('bare') else {'i': 5})}
            body, ctype = json.dumps(doc).encode(), 'application/json'
        else:
            inner = '<tns:a>5</tns:a><tns:b>x</tns:b>' if name.startswith('bare') else '<tns:i>5</tns:i>'
            xml = '<tns:%s xmlns:tns="%s">%s</tns:%s>' % (name, TNS, inner, name)
            body = xml.encode() if wire == 'xml' else (
                '<e:Envelope xmlns:e="http://schemas.xmlsoap.org/soap/envelope/"><e:Body>%s</e:Body></e:Envelope>' % xml).encode()
            ctype = 'text/xml'
        env = {'REQUEST_METHOD': 'POST', 'PATH_INFO': '/', 'QUERY_STRING': '', 'SERVER_NAME': 'h', 'SERVER_PORT': '80',
               'wsgi.url_scheme': 'http', 'wsgi.input': io.BytesIO(body), 'CONTENT_TYPE': ctype, 'CONTENT_LENGTH': str(len(body))}
        seen = []

        def sr(status, headers, exc_info=None):
            seen.append(status)
        sr._pyvc_native = True
        w = c.run(WsgiApplication(app), env, sr)
        c.check('wire_call_returns', w.returned, detail=repr(w))
        if not w.returned:
            return
        chunks = []
        o2 = c.run(lambda: chunks.extend(list(w.value)))
        resp = b''.join(x for x in chunks if isinstance(x, bytes))
        c.check('wire_answers_200', o2.returned and bool(seen) and seen[0].startswith('200'), detail=(seen, repr(o2), resp[:300]))
        if name == 'control':
            c.check('control_value_on_the_wire', b'6' in resp, detail=resp[:200])
        else:
            c.check('ignored_is_empty_on_the_wire', b'5' not in resp.replace(b'2005', b'').replace(b'/05/', b''), detail=resp[:300])
    return ob


for _w in ('json', 'xml', 'soap11'):
    _mk_ignored(_w)


# ------------------------------------------------------------------------------------------ values are never tested for truth
# (deductive: the arguments are symbolic integers, so 0 is one of the values every clause is proved for)

class _Flat3(ComplexModel):
    __namespace__ = TNS
    a = Integer
    b = Integer
    c = Integer


class _Flat4(_Flat3):
    __namespace__ = TNS
    d = Integer


def _mk_serialization_instance(shape):
    @obligation('C18.serialization_instance.%s' % shape, targets=['spyne.model.complex:ComplexModelBase.get_serialization_instance'],
                desc="get_serialization_instance(cls, value) for a sequence / dict of symbolic integers (so also 0): every "
                     "position / key given is assigned to the member it is aligned with (ancestors' members first), whatever "
                     "its value; members not given are None; an instance is returned as it is",
                assumptions=["integer-valued members (other types are not inspected by the function)"])
    def ob(c):
        cls = c.choose([_Flat3, _Flat4], 'class')
        keys = list(cls.get_flat_type_info(cls).keys())
        n = c.choose(list(range(len(keys) + 1)), 'values_given')
        vals = [c.int('v%d' % i) for i in range(n)]
        if shape == 'tuple':
            arg = tuple(vals)
        elif shape == 'list':
            arg = list(vals)
        else:
            arg = {k: v for k, v in zip(keys, vals)}
        out = c.run(cls.get_serialization_instance, arg)
        c.check('returns', out.returned, detail=repr(out))
        if not out.returned:
            return
        inst = out.value
        c.check('instance_of_the_class', isinstance(inst, cls), detail=repr(inst))
        for i, k in enumerate(keys):
            got = getattr(inst, k, None)
            if i < n:
                c.check('member_is_the_value_given[%s]' % k, (got is vals[i]) if not c.concrete else got == vals[i], detail=(k, repr(got)))
            else:
                c.check('member_not_given_is_none[%s]' % k, got is None, detail=(k, repr(got)))
    return ob


for _s in ('tuple', 'list', 'dict'):
    _mk_serialization_instance(_s)
