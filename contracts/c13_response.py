"""C13: PEP 3333 conformance of the WSGI callable and context closing, on the real handle_rpc /
handle_error / handle_wsdl_request / __finalize bodies (ghost trace per path)."""
import re

from pyvc.oblig import obligation

from .pipeline import Harness, requests_for, SECRET

ASSUME = ["the WSGI server iterates the returned iterable and calls its close() if it has one (PEP 3333)",
          "listeners return normally", "logging calls have no effect"]

STATUS_RE = re.compile(r'^\d{3} \S')


def pep3333_checks(c, h, out, aborted=False):
    tr = c.trace
    sr = [i for i, t in enumerate(tr) if t[0] == 'start_response']
    ret = [i for i, t in enumerate(tr) if t[0] == 'callable_returned']
    c.check('callable_returns', out.returned, detail=repr(out))
    if not out.returned:
        return
    c.check('start_response_exactly_once', len(sr) == 1, detail=[tr[i][:2] for i in sr])
    if len(sr) != 1:
        return
    c.check('start_response_before_body', sr[0] < ret[0])
    _, status, headers = tr[sr[0]]
    c.check('status_is_str_status_line', isinstance(status, str) and bool(STATUS_RE.match(status)), detail=repr(status))
    c.check('headers_are_str_pairs', isinstance(headers, list) and all(
        isinstance(p, tuple) and len(p) == 2 and type(p[0]) is str and type(p[1]) is str for p in headers),
        detail=repr(headers))
    chunks = [t[1] for t in tr if t[0] == 'chunk']
    c.check('chunks_are_bytes', all(isinstance(x, bytes) for x in chunks), detail=[type(x).__name__ for x in chunks])
    c.check('body_iteration_returns', h.body_outcome is None, detail=repr(h.body_outcome))
    cl = [v for k, v in headers if isinstance(k, str) and k.lower() == 'content-length']
    if cl and not aborted and all(isinstance(x, (bytes, str)) for x in chunks):
        c.check('content_length_matches_body', len(cl) == 1 and cl[0] == str(sum(len(x) for x in chunks)),
                detail=(cl, sum(len(x) for x in chunks)))
    closed = [i for i, t in enumerate(tr) if t[:3] == ('event', 'app', 'method_context_closed')]
    c.check('context_closed_exactly_once', len(closed) == 1, detail=len(closed))
    if closed:
        last_chunk = max([i for i, t in enumerate(tr) if t[0] == 'chunk'] + [ret[0]])
        c.check('context_closed_after_body_handed_over', closed[0] > last_chunk,
                detail="closed at trace index %d, last body chunk / return of the callable at %d" % (closed[0], last_chunk))


def _mk(family, chunked):
    @obligation('C13.response.%s.%s' % (family, 'chunked' if chunked else 'unchunked'),
                targets=['spyne.server.wsgi:WsgiApplication.handle_rpc', 'spyne.server.wsgi:WsgiApplication.handle_error'],
                desc="PEP 3333: one start_response before the body, str status/headers, bytes chunks, Content-Length == "
                     "body length, context closed exactly once and only after the body was handed over",
                assumptions=ASSUME)
    def ob(c):
        kinds = sorted(requests_for(family))
        kind = c.choose(kinds, 'request_kind')
        cl = c.choose(['exact', 'absent', 'empty'], 'content_length_form') if kind == 'valid' else 'exact'
        from .pipeline import USER_OUTCOMES
        h = Harness(c, family, chunked=chunked, content_length=cl,
                    user_outcomes=USER_OUTCOMES + ['redirect_302', 'redirect_301', 'redirect_303'])
        abort = c.choose([None, 1], 'client_abort_after') if kind == 'valid' else None
        out = h.run_wsgi(kind, abort_after=abort)
        pep3333_checks(c, h, out, aborted=abort is not None)
    return ob


for _f in ('http', 'httpout', 'json', 'soap11', 'xml', 'msgpackrpc'):
    for _ch in (True, False):
        _mk(_f, _ch)


def _mk_closing(family):
    @obligation('C13.closing_listener_fails.%s' % family, targets=['spyne.server.wsgi:_FinalizingIterable.close',
                                                                  'spyne.server.wsgi:WsgiApplication.__finalize',
                                                                  'spyne.context:MethodContext.close'],
                desc="a listener of wsgi_close / method_context_closed that raises while the response is being finalised "
                     "does not make the context close twice: the server's mandatory close() after a failed or completed "
                     "iteration finds the response already finalised; start_response once, bytes chunks as usual",
                assumptions=ASSUME[:1] + ["logging calls have no effect"])
    def ob(c):
        kind = c.choose(['valid', 'unknown_method'] if 'unknown_method' in requests_for(family) else ['valid'], 'request_kind')
        failing = c.choose([('transport', 'wsgi_close', 'other'), ('app', 'method_context_closed', 'other'),
                            ('service', 'method_context_closed', 'fault')], 'failing_listener')
        chunked = c.choose([True, False], 'chunked')
        abort = c.choose([None, 1], 'client_abort_after') if kind == 'valid' else None
        h = Harness(c, family, chunked=chunked, failing=failing)
        out = h.run_wsgi(kind, abort_after=abort)
        tr = c.trace
        c.check('callable_returns', out.returned, detail=repr(out))
        sr = [t for t in tr if t[0] == 'start_response']
        c.check('start_response_exactly_once', len(sr) == 1, detail=len(sr))
        chunks = [t[1] for t in tr if t[0] == 'chunk']
        c.check('chunks_are_bytes', all(isinstance(x, bytes) for x in chunks), detail=[type(x).__name__ for x in chunks])
        closed = [t for t in tr if t[:3] == ('event', 'app', 'method_context_closed')]
        c.check('context_closed_exactly_once', len(closed) == 1, detail=(len(closed), [t[:3] for t in tr if t[0] == 'event'][-8:]))
        wc = [t for t in tr if t[:3] == ('event', 'transport', 'wsgi_close')]
        c.check('wsgi_close_fired_at_most_once', len(wc) <= 1, detail=len(wc))
    return ob


for _f in ('http', 'json', 'soap11'):
    _mk_closing(_f)


class CountingInput(object):
    def __init__(self, c, body):
        import io
        self.c = c
        self.s = io.BytesIO(body)
        self.total = 0

    def read(self, n=-1):
        data = self.s.read(n)
        self.total += len(data)
        self.c.emit('input_read', n, len(data))
        return data


def _mk_limit(family):
    @obligation('C13.limit.%s' % family, targets=['spyne.server.wsgi:WsgiApplication.handle_rpc',
                                                    'spyne.server.wsgi:WsgiApplication.__wsgi_input_to_iterable'],
                desc="a request longer than max_content_length is refused with the request-too-long fault, user code "
                     "does not run and at most max_content_length bytes are read (composition of the reader contract "
                     "with the real pipeline, concrete limits)", assumptions=ASSUME)
    def ob(c):
        from .pipeline import requests_for
        h = Harness(c, family)
        method, path, qs, body, ctype = requests_for(family)['valid'][:5]
        # the forms in which the transport accepts the same request: SOAP with attachments (multipart/related),
        # HttpRpc as a POSTed form (url-encoded, multipart/form-data)
        form = c.choose({'soap11': ['plain', 'swa', 'swa_with_attachment'], 'soap12': ['plain', 'swa'],
                         'http': ['urlencoded', 'multipart_form']}.get(family, ['plain']), 'request_form')
        if form.startswith('swa'):
            att = b'--B\r\nContent-Type: application/octet-stream\r\nContent-ID: <att1>\r\n\r\nDATA\r\n' if \
                form == 'swa_with_attachment' else b''
            body = b'--B\r\nContent-Type: text/xml; charset=utf-8\r\nContent-ID: <root>\r\n\r\n' + body + b'\r\n' + att + b'--B--\r\n'
            ctype = 'multipart/related; boundary="B"; type="text/xml"; start="<root>"'
        elif form == 'urlencoded':
            method, qs, body, ctype = 'POST', '', b'i=5', 'application/x-www-form-urlencoded'
        elif form == 'multipart_form':
            method, qs, ctype = 'POST', '', 'multipart/form-data; boundary=B'
            body = b'--B\r\nContent-Disposition: form-data; name="i"\r\n\r\n5\r\n--B--\r\n'
        limit = c.choose([len(body) - 1, len(body), 4], 'max_content_length')
        declared = c.choose(['exact', 'absent', 'larger_than_limit', 'smaller_than_body'], 'declared_length')
        h.wsgi.max_content_length = limit
        h.wsgi.block_length = c.choose([1, 3, 8192], 'block_length')
        inp = CountingInput(c, body)
        env = h.env('valid')
        env['wsgi.input'] = inp
        env.update(REQUEST_METHOD=method, QUERY_STRING=qs, CONTENT_TYPE=ctype, CONTENT_LENGTH=str(len(body)))
        if declared == 'absent':
            env.pop('CONTENT_LENGTH', None)
        elif declared == 'larger_than_limit':
            env['CONTENT_LENGTH'] = str(limit + 1)
        elif declared == 'smaller_than_body':
            env['CONTENT_LENGTH'] = str(max(0, len(body) - 2))
        h.env = lambda kind: env
        out = h.run_wsgi('valid')
        pep3333_checks(c, h, out)
        c.check('bytes_read_within_limit', inp.total <= limit, detail=(inp.total, limit))
        dl = {'exact': len(body), 'absent': limit, 'larger_than_limit': limit + 1,
              'smaller_than_body': max(0, len(body) - 2)}[declared]
        if dl > limit:
            sr = [t for t in c.trace if t[0] == 'start_response']
            body = b''.join(t[1] for t in c.trace if t[0] == 'chunk' and isinstance(t[1], bytes))
            c.check('too_long_fault_sent', b'RequestTooLong' in body, detail=body[:200])
            if not family.startswith('soap'):    # SOAP answers every fault with 500 (see C09)
                c.check('too_long_is_413', len(sr) == 1 and sr[0][1].startswith('413'), detail=sr)
            c.check('too_long_no_user_code', h.user_calls == 0)
            c.check('too_long_nothing_read', inp.total == 0, detail=inp.total)
    return ob


# not 'http': HttpRpc reads a request body only for POSTed forms, which it parses with werkzeug -- not installed in this
# sandbox (an optional dependency of the package), so that path cannot be executed here
for _f in ('json', 'soap11', 'soap12', 'xml', 'yaml', 'msgpack', 'msgpackrpc'):
    _mk_limit(_f)


@obligation('C13.wsdl', targets=['spyne.server.wsgi:WsgiApplication.handle_wsdl_request'],
            desc="?wsdl: one start_response, bytes body, Content-Length == body length, also when no WSDL document exists "
                 "or the build fails", assumptions=ASSUME)
def wsdl(c):
    h = Harness(c, 'soap11')
    mode = c.choose(['lazy_build', 'prebuilt', 'no_wsdl11', 'build_fails'], 'wsdl_mode')
    env = h.env('valid')
    env.update(REQUEST_METHOD='GET', QUERY_STRING='wsdl')
    if mode == 'prebuilt':
        h.wsgi.doc.wsdl11.build_interface_document('http://h/')
    elif mode == 'no_wsdl11':
        h.wsgi.doc.wsdl11 = None
    elif mode == 'build_fails':
        def boom(url):
            raise RuntimeError(SECRET)
        h.wsgi.doc.wsdl11.build_interface_document = boom
    h.env = lambda kind: env
    out = h.run_wsgi('valid')
    tr = c.trace
    c.check('callable_returns', out.returned, detail=repr(out))
    if not out.returned:
        return
    sr = [t for t in tr if t[0] == 'start_response']
    c.check('start_response_exactly_once', len(sr) == 1)
    chunks = [t[1] for t in tr if t[0] == 'chunk']
    c.check('chunks_are_bytes', all(isinstance(x, bytes) for x in chunks), detail=[type(x).__name__ for x in chunks])
    if len(sr) == 1:
        _, status, headers = sr[0]
        c.check('headers_are_str_pairs', all(type(k) is str and type(v) is str for k, v in headers), detail=headers)
        want = {'lazy_build': '200', 'prebuilt': '200', 'no_wsdl11': '404', 'build_fails': '500'}[mode]
        c.check('status', isinstance(status, str) and status.startswith(want), detail=status)
        cl = [v for k, v in headers if k.lower() == 'content-length']
        if cl and all(isinstance(x, (bytes, str)) for x in chunks):
            c.check('content_length_matches_body', cl[0] == str(sum(len(x) for x in chunks)))
        c.check('no_leak', all(SECRET.encode() not in (x if isinstance(x, bytes) else x.encode()) for x in chunks))
    closed = [i for i, t in enumerate(tr) if t[:3] == ('event', 'app', 'method_context_closed')]
    c.check('context_closed_exactly_once', len(closed) == 1, detail=len(closed))
    sri = [i for i, t in enumerate(tr) if t[0] == 'start_response']
    if closed and sri:
        c.check('context_closed_after_start_response', closed[0] > sri[0])


@obligation('C13.limits.constructor', targets=['spyne.server.http:HttpBase.__init__', 'spyne.server.wsgi:WsgiApplication.__init__'],
            desc="for every max_content_length >= 0 and block_length > 0 given to the transport's constructor (keyword or "
                 "positional) the transport works with exactly those values -- in particular 0 means 0, not a default; "
                 "without arguments the documented defaults (2 MiB, 8 KiB) apply")
def limits_constructor(c):
    from pyvc.sym import And
    from spyne import Application, ServiceBase, rpc
    from spyne.model.primitive import Integer
    from spyne.protocol.json import JsonDocument
    from spyne.server.wsgi import WsgiApplication
    from .pipeline import TNS

    class LSvc(ServiceBase):
        @rpc(Integer, _returns=Integer)
        def m(ctx, i):
            return i
    app = Application([LSvc], TNS, name='LApp', in_protocol=JsonDocument(), out_protocol=JsonDocument())
    how = c.choose(['keywords', 'positional', 'defaults', 'only_limit', 'only_block'], 'call_form')
    L, B = c.int('max_content_length'), c.int('block_length')
    c.assume(And(L >= 0, B > 0))
    if how == 'keywords':
        out = c.run(WsgiApplication, app, max_content_length=L, block_length=B)
    elif how == 'positional':
        out = c.run(WsgiApplication, app, False, L, B)
    elif how == 'only_limit':
        out = c.run(WsgiApplication, app, max_content_length=L)
    elif how == 'only_block':
        out = c.run(WsgiApplication, app, block_length=B)
    else:
        out = c.run(WsgiApplication, app)
    c.check('constructs', out.returned, detail=repr(out))
    if not out.returned:
        return
    w = out.value
    want_l = L if how in ('keywords', 'positional', 'only_limit') else 2 * 1024 * 1024
    want_b = B if how in ('keywords', 'positional', 'only_block') else 8 * 1024
    c.check('max_content_length_as_given', w.max_content_length == want_l, detail=repr(w.max_content_length))
    c.check('block_length_as_given', w.block_length == want_b, detail=repr(w.block_length))


HEADER_TEXTS = [u'plain', u'caf\xe9', u'中文', u'', u'a b; c="d"', u'x' * 300, u'\xff\xfe']


@obligation('C13.out_header_values', targets=['spyne.protocol.http:_header_to_bytes', 'spyne.protocol.http:HttpRpc.serialize',
                                              'spyne.server.wsgi:WsgiApplication.handle_rpc'],
            bounded="a declared HTTP out header of three members (text, integer, date-time) x 7 text values (ASCII, "
                    "Latin-1, CJK, empty, separators and quotes, 300 characters, high Latin-1)",
            desc="response headers that carry values set by the method (HttpRpc out headers) are handed to "
                 "start_response as str names and str values, whatever text the method put there",
            assumptions=ASSUME)
def out_header_values(c):
    import datetime as dt
    import io
    from spyne import Application, ServiceBase, rpc
    from spyne.model.complex import ComplexModel
    from spyne.model.primitive import DateTime, Integer, Unicode
    from spyne.protocol.http import HttpRpc
    from spyne.server.wsgi import WsgiApplication
    n = c.choose(list(range(len(HEADER_TEXTS))), 'header_text')

    class RespHeader(ComplexModel):
        _type_info = [('X-Owner', Unicode), ('X-Count', Integer), ('Expires', DateTime)]

    class HSvc(ServiceBase):
        __out_header__ = RespHeader

        @rpc(Integer, _returns=Unicode)
        def f(ctx, i):
            ctx.out_header = RespHeader(**{'X-Owner': HEADER_TEXTS[i], 'X-Count': i, 'Expires': dt.datetime(2020, 1, 1, 0, 0, 0)})
            return u'ok'
    app = Application([HSvc], 'verif.tns', in_protocol=HttpRpc(), out_protocol=HttpRpc())
    env = {'REQUEST_METHOD': 'GET', 'PATH_INFO': '/f', 'QUERY_STRING': 'i=%d' % n, 'SERVER_NAME': 'h', 'SERVER_PORT': '80',
           'wsgi.url_scheme': 'http', 'wsgi.input': io.BytesIO(b''), 'CONTENT_LENGTH': '0'}
    seen = []

    def sr(status, headers, exc=None):
        seen.append((status, list(headers)))
    sr._pyvc_native = True
    out = c.run(WsgiApplication(app), env, sr)
    c.check('callable_returns', out.returned, detail=repr(out))
    if out.returned:
        c.run(lambda: list(out.value))
    c.check('start_response_exactly_once', len(seen) == 1, detail=len(seen))
    if len(seen) != 1:
        return
    status, headers = seen[0]
    c.check('status_is_str_status_line', isinstance(status, str) and bool(STATUS_RE.match(status)), detail=repr(status))
    c.check('headers_are_str_pairs', all(isinstance(p, tuple) and len(p) == 2 and type(p[0]) is str and type(p[1]) is str
                                         for p in headers), detail=repr(headers)[:400])
    if status.startswith('200'):
        c.check('header_carries_the_text', dict(headers).get('X-Owner') == HEADER_TEXTS[n], detail=repr(dict(headers).get('X-Owner'))[:80])


@obligation('C13.out_header_text', targets=['spyne.protocol.http:_header_to_bytes'],
            desc="for every text value (symbolic) of a Unicode out-header member the value handed on is that very text (a str), "
                 "never bytes; an integer member is rendered as its decimal text (str)")
def out_header_text(c):
    from pyvc.text import FmtStr
    from pyvc.sym import SStr
    from spyne.model.primitive import Integer, Unicode
    from spyne.protocol.http import HttpRpc, _header_to_bytes
    prot = HttpRpc()
    kind = c.choose(['text', 'integer'], 'member_type')
    if kind == 'text':
        v = c.str('value')
        out = c.run(_header_to_bytes, prot, v, Unicode)
        c.check('returns', out.returned, detail=repr(out))
        if out.returned:
            c.check('the_text_itself', (out.value is v) if not c.concrete else (type(out.value) is str and out.value == v),
                    detail=repr(out.value))
    else:
        v = c.int('value')
        out = c.run(_header_to_bytes, prot, v, Integer)
        c.check('returns', out.returned, detail=repr(out))
        if out.returned:
            if c.concrete:
                c.check('decimal_text', type(out.value) is str and out.value == str(v), detail=repr(out.value))
            else:
                c.check('decimal_text', isinstance(out.value, (str, FmtStr, SStr)) and getattr(out.value, 'pytype', str) is str,
                        detail=repr(out.value))


@obligation('C13.gen_http_headers', targets=['spyne.server.wsgi:_gen_http_headers'],
            desc="for EVERY header text (symbolic): the list handed to start_response has one (name, value) pair per value -- a "
                 "header set to a list or a tuple of values (e.g. several Set-Cookie) is expanded in order, a scalar is passed "
                 "as it is; every pair is a 2-tuple whose members are the very objects given, so text stays text",
            assumptions=["header mappings with two entries; each value a text, or a list/tuple of 0..2 texts"])
def gen_http_headers(c):
    from spyne.server import wsgi as W
    kinds = ['str', 'list0', 'list1', 'list2', 'tuple0', 'tuple1', 'tuple2']
    k1, k2 = c.choose(kinds, 'first_value_kind'), c.choose(kinds, 'second_value_kind')
    texts = [c.str('v%d' % i) for i in range(4)]

    def mk(kind, a, b):
        if kind == 'str':
            return a, [a]
        n = int(kind[-1])
        seq = [a, b][:n]
        return (list(seq) if kind.startswith('list') else tuple(seq)), seq
    h1, flat1 = mk(k1, texts[0], texts[1])
    h2, flat2 = mk(k2, texts[2], texts[3])
    from collections import OrderedDict
    headers = OrderedDict([('Set-Cookie', h1), ('X-Other', h2)])
    out = c.run(W._gen_http_headers, headers)
    c.check('returns', out.returned, detail=repr(out))
    if not out.returned:
        return
    want = [('Set-Cookie', v) for v in flat1] + [('X-Other', v) for v in flat2]
    got = list(out.value)
    c.check('one_pair_per_value', len(got) == len(want), detail=(k1, k2, len(got)))
    c.check('pairs_are_2_tuples', all(type(p) is tuple and len(p) == 2 for p in got), detail=(k1, k2))
    if len(got) == len(want) and all(type(p) is tuple and len(p) == 2 for p in got):
        c.check('names_and_values_in_order', all(g[0] == w[0] and g[1] is w[1] for g, w in zip(got, want)), detail=(k1, k2))
