"""C01: XML/SOAP wire fidelity -- sent values reach the function, results reach the client.

Symbolic (proved): occurrence lemmas of the structural codec -- for a member with symbolic min_occurs /
max_occurs, _get_members_etree emits exactly the children the schema convention prescribes and
complex_from_element reads them back (list in document order / last value / None), rejecting under soft
validation iff the count is outside [min_occurs, max_occurs].  Leaves are C08's lemmas.
Bounded (labelled): requests built by an independent reference encoder (spec/xmlref.py) for generated
signatures and boundary values, through the real pipeline of XmlDocument / Soap11 / Soap12 x validators;
the user function must be invoked exactly once with equal values and the response, read by the independent
reference decoder, must denote exactly the value returned."""
import datetime as dt
import decimal
import io
import uuid

import pytz
from lxml import etree

from pyvc.oblig import obligation
from pyvc.sym import And, Or, Not, Implies, Iff, SInt
from spec import xmlref

from spyne import Application, ServiceBase, rpc, Fault
from spyne.model.binary import ByteArray
from spyne.model.complex import ComplexModel, Array, XmlAttribute, XmlData
from spyne.model.primitive import (Integer, Unicode, Decimal, Double, Boolean, DateTime, Date, Duration, Uuid, Integer32,
                                   Integer8, Integer16, Integer64, UnsignedInteger8, UnsignedInteger64)
from spyne.protocol.soap import Soap11, Soap12
from spyne.protocol.xml import XmlDocument
from spyne.server.wsgi import WsgiApplication

from .pipeline import soap_env, SOAP11_NS, SOAP12_NS, TNS

XSI = xmlref.XSI


# ------------------------------------------------------------------------------------------ occurrence lemmas

def _holder(c, declare_values=True):
    """A real one-member class whose member type has symbolic occurrence attributes."""
    mn = c.int('min_occurs')
    mx = c.int('max_occurs')
    c.assume(And(mn >= 0, mx >= 1, mn <= mx, mn <= 3, mx <= 5))
    if c.concrete:
        F = Integer.customize(min_occurs=mn, max_occurs=mx)
    else:
        F = Integer.customize()

    class Holder(ComplexModel):
        __namespace__ = TNS
        before = Unicode
        f = F
        after = Unicode

    def plant():
        # after class construction and application set-up (which inspect the attributes natively)
        if not c.concrete:
            F.Attributes.min_occurs = mn
            F.Attributes.max_occurs = mx
    return Holder, F, mn, mx, plant


@obligation('C01.members.emission', targets=['spyne.protocol.xml:XmlDocument._get_members_etree'],
            desc="for a member with symbolic min_occurs/max_occurs: None emits nothing if min_occurs == 0 and one xsi:nil "
                 "element otherwise; a list (max_occurs > 1) emits one element per item in order; a scalar emits one "
                 "element with its text; siblings keep their declaration order around it",
            assumptions=["lxml keeps append order, text and attributes", "leaf text forms: C08"])
def emission(c):
    Holder, F, mn, mx, plant = _holder(c)
    kind = c.choose(['none', 'scalar', 'list0', 'list1', 'list3'], 'value_kind')
    val = {'none': None, 'scalar': 7, 'list0': [], 'list1': [4], 'list3': [1, 2, 3]}[kind]
    if kind.startswith('list'):
        c.assume(mx > 1)
    if kind == 'scalar':
        c.assume(mx == 1)
    prot = XmlDocument()
    app = Application([type(ServiceBase)('S', (ServiceBase,), {'m': rpc(Holder, _returns=Holder)(lambda ctx, h: h)})], TNS,
                      in_protocol=prot, out_protocol=XmlDocument())
    inst = Holder(before='b', f=val, after='a')
    plant()
    parent = etree.Element('parent')
    out = c.run(prot._get_members_etree, None, Holder, inst, parent)
    c.check('returns', out.returned, detail=repr(out))
    if not out.returned:
        return
    names = [ch.tag.split('}')[-1] for ch in parent]
    fs = [ch for ch in parent if ch.tag.endswith('}f')]
    c.check('siblings_in_declaration_order', [n for n in names if n != 'f'] == ['before', 'after'] and
            (not fs or (names.index('f') == 1 and names[-1] == 'after')), detail=names)
    n = len(fs)
    if kind == 'none':
        c.check('none_emits_iff_mandatory', Iff(mn > 0, n == 1) if not c.concrete else ((mn > 0) == (n == 1)), detail=n)
        c.check('none_emits_at_most_one', n <= 1, detail=n)
        if n == 1:
            c.check('none_is_xsi_nil', fs[0].get('{%s}nil' % XSI) in ('true', '1') and not fs[0].text)
    elif kind == 'scalar':
        c.check('scalar_one_element', n == 1 and fs[0].text == '7', detail=[e.text for e in fs])
    else:
        c.check('one_element_per_item_in_order', [e.text for e in fs] == [str(x) for x in val], detail=[e.text for e in fs])


@obligation('C01.members.decoding', targets=['spyne.protocol.xml:XmlDocument.complex_from_element'],
            desc="for a member with symbolic min_occurs/max_occurs and k = 0..3 occurrences in the document: the value is "
                 "the list of items in document order when max_occurs > 1 (None when k = 0), the last occurrence otherwise; "
                 "under soft validation the element is rejected with a Client fault iff k is outside "
                 "[min_occurs, max_occurs]; siblings are read independently",
            assumptions=["lxml child iteration in document order"])
def decoding(c):
    Holder, F, mn, mx, plant = _holder(c)
    k = c.choose([0, 1, 2, 3], 'occurrences')
    validator = c.choose(['soft', None], 'validator')
    prot = XmlDocument(validator=validator)
    app = Application([type(ServiceBase)('S', (ServiceBase,), {'m': rpc(Holder, _returns=Holder)(lambda ctx, h: h)})], TNS,
                      in_protocol=prot, out_protocol=XmlDocument())
    from spyne.context import MethodContext
    from spyne.server import ServerBase
    ctx = MethodContext(ServerBase(app), MethodContext.SERVER)
    xml = '<tns:Holder xmlns:tns="%s"><tns:before>b</tns:before>%s<tns:after>a</tns:after></tns:Holder>' % (
        TNS, ''.join('<tns:f>%d</tns:f>' % (10 + i) for i in range(k)))
    elt = etree.fromstring(xml)
    plant()
    out = c.run(prot.complex_from_element, ctx, Holder, elt)
    in_bounds = And(mn <= k, k <= mx)
    if validator == 'soft':
        c.check('rejected_iff_count_out_of_bounds', Iff(Not(in_bounds), out.raised) if not c.concrete else
                ((not in_bounds) == out.raised), detail=repr(out))
        if out.raised:
            c.check('rejection_is_client_fault', isinstance(out.exc, Fault) and out.exc.faultcode.startswith('Client'),
                    detail=repr(out))
    else:
        c.check('accepted_without_validation', out.returned, detail=repr(out))
    if out.returned:
        h = out.value
        c.check('siblings_read', h.before == 'b' and h.after == 'a', detail=(h.before, h.after))
        want_list = [10 + i for i in range(k)]
        if c.concrete:
            want = (want_list or None) if mx > 1 else (want_list[-1] if want_list else None)
            c.check('member_value', h.f == want, detail=(h.f, want))
        else:
            is_list = isinstance(h.f, list)
            c.check('list_iff_repeatable', Implies(mx > 1, is_list or (k == 0 and h.f is None)), detail=repr(h.f))
            c.check('scalar_iff_single', Implies(mx == 1, not is_list), detail=repr(h.f))
            if is_list:
                c.check('items_in_document_order', h.f == want_list, detail=h.f)
            elif h.f is not None:
                c.check('last_occurrence', h.f == want_list[-1], detail=h.f)


# ------------------------------------------------------------------------------------------ generated signatures

class Inner(ComplexModel):
    __namespace__ = TNS
    x = Integer
    s = Unicode
    t = XmlAttribute(Unicode)


class Sub(Inner):
    __namespace__ = TNS
    extra = Integer32(min_occurs=1)


class ForeignBase(ComplexModel):
    __namespace__ = 'verif.other'
    fb = Integer
    fs = Unicode


class Sub2(ForeignBase):
    __namespace__ = TNS
    own = Integer


class Amount(ComplexModel):
    """an element with character content (XmlData) and an attribute: <amount unit="kg">0</amount>"""
    __namespace__ = TNS
    value = XmlData(Decimal)
    unit = XmlAttribute(Unicode)
    ratio = XmlAttribute(Decimal)          # attributes of types whose text form is not the native value
    since = XmlAttribute(Date)


class Flag(ComplexModel):
    __namespace__ = TNS
    on = XmlData(Boolean)
    count = XmlAttribute(Integer)


class Outer(ComplexModel):
    __namespace__ = TNS
    n = Integer
    skipme = Unicode(exc=True)          # excluded from (de)serialisation, deliberately not the last member
    inner = Inner
    sub = Sub
    sub2 = Sub2
    items = Array(Inner)
    tags = Unicode(max_occurs='unbounded')
    when = DateTime
    amount = Decimal
    code = XmlAttribute(Integer)
    must = Integer(min_occurs=1, nillable=True)
    amount2 = Amount
    flag = Flag
    # constrained members: conformant values (also non-ASCII ones) pass every validator
    # fixed-width integers: both ends of each range are values like any other
    i8 = Integer8
    i16 = Integer16
    i64 = Integer64
    u8 = UnsignedInteger8
    u64 = UnsignedInteger64
    word = Unicode(pattern=u'\\w+', max_len=10)
    digits = Unicode(pattern=u'\\d{2,4}')
    small = Integer(ge=0, le=10)


class Hdr(ComplexModel):
    __namespace__ = TNS
    token = Unicode
    seq = Integer


class Hdr2(ComplexModel):
    __namespace__ = TNS
    trace = Unicode


class Mix(ComplexModel):
    """a mixin: its fields are folded into the class that lists it, after the inherited ones"""
    __mixin__ = True
    m1 = Integer
    m2 = Unicode


class Renamed(ComplexModel):
    """members that travel under another name (sub_name); sub_ns is left to C06.sub_ns (open finding: the schema
    generator ignores it)"""
    __namespace__ = TNS
    plain = Integer
    alias = Unicode(sub_name='wireName')
    far = Integer(sub_name='farName')
    many = Unicode(sub_name='item', max_occurs='unbounded')


class RenamedSub(Renamed, Mix):
    __namespace__ = TNS
    own = Integer(sub_name='ownWire')
    nested = Renamed


def renamed_values():
    inner = Renamed(plain=1, alias='a', far=2, many=['x', 'y'])
    return [RenamedSub(plain=3, alias='b', far=4, many=['p'], m1=5, m2='mm', own=6, nested=inner),
            RenamedSub(alias='only-alias'), RenamedSub(own=0, nested=Renamed(far=0)), RenamedSub()]


PRIMS = [('i', Integer), ('u', Unicode), ('d', Decimal), ('b', Boolean), ('f', Double), ('t', DateTime), ('a', Date),
         ('y', ByteArray), ('r', Duration), ('z', Uuid)]

TZ = pytz.FixedOffset(-210)
PRIM_VALUES = [
    dict(i=0, u='x', d=decimal.Decimal('0'), b=True, f=0.0, t=dt.datetime(2020, 2, 29, 23, 59, 59), a=dt.date(2020, 2, 29),
         y=[b'\x00\xff'], r=dt.timedelta(0), z=uuid.UUID(int=0)),
    dict(i=-1, u=' a<&>"\' b ', d=decimal.Decimal('-1.50'), b=False, f=-1.5, t=dt.datetime(1999, 12, 31, 0, 0, 0, 5, pytz.utc),
         a=dt.date(1, 1, 1), y=[b'ab', b'cde'], r=dt.timedelta(microseconds=5), z=uuid.UUID(int=2 ** 128 - 1)),
    dict(i=2 ** 70, u=u'\xe9中\U0001f600', d=decimal.Decimal('123456789012345678901234567890.000000001'), b=True,
         f=1e22, t=dt.datetime(2021, 6, 1, 12, 0, 0, 250000, TZ), a=dt.date(9999, 12, 31), y=[bytes(range(256))],
         r=dt.timedelta(days=-2, seconds=3, microseconds=999999), z=uuid.UUID('12345678-1234-5678-1234-567812345678')),
    dict(i=None, u='', d=None, b=None, f=5e-324, t=dt.datetime(2000, 1, 1, 0, 0, 0, 0, pytz.FixedOffset(14 * 60)), a=None,
         y=None, r=dt.timedelta(days=400, microseconds=1), z=None),
    dict(i=-2 ** 63, u='line1\nline2\ttab', d=decimal.Decimal('0.000001'), b=False, f=123456789.125,
         t=dt.datetime(2024, 2, 29, 1, 2, 3, 999999, pytz.FixedOffset(-1)), a=dt.date(2024, 2, 29), y=[b''],
         r=dt.timedelta(seconds=86399), z=uuid.UUID(int=1)),
    # a body of several transport blocks (the WSGI transport reads 8 KiB at a time): 3-byte characters, so that whatever
    # precedes the text at least two of the block boundaries at 8192 / 16384 / 24576 fall inside a character
    dict(i=1, u=u'\u4e2d' * 9000, d=decimal.Decimal('1'), b=True, f=1.0, t=dt.datetime(2020, 1, 1, 0, 0, 0), a=dt.date(2020, 1, 1),
         y=[b'x' * 5000, b'y' * 5000], r=dt.timedelta(1), z=uuid.UUID(int=5)),
]


GENERATED = 60      # thorough tier: that many more value vectors, generated from VERIF_SEED (spec/gen.py)


def prim_values(c, k):
    if k < len(PRIM_VALUES):
        return PRIM_VALUES[k]
    from spec import gen
    return gen.prim_vector(c.seed, k)


def _shared():
    """The same (acyclic) instance referenced from several slots."""
    p = Inner(x=3, s='shared', t='tt')
    return Outer(n=7, inner=p, items=[p, p, Inner(x=4)], must=1, sub=Sub(x=1, extra=2))


def outer_values():
    return [
        Outer(n=1, inner=Inner(x=1, s='a', t='attr'), items=[Inner(x=1, s='a'), Inner(x=2)], tags=['p', 'q'],
              when=dt.datetime(2020, 1, 1, 0, 0, 0, 0, TZ), amount=decimal.Decimal('1.50'), code=7, must=5,
              sub=Sub(x=9, s='s', extra=3), sub2=Sub2(fb=1, fs='f', own=2), amount2=Amount(value=decimal.Decimal('12.5'), unit='kg', ratio=decimal.Decimal('0.50'), since=dt.date(2020, 2, 29)),
              flag=Flag(on=True, count=3), word=u'Gr\xf6\xdfe', digits=u'\u0661\u0662\u0663', small=10,
              i8=-2 ** 7, i16=-2 ** 15, i64=-2 ** 63, u8=0, u64=0),
        Outer(must=None, amount2=Amount(value=decimal.Decimal('0'), unit='g', ratio=decimal.Decimal('0')), flag=Flag(on=False, count=0),
              word=u'\u6771\u4eac', digits=u'0123', small=0, i8=2 ** 7 - 1, i16=2 ** 15 - 1, i64=2 ** 63 - 1, u8=2 ** 8 - 1,
              u64=2 ** 64 - 1),
        Outer(n=0, inner=Inner(), items=[], tags=[], must=0, sub=Sub(extra=0)),
        Outer(n=-5, items=[Inner(x=None, s=''), Inner(x=2 ** 64, s=u'\xe9', t='')], tags=['only'], code=0, must=1),
        _shared(),
    ]


def return_forms():
    """(what the function returns, the value it denotes): a complex return value may be given as an instance, as a
    sequence aligned with the members (ancestors first; shorter = the rest unset) or as a dict (get_serialization_instance)"""
    return [((1, 's', 't', 2), Sub(x=1, s='s', t='t', extra=2)),
            ([4, 'base-only'], Sub(x=4, s='base-only')),
            ({'extra': 5, 'x': 6}, Sub(x=6, extra=5)),
            ((), Sub()),
            (Sub(x=7, extra=8), Sub(x=7, extra=8))]


def _services(got):
    ptypes = [t for _, t in PRIMS]

    class Svc(ServiceBase):
        __in_header__ = Hdr
        __out_header__ = Hdr

        @rpc(*ptypes, _returns=ptypes)
        def prims(ctx, i, u, d, b, f, t, a, y, r, z):
            got.append(('prims', (i, u, d, b, f, t, a, y, r, z), ctx.in_header))
            ctx.out_header = ctx.in_header
            return i, u, d, b, f, t, a, y, r, z

        @rpc(Integer, _returns=ptypes)
        def produce(ctx, which):
            # values built by the function itself (several byte chunks, not what a decoder delivered)
            got.append(('produce', (which,), ctx.in_header))
            return tuple(PRIM_VALUES[which][k] for k, _ in PRIMS)

        @rpc(Integer, _returns=Sub)
        def forms(ctx, which):
            got.append(('forms', (which,), ctx.in_header))
            return return_forms()[which][0]

        @rpc(RenamedSub, _returns=RenamedSub)
        def renamed(ctx, r):
            got.append(('renamed', (r,), ctx.in_header))
            return r

        @rpc(Outer, _returns=Outer)
        def struct(ctx, o):
            got.append(('struct', (o,), ctx.in_header))
            return o

        @rpc(Array(Integer), Integer(max_occurs='unbounded'), Array(Inner), _returns=[Array(Integer), Integer(max_occurs='unbounded'), Array(Inner)])
        def arrays(ctx, a, r, c):
            got.append(('arrays', (a, r, c), ctx.in_header))
            return a, r, c

        @rpc()
        def nothing(ctx):
            got.append(('nothing', (), ctx.in_header))

        @rpc(_returns=[Outer, Array(Inner)])
        def shared(ctx):
            got.append(('shared', (), ctx.in_header))
            o = _shared()
            return o, [o.inner] * 3

        @rpc(Outer, _returns=Outer, _body_style='bare')
        def bare(ctx, o):
            got.append(('bare', (o,), ctx.in_header))
            return o

        @rpc(_returns=Inner, _body_style='bare')
        def bare_noargs(ctx):
            got.append(('bare_noargs', (), ctx.in_header))
            return Inner(x=11, s='no arguments', t='attr')

        @rpc(_returns=Inner, _body_style='out_bare')
        def outbare_noargs(ctx):
            got.append(('outbare_noargs', (), ctx.in_header))
            return Inner(x=12, s='no arguments either')

        @rpc(Integer, Unicode, _returns=Inner, _body_style='out_bare')
        def outbare(ctx, x, s):
            got.append(('outbare', (x, s), ctx.in_header))
            return Inner(x=x, s=s)
    return Svc


ARRAY_VALUES = [([1, 2, 3], [4, 5], [Inner(x=1), Inner(s='z')]), ([], [], []), (None, None, None), ([0], [0], [Inner()]),
                ([2 ** 70, -1], [7], [Inner(x=1, s='a', t='b')] * 2)]


def _proto(family, validator):
    P = {'xml': XmlDocument, 'soap11': Soap11, 'soap12': Soap12}[family]
    return P(validator=validator), P()


def _mk_roundtrip(family, validator):
    @obligation('C01.roundtrip.%s.%s' % (family, validator or 'none'),
                targets=['spyne.protocol.xml:XmlDocument.deserialize', 'spyne.protocol.xml:XmlDocument.serialize',
                         'spyne.protocol.soap.soap11:Soap11.deserialize', 'spyne.protocol.soap.soap11:Soap11.serialize'],
                bounded="10 signatures (10 primitives with 5 boundary value vectors, nested/inherited/attribute-carrying "
                        "complex type with 5 values, wrapped/unwrapped/complex arrays with 5 values, no arguments, bare and "
                        "out_bare body styles, values built by the function, renamed members, a derived complex return "
                        "value given as instance / full or partial sequence / dict) x with/without SOAP header x comments",
                desc="a request built by the independent reference encoder invokes the user function exactly once with "
                     "equal values; the response read by the independent reference decoder denotes exactly the values "
                     "returned (absent = None, empty unwrapped sequence = None, empty bytes = None)")
    def ob(c):
        got = []
        inp, outp = _proto(family, validator)
        app = Application([_services(got)], TNS, name='VApp', in_protocol=inp, out_protocol=outp)
        wsgi = WsgiApplication(app)
        meth = c.choose(['prims', 'struct', 'arrays', 'nothing', 'bare', 'outbare', 'shared', 'produce', 'renamed', 'forms', 'bare_noargs', 'outbare_noargs'], 'method')
        d = app.interface.service_method_map['{%s}%s' % (TNS, meth)][0]
        if meth == 'forms':
            args = [c.choose(list(range(len(return_forms()))), 'values')]
        elif meth == 'renamed':
            args = [renamed_values()[c.choose([0, 1, 2, 3], 'values')]]
        elif meth == 'produce':
            args = [c.choose(list(range(len(PRIM_VALUES))), 'values')]
        elif meth == 'prims':
            vals = prim_values(c, c.choose(list(range(len(PRIM_VALUES) + (GENERATED if c.thorough else 0))), 'values'))
            args = [vals[k] for k, _ in PRIMS]
        elif meth in ('struct', 'bare'):
            args = [outer_values()[c.choose([0, 1, 2, 3, 4], 'values')]]
        elif meth == 'arrays':
            args = list(ARRAY_VALUES[c.choose(list(range(len(ARRAY_VALUES))), 'values')])
        elif meth == 'outbare':
            args = [[5, 's'], [None, None], [0, '']][c.choose([0, 1, 2], 'values')]
        else:
            args = []
        with_header = family != 'xml' and c.choose([False, True], 'with_header')
        in_ti = d.in_message._type_info
        # the request may spell its values with other literals of the same lexical space ('1' for true, '+05', a decimal
        # with a sign or a trailing zero, base64 broken into lines, 'Z' for +00:00)
        xmlref.VARIANT[0] = meth in ('prims', 'struct', 'arrays') and c.choose(['canonical', 'other_literals'], 'lexical_form') == 'other_literals'
        root = etree.Element('{%s}%s' % (TNS, meth), nsmap={'tns': TNS, 'xsi': XSI})
        if meth == 'bare':
            # bare: the message element *is* the argument
            o = args[0]
            T = Outer
            for k, ft in T.get_flat_type_info(T).items():
                xmlref.encode_into(root, ft, getattr(o, k, None), k, TNS)
        else:
            for (k, ft), v in zip(in_ti.items(), args):
                xmlref.encode_into(root, ft, v, k, TNS)
        xmlref.VARIANT[0] = False
        with_comments = c.choose([False, True], 'comments_in_request')
        if with_comments:
            # comments may appear anywhere in a schema-valid document: inside simple content, between members and
            # array items, before the operation element
            for e in list(root.iter()):
                if isinstance(e.tag, str) and len(e) == 0 and e.text and len(e.text) > 1:
                    t0 = e.text
                    e.text = t0[:1]
                    cm = etree.Comment(' split ')
                    cm.tail = t0[1:]
                    e.append(cm)
                elif isinstance(e.tag, str) and len(e) > 0:
                    e.insert(0, etree.Comment(' first '))
                    e.insert(len(e) // 2 + 1, etree.Comment(' middle '))
        body = etree.tostring(root)
        if with_comments:
            body = b'<!-- before the operation -->' + body
        if family == 'xml':
            data = body
        else:
            ns = SOAP11_NS if family == 'soap11' else SOAP12_NS
            hdr = ''
            if with_header:
                hdr = '<e:Header><tns:Hdr xmlns:tns="%s"><tns:token>tok</tns:token><tns:seq>9</tns:seq></tns:Hdr></e:Header>' % TNS
            data = ('<e:Envelope xmlns:e="%s">%s<e:Body>%s</e:Body></e:Envelope>' % (ns, hdr, body.decode())).encode()
        env = {'REQUEST_METHOD': 'POST', 'PATH_INFO': '/', 'QUERY_STRING': '', 'SERVER_NAME': 'h', 'SERVER_PORT': '80',
               'wsgi.url_scheme': 'http', 'wsgi.input': io.BytesIO(data), 'CONTENT_TYPE': 'text/xml',
               'CONTENT_LENGTH': str(len(data))}
        seen = []

        def sr(status, headers, exc_info=None):
            seen.append(status)
        sr._pyvc_native = True
        out = c.run(wsgi, env, sr)
        c.check('callable_returns', out.returned, detail=repr(out))
        if not out.returned:
            return
        chunks = []
        c.run(lambda: chunks.extend(list(out.value)))
        resp = b''.join(chunks)
        c.check('status_200', bool(seen) and seen[0].startswith('200'), detail=(seen, resp[:400], data[:300]))
        c.check('function_invoked_exactly_once', len(got) == 1, detail=(len(got), resp[:300]))
        if len(got) != 1 or not seen[0].startswith('200'):
            return
        _, recv, in_header = got[0]
        if meth == 'bare':
            types = [Outer]
        else:
            types = list(in_ti.values())
        for (k, t), sent, r in zip([(k, t) for k, t in (in_ti.items() if meth != 'bare' else [('o', Outer)])], args, recv):
            c.check('argument_equal[%s]' % k, xmlref.norm(t, r) == xmlref.norm(t, sent),
                    detail=(k, xmlref.norm(t, r), xmlref.norm(t, sent)))
        if with_header:
            c.check('header_delivered', in_header is not None and in_header.token == 'tok' and in_header.seq == 9,
                    detail=repr(in_header))
        # response
        rroot = etree.fromstring(resp)
        if family != 'xml':
            ns = SOAP11_NS if family == 'soap11' else SOAP12_NS
            bodyel = rroot.find('{%s}Body' % ns)
            rmsg = bodyel[0]
            if with_header and meth == 'prims':
                h = rroot.find('{%s}Header' % ns)
                c.check('out_header_sent', h is not None and len(h) == 1 and h[0].findtext('{%s}token' % TNS) == 'tok',
                        detail=etree.tostring(h)[:200] if h is not None else None)
        else:
            rmsg = rroot
        out_ti = d.out_message._type_info
        if meth in ('bare', 'outbare', 'bare_noargs', 'outbare_noargs'):
            T = Outer if meth == 'bare' else Inner
            dec = {k: xmlref.decode_from(rmsg, ft, k, TNS) for k, ft in T.get_flat_type_info(T).items()}
            ret = args[0] if meth == 'bare' else (Inner(x=args[0], s=args[1]) if meth == 'outbare' else (
                Inner(x=11, s='no arguments', t='attr') if meth == 'bare_noargs' else Inner(x=12, s='no arguments either')))
            c.check('response_denotes_returned_value', xmlref.norm(T, dec) == xmlref.norm(T, ret),
                    detail=(xmlref.norm(T, dec), xmlref.norm(T, ret)))
        else:
            rets = args
            if meth == 'shared':
                o = _shared()
                rets = [o, [o.inner] * 3]
            if meth == 'produce':
                rets = [PRIM_VALUES[args[0]][k] for k, _ in PRIMS]
            if meth == 'forms':
                rets = [return_forms()[args[0]][1]]
            for (k, t), ret in zip(out_ti.items(), rets):
                try:
                    dec = xmlref.decode_from(rmsg, t, k, TNS)
                except Exception as e:
                    c.check('response_denotes_returned_value', False, detail=(k, repr(e), etree.tostring(rmsg)[:300]))
                    continue
                c.check('response_denotes_returned_value', xmlref.norm(t, dec) == xmlref.norm(t, ret),
                        detail=(k, xmlref.norm(t, dec), xmlref.norm(t, ret), etree.tostring(rmsg)[:300]))
    return ob


for _f in ('xml', 'soap11', 'soap12'):
    for _v in (None, 'soft', 'lxml'):
        _mk_roundtrip(_f, _v)


# ------------------------------------------------------------------------------------------ loopback client

from spyne.client import RemoteProcedureBase, RemoteService, ClientBase


def _mk_client(family):
    @obligation('C01.client.%s' % family, targets=['spyne.client._base:RemoteProcedureBase.get_out_object',
                                                    'spyne.client._base:RemoteProcedureBase.get_in_object'],
                bounded="wrapped-style signatures (the call styles the Spyne client supports): 10 primitives x 5 value "
                        "vectors, complex type x 4 values, arrays x 5 values; positional and keyword invocation",
                desc="the Spyne client, looped back in-process onto the WSGI server, delivers equal argument values to the "
                     "user function and decodes the response to a value equal to the one returned")
    def ob(c):
        got = []
        inp, outp = _proto(family, 'soft')
        server_app = Application([_services(got)], TNS, name='VApp', in_protocol=inp, out_protocol=outp)
        wsgi = WsgiApplication(server_app)
        cin, cout = _proto(family, None)
        client_app = Application([_services([])], TNS, name='VApp', in_protocol=cin, out_protocol=cout)
        ctype = 'text/xml'

        class Loopback(RemoteProcedureBase):
            def __call__(self, *args, **kwargs):
                ctx = self.contexts[0]
                self.get_out_object(ctx, args, kwargs)
                self.get_out_string(ctx)
                body = b''.join(ctx.out_string)
                env = {'REQUEST_METHOD': 'POST', 'PATH_INFO': '/', 'QUERY_STRING': '', 'SERVER_NAME': 'h',
                       'SERVER_PORT': '80', 'wsgi.url_scheme': 'http', 'wsgi.input': io.BytesIO(body),
                       'CONTENT_TYPE': ctype, 'CONTENT_LENGTH': str(len(body))}

                def sr(status, headers, exc_info=None):
                    pass
                sr._pyvc_native = True
                ctx.in_string = [b''.join(wsgi(env, sr))]
                self.get_in_object(ctx)
                if ctx.in_error is not None:
                    raise ctx.in_error
                return ctx.in_object
        if not c.concrete:
            c.interp.prefixes = c.interp.prefixes + (__name__,)     # interpret the loopback transport as well
        svc = RemoteService(Loopback, 'http://loop/', client_app)
        meth = c.choose(['prims', 'struct', 'arrays'], 'method')
        if meth == 'prims':
            vals = PRIM_VALUES[c.choose(list(range(len(PRIM_VALUES))), 'values')]
            args = [vals[k] for k, _ in PRIMS]
            types = [t for _, t in PRIMS]
        elif meth == 'struct':
            args = [outer_values()[c.choose([0, 1, 2, 3, 4], 'values')]]
            types = [Outer]
        else:
            args = list(ARRAY_VALUES[c.choose(list(range(len(ARRAY_VALUES))), 'values')])
            types = [Array(Integer), Integer(max_occurs='unbounded'), Array(Inner)]
        by_kw = c.choose([False, True], 'keyword_invocation')
        d = client_app.interface.service_method_map['{%s}%s' % (TNS, meth)][0]
        names = list(d.in_message._type_info.keys())
        if by_kw:
            out = c.run(getattr(svc, meth), **dict(zip(names, args)))
        else:
            out = c.run(getattr(svc, meth), *args)
        c.check('call_returns', out.returned, detail=repr(out))
        c.check('function_invoked_exactly_once', len(got) == 1, detail=len(got))
        if got:
            for t, sent, r, k in zip(types, args, got[0][1], names):
                c.check('argument_equal', xmlref.norm(t, r) == xmlref.norm(t, sent), detail=(k, xmlref.norm(t, r),
                                                                                             xmlref.norm(t, sent)))
        if out.returned:
            res = out.value
            if len(types) == 1:
                res = [res]
            else:
                res = [getattr(res, k, None) for k in d.out_message._type_info.keys()] if not isinstance(res, (list, tuple)) \
                    else list(res)
            for t, ret, r in zip(types, args, res):
                c.check('result_equal', xmlref.norm(t, r) == xmlref.norm(t, ret), detail=(xmlref.norm(t, r), xmlref.norm(t, ret)))
    return ob


for _f in ('xml', 'soap11'):
    _mk_client(_f)


# ------------------------------------------------------------------------------------------ character encodings

def _mk_encodings(family):
    @obligation('C01.encodings.%s' % family, targets=['spyne.protocol.soap.soap11:_parse_xml_string',
                                                      'spyne.protocol.xml:XmlDocument.create_in_document',
                                                      'spyne.server.wsgi:WsgiApplication._WsgiApplication__reconstruct_wsgi_request'],
                bounded="5 document encodings (utf-8, iso-8859-1, windows-1252, utf-16 with BOM, us-ascii with character "
                        "references) x XML declaration present / absent x charset parameter in Content-Type present / absent "
                        "(consistent combinations only) x 3 texts",
                desc="a request in any encoding an XML parser must or commonly does support, declared in the prolog and / or "
                     "the Content-Type, delivers exactly the text that was sent to the function, which is invoked once; the "
                     "response (UTF-8) carries the text back unchanged")
    def ob(c):
        enc = c.choose(['utf-8', 'iso-8859-1', 'windows-1252', 'utf-16', 'us-ascii'], 'encoding')
        declared = c.choose([True, False], 'xml_declaration')
        charset = c.choose([True, False], 'content_type_charset')
        text = c.choose([u'café über', u'plain ascii', u'£ 5 ½'], 'text')
        if not declared and not charset and enc not in ('utf-8', 'utf-16', 'us-ascii'):
            return       # nothing tells the server the encoding: not a well-defined request
        # open known finding: XmlDocument.create_in_document ignores the charset the transport hands it
        c.known_region('C01-xmldocument-ignores-transport-charset', family == 'xml' and not declared and charset and
                       enc in ('iso-8859-1', 'windows-1252') and text != u'plain ascii')
        got = []

        class ESvc(ServiceBase):
            @rpc(Unicode, Integer, _returns=Unicode)
            def echo(ctx, s, n):
                got.append((s, n))
                return s
        inp, outp = _proto(family, 'soft')
        app = Application([ESvc], TNS, name='VApp', in_protocol=inp, out_protocol=outp)
        body = u'<tns:echo xmlns:tns="%s"><tns:s>%s</tns:s><tns:n>7</tns:n></tns:echo>' % (TNS, text)
        if family != 'xml':
            ns = SOAP11_NS if family == 'soap11' else SOAP12_NS
            body = u'<e:Envelope xmlns:e="%s"><e:Body>%s</e:Body></e:Envelope>' % (ns, body)
        if declared:
            body = u'<?xml version="1.0" encoding="%s"?>' % enc + body
        if enc == 'us-ascii':
            data = body.encode('ascii', 'xmlcharrefreplace')
        else:
            data = body.encode(enc)
        ctype = 'text/xml' + ('; charset=%s' % enc if charset else '')
        env = {'REQUEST_METHOD': 'POST', 'PATH_INFO': '/', 'QUERY_STRING': '', 'SERVER_NAME': 'h', 'SERVER_PORT': '80',
               'wsgi.url_scheme': 'http', 'wsgi.input': io.BytesIO(data), 'CONTENT_TYPE': ctype, 'CONTENT_LENGTH': str(len(data))}
        seen = []

        def sr(status, headers, exc_info=None):
            seen.append(status)
        sr._pyvc_native = True
        out = c.run(WsgiApplication(app), env, sr)
        c.check('callable_returns', out.returned, detail=repr(out))
        if not out.returned:
            return
        chunks = []
        c.run(lambda: chunks.extend(list(out.value)))
        resp = b''.join(chunks)
        c.check('status_200', bool(seen) and seen[0].startswith('200'), detail=(seen, resp[:300], data[:120]))
        c.check('function_invoked_exactly_once', len(got) == 1, detail=len(got))
        if got:
            c.check('text_delivered_exactly', got[0] == (text, 7), detail=(got[0], text))
        if seen and seen[0].startswith('200'):
            r = etree.fromstring(resp)
            res = [e.text for e in r.iter() if isinstance(e.tag, str) and e.tag.endswith('}echoResult')]
            c.check('text_returned_exactly', res == [text], detail=(res, text))
    return ob


for _f in ('xml', 'soap11', 'soap12'):
    _mk_encodings(_f)


# ------------------------------------------------------------------------------------------ several SOAP headers

def _mk_headers(family):
    @obligation('C01.headers.%s' % family, targets=['spyne.protocol.soap.soap11:Soap11.deserialize',
                                                    'spyne.protocol.soap.soap11:Soap11.serialize'],
                bounded="a method with three declared input and output header classes; every subset of them sent, in "
                        "declaration order and reversed",
                desc="each SOAP header block that is sent reaches the function at the position of its declared class "
                     "(absent ones are None), whatever subset and order the request uses; the output headers the function "
                     "sets are sent back")
    def ob(c):
        import itertools

        class H3(ComplexModel):
            __namespace__ = TNS
            n = Integer
        got = []

        class HSvc(ServiceBase):
            @rpc(Integer, _returns=Integer, _in_header=(Hdr, Hdr2, H3), _out_header=(Hdr, Hdr2, H3))
            def m(ctx, i):
                got.append(ctx.in_header)
                ctx.out_header = ctx.in_header
                return i
        P = Soap11 if family == 'soap11' else Soap12
        app = Application([HSvc], TNS, name='VApp', in_protocol=P(validator=c.choose(['soft', None, 'lxml'], 'validator')),
                          out_protocol=P())
        subsets = [s_ for r in range(4) for s_ in itertools.combinations(['Hdr', 'Hdr2', 'H3'], r)]
        sent = c.choose(subsets, 'headers_sent')
        order = c.choose(['declared', 'reversed'], 'order')
        blocks = {'Hdr': '<tns:Hdr><tns:token>tok</tns:token><tns:seq>9</tns:seq></tns:Hdr>',
                  'Hdr2': '<tns:Hdr2><tns:trace>tr</tns:trace></tns:Hdr2>', 'H3': '<tns:H3><tns:n>3</tns:n></tns:H3>'}
        names = list(sent) if order == 'declared' else list(reversed(sent))
        ns = SOAP11_NS if family == 'soap11' else SOAP12_NS
        data = ('<e:Envelope xmlns:e="%s" xmlns:tns="%s"><e:Header>%s</e:Header><e:Body><tns:m><tns:i>5</tns:i></tns:m></e:Body>'
                '</e:Envelope>' % (ns, TNS, ''.join(blocks[n] for n in names))).encode()
        env = {'REQUEST_METHOD': 'POST', 'PATH_INFO': '/', 'QUERY_STRING': '', 'SERVER_NAME': 'h', 'SERVER_PORT': '80',
               'wsgi.url_scheme': 'http', 'wsgi.input': io.BytesIO(data), 'CONTENT_TYPE': 'text/xml',
               'CONTENT_LENGTH': str(len(data))}
        seen = []

        def sr(status, headers, exc_info=None):
            seen.append(status)
        sr._pyvc_native = True
        out = c.run(WsgiApplication(app), env, sr)
        c.check('callable_returns', out.returned, detail=repr(out))
        if not out.returned:
            return
        chunks = []
        c.run(lambda: chunks.extend(list(out.value)))
        resp = b''.join(chunks)
        c.check('status_200', bool(seen) and seen[0].startswith('200'), detail=(seen, resp[:300]))
        c.check('function_invoked_exactly_once', len(got) == 1, detail=len(got))
        if len(got) != 1:
            return
        ih = got[0]
        ih = list(ih) if isinstance(ih, (list, tuple)) else [ih, None, None]
        want = [('tok', 9) if 'Hdr' in sent else None, 'tr' if 'Hdr2' in sent else None, 3 if 'H3' in sent else None]
        have = [(ih[0].token, ih[0].seq) if ih[0] is not None else None, ih[1].trace if ih[1] is not None else None,
                ih[2].n if ih[2] is not None else None]
        c.check('each_header_at_its_declared_position', have == want, detail=(have, want))
        if seen and seen[0].startswith('200'):
            h = etree.fromstring(resp).find('{%s}Header' % ns)
            vals = {}
            for e in (h if h is not None else []):
                vals[e.tag.split('}')[1]] = [x.text for x in e]
            wantv = {'Hdr': ['tok', '9'], 'Hdr2': ['tr'], 'H3': ['3']}
            # a header the function left at None may be omitted or sent empty; one that it set carries its values
            c.check('output_headers_sent_back', all(vals.get(n) == wantv[n] for n in sent) and all(
                not any(vals.get(n) or []) for n in wantv if n not in sent), detail=(vals, sorted(sent)))
    return ob


for _f in ('soap11', 'soap12'):
    _mk_headers(_f)


@obligation('C01.client.out_object', targets=['spyne.client._base:RemoteProcedureBase.get_out_object'],
            desc="the Spyne client's argument packing for symbolic integer arguments (so also 0): each argument, given by "
                 "position or by keyword, is sent as the value given; arguments not given are None",
            assumptions=["a three-argument method; the packing code does not inspect the declared types"])
def client_out_object(c):
    got = []

    class PSvc(ServiceBase):
        @rpc(Integer, Integer, Integer, _returns=Integer)
        def three(ctx, a, b, cc):
            return a
    app = Application([PSvc], TNS, name='VApp', in_protocol=XmlDocument(), out_protocol=XmlDocument())

    class P(RemoteProcedureBase):
        def __call__(self, *a, **k):
            pass
    proc = P('http://x/', app, 'three', None)
    ctx = proc.contexts[0]
    names = ['a', 'b', 'cc']
    vals = [c.int('arg_' + n) for n in names]
    how = [c.choose(['positional', 'keyword', 'absent'], 'how_' + n) for n in names]
    # positional arguments form a prefix
    if any(how[i] != 'positional' and how[j] == 'positional' for i in range(3) for j in range(i + 1, 3)):
        c.end('not a valid call form')
    args = [v for v, h in zip(vals, how) if h == 'positional']
    kwargs = {n: v for n, v, h in zip(names, vals, how) if h == 'keyword'}
    out = c.run(proc.get_out_object, ctx, args, kwargs)
    c.check('returns', out.returned, detail=repr(out))
    if not out.returned:
        return
    sent = ctx.out_object
    c.check('three_slots', isinstance(sent, list) and len(sent) == 3, detail=repr(sent))
    for i, n in enumerate(names):
        if how[i] == 'absent':
            c.check('argument_not_given_is_none[%s]' % n, sent[i] is None, detail=repr(sent[i]))
        else:
            c.check('argument_sent_as_given[%s]' % n, (sent[i] is vals[i]) if not c.concrete else sent[i] == vals[i],
                    detail=(n, repr(sent[i])))
