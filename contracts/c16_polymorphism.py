"""C16: inheritance and polymorphism preserve the runtime class."""
import io
import json

from lxml import etree

from pyvc.oblig import obligation

from spyne import Application, ServiceBase, rpc
from spyne.model.complex import ComplexModel, Array
from spyne.model.primitive import Integer, Unicode
from spyne.protocol import ProtocolBase
from spyne.protocol.json import JsonDocument
from spyne.protocol.msgpack import MessagePackDocument
from spyne.protocol.soap import Soap11, Soap12
from spyne.protocol.xml import XmlDocument
from spyne.protocol.yaml import YamlDocument
from spyne.server.wsgi import WsgiApplication

from .pipeline import soap_env, SOAP11_NS, SOAP12_NS, TNS

XSI = 'http://www.w3.org/2001/XMLSchema-instance'


def make_tree():
    class A(ComplexModel):
        __namespace__ = TNS
        a1 = Integer
        a2 = Unicode(sub_name='a2wire')          # travels under another name: inherited by every descendant

    class B(A):
        __namespace__ = TNS
        b1 = Integer

    class C(B):
        __namespace__ = TNS
        c1 = Unicode

    class B2(A):
        __namespace__ = TNS
        z1 = Integer

    class Unrelated(ComplexModel):
        __namespace__ = TNS
        a1 = Integer
    return A, B, C, B2, Unrelated


def wire_names(cls):
    """field names as they travel: sub_name where declared"""
    return [(t.Attributes.sub_name or k) for k, t in cls.get_flat_type_info(cls).items()]


def make_inst(cls):
    vals = dict(a1=1, a2='two', b1=3, c1='four', z1=5)
    fti = cls.get_flat_type_info(cls)
    return cls(**{k: v for k, v in vals.items() if k in fti})


@obligation('C16.polymorphic_target', targets=['spyne.protocol._base:ProtocolMixin.get_polymorphic_target'],
            desc="get_polymorphic_target(declared, inst) == (type(inst), True) iff the protocol is polymorphic and inst is an "
                 "instance of a strict subclass of the declared class' original; else (declared, False) -- complete case "
                 "analysis over a depth-3 class tree with a sibling branch and an unrelated class, for the declared class, "
                 "a customised variant of it and the element type of Array(declared)")
def polymorphic_target(c):
    A, B, C, B2, U = make_tree()
    poly = c.choose([True, False], 'polymorphic')
    prot = XmlDocument(polymorphic=poly)
    prot.polymorphic = poly
    declared_kind = c.choose(['A', 'A_customized', 'array_member', 'B', 'B_customized'], 'declared')
    base = {'A': A, 'A_customized': A.customize(min_occurs=1), 'B': B, 'B_customized': B.customize(nullable=False)}.get(
        declared_kind)
    if declared_kind == 'array_member':
        base, = Array(A)._type_info.values()
    inst_cls = c.choose([A, B, C, B2], 'instance_class')
    inst = make_inst(inst_cls)
    out = c.run(prot.get_polymorphic_target, base, inst)
    c.check('returns', out.returned, detail=repr(out))
    if not out.returned:
        return
    got_cls, switched = out.value
    orig = base.__orig__ or base
    should = poly and isinstance(inst, orig) and type(inst) is not orig
    c.check('switch_iff_strict_subclass_instance', bool(switched) == should, detail=(declared_kind, inst_cls.__name__, switched))
    c.check('target_class', got_cls is (type(inst) if should else base), detail=(repr(got_cls), should))


def _svc(got, root='A'):
    """root: which class the signatures declare -- 'A' (the root of the tree) or 'Bvar' (a customised variant of the
    non-root class B, and Array(B))"""
    A, B, C, B2, U = make_tree()
    made = {}
    R = A if root == 'A' else B.customize(min_occurs=1)
    RA = Array(A) if root == 'A' else Array(B)

    def get(ctx, kind):
        return make_inst({'A': A, 'B': B, 'C': C, 'B2': B2}[kind])
    get._pyvc_native = True

    def get_many(ctx):
        if root != 'A':
            return [make_inst(B), make_inst(C), make_inst(C)]
        return [make_inst(A), make_inst(C), make_inst(B), make_inst(B2)]
    get_many._pyvc_native = True

    def echo(ctx, a):
        got.append(a)
        return a
    echo._pyvc_native = True

    def echo_many(ctx, items):
        got.append(items)
        return items
    echo_many._pyvc_native = True

    # a repeated member (max_occurs > 1: an array without a wrapper element) of the declared class inside an object
    Rrep = (A if root == 'A' else B).customize(max_occurs='unbounded')
    Holder = type(ComplexModel)('Holder', (ComplexModel,), {'__namespace__': TNS, '_type_info': [('label', Unicode), ('kids', Rrep)]})
    made['Holder'] = Holder

    def get_holder(ctx):
        return Holder(label='h', kids=get_many(ctx))
    get_holder._pyvc_native = True

    def echo_holder(ctx, h):
        got.append(list(h.kids or []))
        return h
    echo_holder._pyvc_native = True
    Svc = type(ServiceBase)('Svc', (ServiceBase,), {
        'get_holder': rpc(_returns=Holder)(get_holder), 'echo_holder': rpc(Holder, _returns=Holder)(echo_holder),
        'get': rpc(Unicode, _returns=R)(get), 'get_many': rpc(_returns=RA)(get_many),
        'echo': rpc(R, _returns=R)(echo), 'echo_many': rpc(RA, _returns=RA)(echo_many)})
    return Svc, (A, B, C, B2, U)


def _call(c, wsgi, body, ctype):
    env = {'REQUEST_METHOD': 'POST', 'PATH_INFO': '/', 'QUERY_STRING': '', 'SERVER_NAME': 'h', 'SERVER_PORT': '80',
           'wsgi.url_scheme': 'http', 'wsgi.input': io.BytesIO(body), 'CONTENT_TYPE': ctype, 'CONTENT_LENGTH': str(len(body))}
    seen = []

    def sr(status, headers, exc_info=None):
        seen.append(status)
    sr._pyvc_native = True
    out = c.run(wsgi, env, sr)
    resp = b''
    if out.returned:
        chunks = []
        c.run(lambda: chunks.extend(list(out.value)))
        resp = b''.join(x for x in chunks if isinstance(x, bytes))
    return out, (seen[0] if seen else ''), resp


def fields_of(o):
    return {k: getattr(o, k, None) for k in type(o).get_flat_type_info(type(o))}


def _mk_xml(family):
    P = {'xml': XmlDocument, 'soap11': Soap11, 'soap12': Soap12}[family]

    @obligation('C16.roundtrip.%s' % family, targets=['spyne.protocol.xml:XmlDocument.to_parent',
                                                       'spyne.protocol.xml:XmlDocument.gen_members_parent',
                                                       'spyne.protocol.xml:XmlDocument.from_element',
                                                       'spyne.interface._base:Interface.add_class'],
                bounded="class tree of depth 3 with a sibling branch; single values and a mixed array; polymorphic on/off",
                desc="a subclass instance returned where the base is declared is transmitted with ancestors' fields first "
                     "and, with polymorphism on, with all its fields and an xsi:type that resolves inside the transmitted "
                     "document; sending that element back reconstructs an instance of the same subclass with equal field "
                     "values; with polymorphism off exactly the declared class' fields are transmitted")
    def ob(c):
        poly = c.choose([True, False], 'polymorphic')
        droot = c.choose(['A', 'Bvar'], 'declared')
        what = c.choose(['A', 'B', 'C', 'B2', 'many', 'holder'] if droot == 'A' else ['B', 'C', 'many', 'holder'], 'returned')
        got = []
        Svc, (A, B, C, B2, U) = _svc(got, droot)
        D = A if droot == 'A' else B           # the class the signatures declare (its original)
        if what in ('C', 'many') and c.choose([False, True], 'class_tree_served_by_another_application_before'):
            # the same classes published by an application with another target namespace (there they are foreign)
            OTHER = 'urn:another.app'
            app0 = Application([Svc], OTHER, name='Earlier', in_protocol=P(polymorphic=poly), out_protocol=P(polymorphic=poly))
            req0 = ('<o:get xmlns:o="%s"><o:kind>C</o:kind></o:get>' % OTHER) if what != 'many' else ('<o:get_many xmlns:o="%s"/>' % OTHER)
            b0 = req0.encode() if family == 'xml' else soap_env(SOAP11_NS if family == 'soap11' else SOAP12_NS, req0)
            o0, st0, r0 = _call(c, WsgiApplication(app0), b0, 'text/xml')
            c.check('earlier_application_answers', o0.returned and st0.startswith('200'), detail=(repr(o0), st0, r0[:200]))
        app = Application([Svc], TNS, in_protocol=P(polymorphic=poly), out_protocol=P(polymorphic=poly))
        wsgi = WsgiApplication(app)
        def wrap(b):
            if family != 'xml':
                return soap_env(SOAP11_NS if family == 'soap11' else SOAP12_NS, b)
            i = min(x for x in (b.find('>'), b.find('/>')) if x >= 0)
            return (b[:i] + ' xmlns:tns="%s"' % TNS + b[i:]).encode()
        req = '<tns:get><tns:kind>%s</tns:kind></tns:get>' % what if what not in ('many', 'holder') else '<tns:get_%s/>' % what
        out, status, resp = _call(c, wsgi, wrap(req), 'text/xml')
        c.check('first_call_ok', out.returned and status.startswith('200'), detail=(repr(out), status, resp[:200]))
        if not status.startswith('200'):
            return
        root = etree.fromstring(resp)
        result = root.xpath('//*[local-name()="getResult" or local-name()="get_manyResult" or local-name()="get_holderResult"]')[0]
        elts = [result] if what not in ('many', 'holder') else [e for e in result if what == 'many' or e.tag.endswith('}kids')]
        many_classes = [A, C, B, B2] if droot == 'A' else [B, C, C]
        want_classes = {'A': [A], 'B': [B], 'C': [C], 'B2': [B2], 'many': many_classes, 'holder': many_classes}[what]
        c.check('every_item_transmitted', len(elts) == len(want_classes), detail=(len(elts), etree.tostring(result)[:300]))
        for elt, cls in zip(elts, want_classes):
            names = [ch.tag.split('}')[-1] for ch in elt]
            flat = wire_names(cls) if poly else wire_names(D)
            c.check('fields_ancestors_first', names == flat, detail=(cls.__name__, names, flat))
            xt = elt.get('{%s}type' % XSI)
            if poly and cls is not D:
                c.check('type_marker_present', xt is not None, detail=(cls.__name__, etree.tostring(elt)[:200]))
                if xt is not None:
                    prefix, _, local = xt.rpartition(':')
                    c.check('type_marker_resolves_in_document', elt.nsmap.get(prefix or None) == TNS and
                            local == cls.__name__, detail=(xt, dict(elt.nsmap)))
            else:
                c.check('no_type_marker', xt is None or xt.endswith(':' + D.__name__) or xt == D.__name__, detail=xt)
        # send the transmitted element(s) back -- as sent, or with the marker's prefix re-bound by the document to a
        # prefix that the receiving interface uses for another namespace (resolution must use the document's bindings)
        rebound = c.choose([False, True], 'marker_prefix_rebound_in_document')
        if rebound:
            for e in result.iter():
                xt = e.get('{%s}type' % XSI)
                if xt is not None and ':' in xt:
                    e.set('{%s}type' % XSI, 'xs:' + xt.split(':', 1)[1])
        inner = b''.join(etree.tostring(ch) for ch in result).decode() if True else ''
        attrs = ''.join(' %s="%s"' % (('xsi:type', v) if k.endswith('}type') else (k, v)) for k, v in result.attrib.items())
        nsdecl = ''.join(' xmlns:%s="%s"' % (p, u) for p, u in result.nsmap.items() if p and p not in ('xsi', 'tns'))
        nsdecl += ' xmlns:xsi="%s"' % XSI
        if rebound:
            nsdecl += ' xmlns:xs="%s"' % TNS
        if what == 'many':
            back = '<tns:echo_many><tns:items%s>%s</tns:items></tns:echo_many>' % (nsdecl, inner)
        elif what == 'holder':
            back = '<tns:echo_holder><tns:h%s>%s</tns:h></tns:echo_holder>' % (nsdecl, inner)
        else:
            back = '<tns:echo><tns:a%s%s>%s</tns:a></tns:echo>' % (nsdecl, attrs, inner)
        out2, status2, resp2 = _call(c, wsgi, wrap(back), 'text/xml')
        c.check('second_call_ok', out2.returned and status2.startswith('200'), detail=(status2, resp2[:300], back[:300]))
        if got:
            objs = got[0] if what in ('many', 'holder') else [got[0]]
            c.check('every_item_delivered', len(objs) == len(want_classes), detail=(len(objs), len(want_classes)))
            for o, cls in zip(objs, want_classes):
                wantc = cls if poly else D
                c.check('same_class_reconstructed', type(o) is wantc or (type(o).__orig__ or type(o)) is wantc,
                        detail=(type(o).__name__, wantc.__name__))
                ref = fields_of(make_inst(cls))
                exp = {k: v for k, v in ref.items() if k in wantc.get_flat_type_info(wantc)}
                c.check('equal_field_values', fields_of(o) == exp, detail=(fields_of(o), exp))
    return ob


for _f in ('xml', 'soap11', 'soap12'):
    _mk_xml(_f)


def _mk_dict(family, oid=None):
    P = {'json': JsonDocument, 'yaml': YamlDocument, 'msgpack': MessagePackDocument}[family]

    @obligation(oid or 'C16.roundtrip.%s' % family, targets=['spyne.protocol.dictdoc.hier:HierDictDocument._to_dict_value',
                                                       'spyne.protocol.dictdoc.hier:HierDictDocument._complex_to_dict',
                                                       'spyne.protocol.dictdoc.hier:HierDictDocument._doc_to_object',
                                                       'spyne.model.complex:ComplexModelBase.get_subclasses'],
                bounded="class tree of depth 3 with a sibling branch; single values and a mixed array; polymorphic on/off; "
                        "ignore_wrappers=False",
                desc="dict documents with wrapper keys: the wrapper key names the runtime class, all of its fields are "
                     "sent (ancestors first), and sending the value back reconstructs the same subclass with equal values; "
                     "polymorphism off: exactly the declared class' fields")
    def ob(c):
        poly = c.choose([True, False], 'polymorphic')
        droot = c.choose(['A', 'Bvar'], 'declared')
        what = c.choose(['A', 'B', 'C', 'B2', 'many', 'holder'] if droot == 'A' else ['B', 'C', 'many', 'holder'], 'returned')
        got = []
        Svc, (A, B, C, B2, U) = _svc(got, droot)
        D = A if droot == 'A' else B
        mk = lambda: P(ignore_wrappers=False, polymorphic=poly)
        app = Application([Svc], TNS, in_protocol=mk(), out_protocol=mk())
        wsgi = WsgiApplication(app)
        if family == 'json':
            enc, dec, ctype = (lambda d: json.dumps(d).encode()), (lambda b: json.loads(b.decode())), 'application/json'
        elif family == 'yaml':
            import yaml
            enc, dec, ctype = (lambda d: yaml.safe_dump(d).encode()), (lambda b: yaml.safe_load(b.decode())), 'text/yaml'
        else:
            import msgpack
            enc, dec, ctype = (lambda d: msgpack.packb(d)), (lambda b: msgpack.unpackb(b, raw=False, strict_map_key=False)), 'application/x-msgpack'
        req = {'get': {'kind': what}} if what not in ('many', 'holder') else {'get_%s' % what: {}}
        out, status, resp = _call(c, wsgi, enc(req), ctype)
        c.check('first_call_ok', out.returned and status.startswith('200'), detail=(repr(out), status, resp[:200]))
        if not status.startswith('200'):
            return
        def strkeys(o):
            if isinstance(o, dict):
                return {(k.decode() if isinstance(k, bytes) else k): strkeys(v) for k, v in o.items()}
            if isinstance(o, (list, tuple)):
                return [strkeys(x) for x in o]
            return o
        doc = strkeys(dec(resp))
        # {"getResponse": {"getResult": {"C": {...}}}}
        (rk, rv), = doc.items()
        (vk, val), = rv.items()
        vals = [val] if what not in ('many', 'holder') else (val if what == 'many' else (val.get('Holder') or {}).get('kids') or [])
        many_classes = [A, C, B, B2] if droot == 'A' else [B, C, C]
        want_classes = {'A': [A], 'B': [B], 'C': [C], 'B2': [B2], 'many': many_classes, 'holder': many_classes}[what]
        c.check('every_item_transmitted', len(vals) == len(want_classes), detail=(len(vals), repr(val)[:300]))
        for v, cls in zip(vals, want_classes):
            wantc = cls if poly else D
            c.check('wrapper_key_is_runtime_class', isinstance(v, dict) and list(v.keys()) == [wantc.__name__],
                    detail=(list(v.keys()) if isinstance(v, dict) else v, wantc.__name__))
            if isinstance(v, dict) and len(v) == 1:
                body, = v.values()
                c.check('fields_ancestors_first', list(body.keys()) == wire_names(wantc), detail=(list(body.keys()),
                                                                                                   wire_names(wantc)))
        back = {'echo': {'a': val}} if what not in ('many', 'holder') else (
            {'echo_many': {'items': val}} if what == 'many' else {'echo_holder': {'h': val}})
        out2, status2, resp2 = _call(c, wsgi, enc(back), ctype)
        c.check('second_call_ok', out2.returned and status2.startswith('200'), detail=(status2, resp2[:300]))
        if got:
            objs = got[0] if what in ('many', 'holder') else [got[0]]
            c.check('every_item_delivered', len(objs) == len(want_classes), detail=(len(objs), len(want_classes)))
            for o, cls in zip(objs, want_classes):
                wantc = cls if poly else D
                c.check('same_class_reconstructed', (type(o).__orig__ or type(o)) is wantc, detail=(type(o).__name__,
                                                                                                   wantc.__name__))
                ref = fields_of(make_inst(cls))
                exp = {k: v for k, v in ref.items() if k in wantc.get_flat_type_info(wantc)}
                c.check('equal_field_values', fields_of(o) == exp, detail=(fields_of(o), exp))
    return ob


for _f in ('json', 'yaml', 'msgpack'):
    _mk_dict(_f)


def _mk_late(family):
    P = {'json': JsonDocument, 'yaml': YamlDocument, 'msgpack': MessagePackDocument, 'xml': XmlDocument, 'soap11': Soap11}[family]

    @obligation('C16.late_subclass.%s' % family, targets=['spyne.model.complex:_get_type_info',
                                                           'spyne.model.complex:ComplexModelBase.get_subclasses',
                                                           'spyne.protocol.dictdoc.hier:HierDictDocument._doc_to_object',
                                                           'spyne.protocol.xml:XmlDocument.from_element'],
                bounded="a class tree of depth 3 that has already served a polymorphic exchange grows by one class (child of "
                        "the root, of the middle class or of the leaf) before a second application is built",
                desc="a subclass declared after its ancestors were already used in an exchange is a subclass like any other: "
                     "sent where the base is declared it is transmitted with its marker and all fields and reconstructed as "
                     "an instance of that same class")
    def ob(c):
        got = []
        Svc, (A, B, C, B2, U) = _svc(got, 'A')
        is_xml = family in ('xml', 'soap11')
        mk = (lambda: P(polymorphic=True)) if is_xml else (lambda: P(ignore_wrappers=False, polymorphic=True))
        if family == 'json':
            enc, dec, ctype = (lambda d: json.dumps(d).encode()), (lambda b: json.loads(b.decode())), 'application/json'
        elif family == 'yaml':
            import yaml
            enc, dec, ctype = (lambda d: yaml.safe_dump(d).encode()), (lambda b: yaml.safe_load(b.decode())), 'text/yaml'
        elif family == 'msgpack':
            import msgpack
            enc, dec, ctype = (lambda d: msgpack.packb(d)), (lambda b: msgpack.unpackb(b, raw=False, strict_map_key=False)), 'application/x-msgpack'

        def wrap(b):
            if family == 'soap11':
                return soap_env(SOAP11_NS, b)
            return b.replace('>', ' xmlns:tns="%s" xmlns:xsi="%s">' % (TNS, XSI), 1).encode()
        # first exchange: the tree as it is
        wsgi1 = WsgiApplication(Application([Svc], TNS, in_protocol=mk(), out_protocol=mk()))
        first = c.choose(['B', 'C'], 'first_exchange_carries')
        # the first exchange sends a subclass instance in (the receiver consults the subclass registry) and gets it back
        F = {'B': B, 'C': C}[first]
        ffti = F.get_flat_type_info(F)
        fvals = {k: v for k, v in dict(a1=1, a2='two', b1=3, c1='four').items() if k in ffti}
        if is_xml:
            finner = ''.join('<tns:%s>%s</tns:%s>' % ((ffti[k].Attributes.sub_name or k), fvals[k], (ffti[k].Attributes.sub_name or k))
                             for k in ffti if k in fvals)
            if family == 'soap11':
                req1 = soap_env(SOAP11_NS, '<tns:echo><tns:a xmlns:xsi="%s" xsi:type="tns:%s">%s</tns:a></tns:echo>' % (XSI, first, finner))
            else:
                req1 = wrap('<tns:echo><tns:a xsi:type="tns:%s">%s</tns:a></tns:echo>' % (first, finner))
            out, status, resp = _call(c, wsgi1, req1, 'text/xml')
        else:
            fbody = {(ffti[k].Attributes.sub_name or k): fvals[k] for k in ffti if k in fvals}
            out, status, resp = _call(c, wsgi1, enc({'echo': {'a': {first: fbody}}}), ctype)
        c.check('first_call_ok', out.returned and status.startswith('200') and len(got) == 1 and type(got[0]) is F,
                detail=(repr(out), status, resp[:200], [type(x).__name__ for x in got]))
        # the tree grows
        parent_name = c.choose(['A', 'B', 'C'], 'late_subclass_of')
        parent = {'A': A, 'B': B, 'C': C}[parent_name]
        o = c.run(type(ComplexModel), 'Late', (parent,), {'__namespace__': TNS, 'late1': Integer})
        c.check('class_declared', o.returned, detail=repr(o))
        if not o.returned:
            return
        Late = o.value
        got2 = []
        # the second service declares the very same classes (nothing else is derived or customised in between: that would
        # reset the registries this obligation is about)
        def echo(ctx, a):
            got2.append(a)
            return a
        echo._pyvc_native = True
        Svc2 = type(ServiceBase)('Svc2', (ServiceBase,), {'echo': rpc(A, _returns=A)(echo)})
        wsgi2 = WsgiApplication(Application([Svc2], TNS, in_protocol=mk(), out_protocol=mk()))
        vals = dict(a1=1, a2='two', b1=3, c1='four', late1=9)
        fti = Late.get_flat_type_info(Late)
        mine = {k: v for k, v in vals.items() if k in fti}
        if is_xml:
            inner = ''.join('<tns:%s>%s</tns:%s>' % ((fti[k].Attributes.sub_name or k), v, (fti[k].Attributes.sub_name or k))
                            for k, v in ((k, mine[k]) for k in fti if k in mine))
            req2 = wrap('<tns:echo><tns:a xsi:type="tns:Late">%s</tns:a></tns:echo>' % inner) if family != 'soap11' else \
                soap_env(SOAP11_NS, '<tns:echo><tns:a xmlns:xsi="%s" xsi:type="tns:Late">%s</tns:a></tns:echo>' % (XSI, inner))
            out2, status2, resp2 = _call(c, wsgi2, req2, 'text/xml')
        else:
            body = {(fti[k].Attributes.sub_name or k): mine[k] for k in fti if k in mine}
            out2, status2, resp2 = _call(c, wsgi2, enc({'echo': {'a': {'Late': body}}}), ctype)
        c.check('second_call_ok', out2.returned and status2.startswith('200'), detail=(status2, resp2[:300]))
        c.check('late_subclass_reconstructed', len(got2) == 1 and type(got2[0]) is Late, detail=[type(x).__name__ for x in got2])
        if got2:
            c.check('equal_field_values', fields_of(got2[0]) == dict({k: None for k in fti}, **mine), detail=fields_of(got2[0]))
        if status2.startswith('200'):
            if is_xml:
                root = etree.fromstring(resp2)
                res = root.xpath('//*[local-name()="echoResult"]')[0]
                xt = res.get('{%s}type' % XSI) or ''
                c.check('response_marks_the_late_subclass', xt.endswith(':Late') and
                        [ch.tag.split('}')[-1] for ch in res] == [n for n, k in zip(wire_names(Late), fti) if k in mine],
                        detail=(xt, [ch.tag for ch in res]))
            else:
                def strkeys(o_):
                    if isinstance(o_, dict):
                        return {(k.decode() if isinstance(k, bytes) else k): strkeys(v) for k, v in o_.items()}
                    if isinstance(o_, (list, tuple)):
                        return [strkeys(x) for x in o_]
                    return o_
                sdoc = strkeys(dec(resp2))
                (rk, rv), = sdoc.items()
                (vk, val), = rv.items()
                c.check('response_marks_the_late_subclass', isinstance(val, dict) and list(val.keys()) == ['Late'], detail=val)
    return ob


for _f in ('json', 'yaml', 'msgpack', 'xml', 'soap11'):
    _mk_late(_f)


# ---------------------------------------------------------------------------------------------------------------
# deductive: the xsi:type marker, for every attribute text, prefix and namespace binding (z3 strings)

class _MarkedElt(object):
    """What from_element reads of an element before it enters a handler: attributes and the in-scope prefix map."""
    def __init__(self, attrs, nsmap):
        self._attrs, self.nsmap = attrs, nsmap
        self.tag, self.text, self.sourceline = '{%s}v' % TNS, None, 1

    def get(self, k, d=None):
        return self._attrs.get(k, d)


def _mk_marker(pname, P, dkind):
    @obligation('C16.marker.resolve.%s.%s' % (pname, dkind), targets=['spyne.protocol.xml:XmlDocument.from_element'],
                desc="for EVERY xsi:type attribute text t, every prefix p and every namespace n bound to p in scope (all three "
                     "symbolic text): from_element enters the handler of class K other than the declared one only if "
                     "t == p + ':' + type_name(K) with n == namespace(K) and K derived from the declared class; conversely "
                     "the marker text the emitter writes for K (prefix ':' type name, prefix bound to K's namespace) always "
                     "enters K's handler; every other text ends in ValidationError, never in another class",
                assumptions=["str.split(':', 1) modelled exactly (first occurrence); '{%s}%s' % (ns, name) as concatenation",
                             "closed world for the registry: the verification interface's classes (a depth-3 tree, a sibling "
                             "branch, an unrelated class, builtins)",
                             "the element is a stand-in exposing what from_element reads before entering a handler "
                             "(.get, .nsmap); the native replay uses the same stand-in with the counter-model's texts"])
    def ob(c):
        import z3
        from spyne.context import MethodContext
        from spyne.server import ServerBase
        from spyne.error import ValidationError
        from pyvc.text import text_eq
        validator = c.choose(['soft', None], 'validator')
        prot = P(validator=validator)
        prot.polymorphic = True
        got_ = []
        Svc, (A, B, C, B2, U) = _svc(got_)
        app = Application([Svc], TNS, in_protocol=prot, out_protocol=P())
        ctx = MethodContext(ServerBase(app), MethodContext.SERVER)
        declared = {'A': A, 'B': B, 'Bvar': B.customize(min_occurs=1), 'B2': B2}[dkind]
        o_decl = getattr(declared, '__orig__', None) or declared
        t, p, n = c.str('xsi_type_text'), c.str('prefix'), c.str('bound_namespace')
        if c.concrete:
            c.assume(':' not in p and len(p) > 0)
        else:
            c.assume(z3.Not(z3.Contains(p.t, z3.StringVal(':'))))
            c.assume(z3.Length(p.t) > 0)
        elt = _MarkedElt({XSI_TYPE_KEY: t}, {p: n})
        entered = []

        class _Handlers(object):
            def __getitem__(self, cls):
                def handler(ctx_, cls_, element):
                    entered.append(cls_)
                    return None
                handler._pyvc_native = True
                return handler
        prot.deserialization_handlers = _Handlers()
        out = c.run(prot.from_element, ctx, declared, elt)
        tree = {'A': A, 'B': B, 'C': C, 'B2': B2, 'Unrelated': U}

        def marker_of(K):
            if c.concrete:
                return t == p + ':' + K.get_type_name() and n == K.get_namespace()
            return z3.And(t.t == z3.Concat(p.t, z3.StringVal(':' + K.get_type_name())), n.t == z3.StringVal(K.get_namespace()))
        if out.returned:
            c.check('handler_entered_once', len(entered) == 1, detail=len(entered))
            got = entered[0]
            o_got = getattr(got, '__orig__', None) or got
            c.check('entered_class_derives_from_declared', issubclass(o_got, o_decl), detail=(repr(got), repr(declared)))
            if o_got is o_decl:
                c.check('declared_customisation_kept', got is declared, detail=(repr(got), repr(declared)))
            # soundness: whichever class was entered, the text named exactly that class
            c.check('entered_class_is_the_named_one', marker_of(o_got), detail=repr(got))
        else:
            c.check('rejected_with_validation_error', out.raised_a(ValidationError), detail=repr(out))
            # completeness: a marker the emitter writes for a class derived from the declared one is never rejected
            for name, K in sorted(tree.items()):
                if issubclass(K, o_decl):
                    c.check('emitted_marker_of_%s_not_rejected' % name, (not marker_of(K)) if c.concrete else z3.Not(marker_of(K)), detail=name)
    return ob


XSI_TYPE_KEY = '{%s}type' % XSI
for _pn, _P in (('XmlDocument', XmlDocument), ('Soap11', Soap11)):
    for _dk in ('A', 'B', 'Bvar', 'B2'):
        _mk_marker(_pn, _P, _dk)


# ---------------------------------------------------------------------------------------------------------------
# the document helpers of spyne.util.dictdoc are a public way to the same emitters: the polymorphic switch must arrive

_HELPERS = ['get_object_as_json', 'get_object_as_json_doc', 'get_object_as_yaml', 'get_object_as_yaml_doc',
            'get_object_as_msgpack', 'get_object_as_msgpack_doc']


def _mk_helper(hname):
    @obligation('C16.helpers.%s' % hname, targets=['spyne.util.dictdoc:%s' % hname],
                bounded="a depth-3 class tree with a sibling branch x polymorphic on/off x one base-typed member and one "
                        "Array(base) member",
                desc="spyne.util.dictdoc.%s(obj, cls, ignore_wrappers=False, complex_as=dict, polymorphic=p): every "
                     "base-typed slot is tagged with the runtime class and carries exactly its flat fields when p is on, "
                     "and the declared class with exactly its fields when p is off" % hname)
    def ob(c):
        import msgpack
        import yaml
        from spyne.util import dictdoc as DD
        A, B, C, B2, U = make_tree()
        Holder = type(ComplexModel)('HelperHolder', (ComplexModel,), {
            '__namespace__': TNS, '_type_info': [('one', A), ('many', Array(A))]})
        poly = c.choose([True, False], 'polymorphic')
        K = c.choose([A, B, C, B2], 'runtime_class')
        inst = Holder(one=make_inst(K), many=[make_inst(A), make_inst(K), make_inst(C)])
        out = c.run(getattr(DD, hname), inst, Holder, ignore_wrappers=False, complex_as=dict, polymorphic=poly)
        c.check('returns', out.returned, detail=repr(out))
        if not out.returned:
            return
        doc = out.value
        if isinstance(doc, (bytes, str)):
            doc = (json.loads(doc.decode('utf8') if isinstance(doc, bytes) else doc) if 'json' in hname else
                   yaml.safe_load(doc) if 'yaml' in hname else msgpack.unpackb(doc, raw=False))

        def norm(d):
            if isinstance(d, bytes):
                return d.decode('utf8')
            if isinstance(d, dict):
                return dict((norm(k), norm(v)) for k, v in d.items())
            if isinstance(d, (list, tuple)):
                return [norm(e) for e in d]
            return d
        doc = norm(doc)
        while isinstance(doc, list) and len(doc) == 1:
            doc = doc[0]
        h = doc.get('HelperHolder', doc) if isinstance(doc, dict) else {}

        def slot_ok(slot, runtime):
            want_cls = runtime if poly else A
            if not (isinstance(slot, dict) and list(slot) == [want_cls.get_type_name()]):
                return False
            body = slot[want_cls.get_type_name()]
            return isinstance(body, dict) and sorted(body) == sorted(wire_names(want_cls))
        c.check('member_slot_tagged_and_complete', slot_ok(h.get('one'), K), detail=(poly, K.__name__, h.get('one')))
        many = h.get('many') or []
        c.check('array_slots_tagged_and_complete', len(many) == 3 and all(slot_ok(s, k) for s, k in zip(many, [A, K, C])),
                detail=(poly, K.__name__, many))
    return ob


for _hn in _HELPERS:
    _mk_helper(_hn)


@obligation('C16.marker.emit', targets=['spyne.model._base:ModelBase.get_type_name_ns', 'spyne.model._base:ModelBase.get_namespace_prefix'],
            desc="for EVERY prefix text the interface hands out for the class' namespace (symbolic) and every class of the tree: "
                 "the xsi:type text written is exactly prefix + ':' + type_name(K), and the prefix is the one the interface "
                 "gives for namespace(K) -- no other namespace is asked for; with C16.marker.resolve (split at the first ':', "
                 "prefixes contain none) the receiver resolves it to K",
            assumptions=["'%s:%s' % (prefix, name) on text is modelled as concatenation",
                         "the interface is a stand-in answering get_namespace_prefix(ns) with a symbolic text per namespace"])
def marker_emit(c):
    import z3
    A, B, C, B2, U = make_tree()
    K = c.choose([A, B, C, B2, B.customize(min_occurs=1)], 'class')
    p = c.str('prefix_of_class_namespace')
    other = c.str('prefix_of_any_other_namespace')
    asked = []

    class _Iface(object):
        def get_namespace_prefix(self, ns):
            asked.append(ns)
            return p if ns == K.get_namespace() else other
    _Iface.get_namespace_prefix._pyvc_native = True
    out = c.run(K.get_type_name_ns, _Iface())
    c.check('returns', out.returned, detail=repr(out))
    if not out.returned:
        return
    from pyvc.text import text_eq, FmtStr
    want_tail = ':' + K.get_type_name()
    if c.concrete:
        c.check('text_is_prefix_colon_type_name', out.value == p + want_tail, detail=repr(out.value))
    else:
        c.check('text_is_prefix_colon_type_name', text_eq(out.value, p + want_tail) if isinstance(out.value, (str, FmtStr)) else False,
                detail=repr(out.value))
    c.check('only_the_class_namespace_asked', asked and all(a == K.get_namespace() for a in asked), detail=asked)
