"""C14: event hooks fire in documented order, exactly once, on success and failure.

Pipeline obligations: the real WsgiApplication.__call__ (and everything below it) is interpreted for
one request per path; forks: request kind x single failing listener site x user-function outcome.
Each path's ghost trace is checked against the specification automaton (spec/events.py).
"""
from pyvc.oblig import obligation
from spec import events as ev_spec

from .pipeline import Harness, requests_for

FAMILIES = ['http', 'json', 'soap11', 'soap12', 'xml', 'yaml', 'msgpack']
FAIL_SITES = [None] + [(label, event, kind)
                       for event in ('method_call', 'method_return_object')
                       for label in ('app', 'service', 'method')
                       for kind in ('fault', 'other')]

ASSUME = ["listeners of method_exception_*, method_context_closed and of the transport/protocol events return normally "
          "(the statement's failure list names method_call and method_return_object listeners only)",
          "one non-auxiliary method, one context per request", "logging calls have no effect",
          "json/yaml/msgpack/lxml parse and serialise as documented (run natively on concrete documents)"]


def _mk(family):
    @obligation('C14.pipeline.%s.wsgi' % family, targets=['spyne.server.wsgi:WsgiApplication.__call__'],
                desc="event trace of one call vs. the specification automaton, for every request kind, every single "
                     "failing method_call/method_return_object listener (Fault / non-Fault) at application, service "
                     "and method level, and every outcome of the user function", assumptions=ASSUME)
    def ob(c):
        kinds = sorted(requests_for(family))
        kind = c.choose(kinds, 'request_kind')
        failing = c.choose(FAIL_SITES, 'failing_listener') if kind == 'valid' else None
        h = Harness(c, family, failing=failing)
        out = h.run_wsgi(kind)
        c.check('callable_returns', out.returned, detail=repr(out))
        if not out.returned:
            return
        c.check('body_iteration_returns', h.body_outcome is None, detail=repr(h.body_outcome))
        valid = kind == 'valid'
        fail_call = failing is not None and failing[1] == 'method_call'
        user_reachable = valid and not fail_call
        user_ok = user_reachable and h.user_outcome == 'return'
        fail_ret = failing is not None and failing[1] == 'method_return_object' and user_ok
        expected_fault = (not valid) or fail_call or fail_ret or (user_reachable and not user_ok)
        for name, ok, detail in ev_spec.check_call(c.trace, expected_fault, user_ok, user_reachable):
            c.check(name, ok, detail=detail)
    return ob


for _f in FAMILIES:
    _mk(_f)
