"""C14: event hooks fire in documented order, exactly once, on success and failure.

Pipeline obligations: the real WsgiApplication.__call__ (and everything below it) is interpreted for
one request per path; forks: request kind x single failing listener site x user-function outcome.
Each path's ghost trace is checked against the specification automaton (spec/events.py).
"""
from pyvc.oblig import obligation
from spec import events as ev_spec

from .pipeline import Harness, requests_for
from spyne.evmgr import EventManager

FAMILIES = ['http', 'httpout', 'json', 'soap11', 'soap12', 'xml', 'yaml', 'msgpack', 'msgpackrpc']
FAIL_SITES = [None] + [(label, event, kind)
                       for event in ('method_call', 'method_return_object')
                       for label in ('app', 'service', 'method')
                       for kind in ('fault', 'other')]

ASSUME = ["listeners of method_exception_*, method_context_closed and of the transport/protocol events return normally "
          "(the statement's failure list names method_call and method_return_object listeners only)",
          "one non-auxiliary method, one context per request", "logging calls have no effect",
          "json/yaml/msgpack/lxml parse and serialise as documented (run natively on concrete documents)"]


def _mk(family):
    @obligation('C14.pipeline.%s.wsgi' % family, targets=['spyne.server.wsgi:WsgiApplication.__call__'],
                desc="event trace of one call vs. the specification automaton, for every request kind, every single "
                     "failing method_call/method_return_object listener (Fault / non-Fault) at application, service "
                     "and method level, and every outcome of the user function", assumptions=ASSUME)
    def ob(c):
        kinds = sorted(requests_for(family))
        kind = c.choose(kinds, 'request_kind')
        failing = c.choose(FAIL_SITES, 'failing_listener') if kind == 'valid' else None
        h = Harness(c, family, failing=failing)
        out = h.run_wsgi(kind)
        c.check('callable_returns', out.returned, detail=repr(out))
        if not out.returned:
            return
        c.check('body_iteration_returns', h.body_outcome is None, detail=repr(h.body_outcome))
        valid = kind == 'valid'
        fail_call = failing is not None and failing[1] == 'method_call'
        user_reachable = valid and not fail_call
        user_ok = user_reachable and h.user_outcome == 'return'
        fail_ret = failing is not None and failing[1] == 'method_return_object' and user_ok
        expected_fault = (not valid) or fail_call or fail_ret or (user_reachable and not user_ok)
        for name, ok, detail in ev_spec.check_call(c.trace, expected_fault, user_ok, user_reachable, failing):
            c.check(name, ok, detail=detail)
    return ob


for _f in FAMILIES:
    _mk(_f)


def _mk_serverbase(family):
    @obligation('C14.pipeline.%s.serverbase' % family, targets=['spyne.server._base:ServerBase.generate_contexts',
                                                                'spyne.server._base:ServerBase.get_in_object',
                                                                'spyne.server._base:ServerBase.get_out_object',
                                                                'spyne.server._base:ServerBase.get_out_string',
                                                                'spyne.context:MethodContext.close'],
                desc="the same event contract through a plain ServerBase driven like the package's message transports "
                     "(generate_contexts, get_in_object, get_out_object, get_out_string, close): every request kind, "
                     "every single failing listener, every outcome of the user function", assumptions=ASSUME)
    def ob(c):
        kinds = sorted(k for k in requests_for(family) if k not in ('declared_too_long', 'content_length_not_a_number'))
        kind = c.choose(kinds, 'request_kind')
        failing = c.choose(FAIL_SITES, 'failing_listener') if kind == 'valid' else None
        h = Harness(c, family, failing=failing)
        out = h.run_serverbase(kind)
        c.check('driver_calls_return', out.returned, detail=repr(out))
        if not out.returned:
            return
        valid = kind == 'valid'
        fail_call = failing is not None and failing[1] == 'method_call'
        user_reachable = valid and not fail_call
        user_ok = user_reachable and h.user_outcome == 'return'
        fail_ret = failing is not None and failing[1] == 'method_return_object' and user_ok
        expected_fault = (not valid) or fail_call or fail_ret or (user_reachable and not user_ok)
        for name, ok, detail in ev_spec.check_call(c.trace, expected_fault, user_ok, user_reachable, failing):
            c.check(name, ok, detail=detail)
    return ob


for _f in FAMILIES:
    if _f not in ('http', 'httpout'):          # HttpRpc needs an HTTP transport context
        _mk_serverbase(_f)


@obligation('C14.pipeline.nullserver', targets=['spyne.server.null:_FunctionCall.__call__', 'spyne.server.null:_cb_sync',
                                                'spyne.application:Application.process_request'],
            desc="the event contract for a call made through the in-process NullServer (native objects in, native result "
                 "or raised fault out; with ostr=True the response string): created first, closed last, each exactly once, "
                 "user function at most once after method_call, return/exception object events exclusive -- for a known "
                 "and an unknown method, every single failing listener, every outcome of the user function; document and "
                 "string events are demanded only where NullServer produces a document (ostr=True, success)",
            assumptions=ASSUME)
def nullserver(c):
    kind = c.choose(['valid', 'unknown_method'], 'request_kind')
    failing = c.choose(FAIL_SITES, 'failing_listener') if kind == 'valid' else None
    ostr = c.choose([False, True], 'ostr')
    keyword = c.choose([False, True], 'keyword_call') if kind == 'valid' else False
    h = Harness(c, 'soap11', failing=failing)
    out = h.run_nullserver(kind, ostr=ostr, keyword=keyword)
    valid = kind == 'valid'
    fail_call = failing is not None and failing[1] == 'method_call'
    user_reachable = valid and not fail_call
    user_ok = user_reachable and h.user_outcome == 'return'
    fail_ret = failing is not None and failing[1] == 'method_return_object' and user_ok
    expected_fault = (not valid) or fail_call or fail_ret or (user_reachable and not user_ok)
    c.check('raises_iff_the_call_ends_in_a_fault', out.raised == expected_fault, detail=repr(out))
    docs = ['method_return_document', 'method_return_string'] if ostr and not expected_fault else []
    for name, ok, detail in ev_spec.check_call(c.trace, expected_fault, user_ok, user_reachable, failing,
                                               method_managers=h.method_managers, documents=docs):
        c.check(name, ok, detail=detail)


KEYWORDS = ['_evmgr', '_evmgrs', '_event_manager', '_event_managers']


@obligation('C14.decorator.event_manager_keywords', targets=['spyne.decorator:_get_event_managers'],
            desc="complete case analysis over the 16 subsets of the four keywords @rpc accepts for method-level event "
                 "managers: none given -> no managers; exactly one given -> exactly the manager(s) passed (a singular "
                 "keyword gives a one-element list), in the order passed; a singular together with its plural, or a short "
                 "together with a long spelling -> LogicError; the keywords are consumed")
def event_manager_keywords(c):
    from spyne.decorator import _get_event_managers
    from spyne import LogicError
    present = [k for k in KEYWORDS if c.choose([False, True], k)]
    a, b = EventManager(None), EventManager(None)
    kparams = {'_unrelated': 1}
    for k in present:
        kparams[k] = [a, b] if k.endswith('s') else a
    out = c.run(_get_event_managers, kparams)
    if len(present) == 0:
        c.check('no_keyword_no_managers', out.returned and list(out.value) == [], detail=repr(out))
    elif len(present) == 1:
        want = [a, b] if present[0].endswith('s') else [a]
        c.check('exactly_the_managers_passed', out.returned and len(out.value) == len(want) and
                all(x is y for x, y in zip(out.value, want)), detail=(present, repr(out)))
    else:
        c.check('conflicting_keywords_rejected', out.raised_a(LogicError), detail=(present, repr(out)))
    if out.returned:
        c.check('keywords_consumed', kparams == {'_unrelated': 1}, detail=sorted(kparams))


@obligation('C14.pipeline.keywords', targets=['spyne.decorator:rpc', 'spyne.decorator:_get_event_managers',
                                              'spyne.application:Application.process_request'],
            desc="whichever of the four keywords registers the method-level event manager(s), their listeners see the call "
                 "like the service's do: the whole event contract, for every single failing listener and every outcome of "
                 "the user function", assumptions=ASSUME)
def pipeline_keywords(c):
    kw = c.choose(KEYWORDS, 'keyword')
    failing = c.choose(FAIL_SITES, 'failing_listener')
    h = Harness(c, 'json', failing=failing, evmgr_kw=kw)
    out = h.run_wsgi('valid')
    c.check('callable_returns', out.returned, detail=repr(out))
    if not out.returned:
        return
    fail_call = failing is not None and failing[1] == 'method_call'
    user_reachable = not fail_call
    user_ok = user_reachable and h.user_outcome == 'return'
    fail_ret = failing is not None and failing[1] == 'method_return_object' and user_ok
    expected_fault = fail_call or fail_ret or (user_reachable and not user_ok)
    for name, ok, detail in ev_spec.check_call(c.trace, expected_fault, user_ok, user_reachable, failing,
                                               method_managers=h.method_managers):
        c.check(name, ok, detail=detail)
    c.check('method_level_listeners_ran', bool(ev_spec.events_of(c.trace, 'method')), detail=kw)


# ---------------------------------------------------------------------------------------------
# data-structure level: ordered de-duplicating handler set, registration, firing, inheritance

import itertools

from spyne.evmgr import EventManager
from spyne.service import ServiceBase
from spyne.util.oset import oset


def _dedupe(seq):
    out = []
    for x in seq:
        if x not in out:
            out.append(x)
    return out


@obligation('C14.oset.view', targets=['spyne.util.oset:oset.add', 'spyne.util.oset:oset.__iter__'],
            desc="abstract view of oset = insertion-ordered sequence without duplicates: after any sequence of add() "
                 "the iteration order is the first-occurrence order, len and membership agree with the view",
            bounded="all sequences of up to 4 add() calls over 3 distinct keys (120 sequences)")
def oset_view(c):
    n = c.choose([0, 1, 2, 3, 4], 'n_adds')
    seqs = list(itertools.product('abc', repeat=n))
    seq = c.choose(seqs, 'keys')
    s = c.call(oset)
    for k in seq:
        c.call(s.add, k)
    got = list(c.call(iter, s))
    c.check('iteration_is_first_occurrence_order', got == _dedupe(seq), detail=(seq, got))
    c.check('len_agrees', c.call(len, s) == len(_dedupe(seq)))
    c.check('membership_agrees', all((k in seq) == bool(c.call(s.__contains__, k)) for k in 'abcd'))


@obligation('C14.evmgr.order_dedupe_stop', targets=['spyne.evmgr:EventManager.add_listener', 'spyne.evmgr:EventManager.fire_event'],
            desc="listeners run in registration order, a listener registered twice runs once, firing stops at the first "
                 "raising listener and propagates that very exception, listeners of other events do not run",
            bounded="all registration sequences of up to 4 registrations over 3 listeners x each single raising listener")
def evmgr_order(c):
    n = c.choose([0, 1, 2, 3, 4], 'n_registrations')
    seq = c.choose(list(itertools.product([0, 1, 2], repeat=n)), 'registrations')
    raising = c.choose([None, 0, 1, 2], 'raising_listener')
    # a listener may take itself off the list while it runs (a one-shot hook): the others still run, in order
    one_shot = c.choose([None, 0, 1, 2], 'listener_that_deregisters_itself') if raising is None else None
    ran = []
    boom = RuntimeError('x')
    box = {}

    def mk(i):
        def listener(ctx):
            ran.append(i)
            if i == one_shot:
                box['mgr'].del_listener('ev', ls[i])
            if i == raising:
                raise boom
        listener._pyvc_native = True
        return listener
    ls = [mk(i) for i in range(3)]

    def other(ctx):
        ran.append('other')
    other._pyvc_native = True
    mgr = c.call(EventManager, None)
    box['mgr'] = mgr
    c.call(mgr.add_listener, 'other_event', other)
    for i in seq:
        c.call(mgr.add_listener, 'ev', ls[i])
    out = c.run(mgr.fire_event, 'ev', object())
    order = _dedupe(seq)
    if raising in order:
        want = order[:order.index(raising) + 1]
        c.check('raising_listener_propagates', out.raised and out.exc is boom, detail=repr(out))
    else:
        want = order
        c.check('returns', out.returned, detail=repr(out))
    c.check('ran_in_registration_order_once', ran == want, detail=(seq, ran, want))
    if one_shot is not None and out.returned:
        del ran[:]
        o2 = c.run(mgr.fire_event, 'ev', object())
        c.check('deregistered_listener_does_not_run_again', o2.returned and ran == [i for i in order if i != one_shot],
                detail=(seq, one_shot, ran))


@obligation('C14.inheritance.service_listeners', targets=['spyne.service:ServiceBaseMeta.__get_base_event_handlers'],
            desc="service-level listeners are inherited by subclasses: the subclass' handlers for each event are the "
                 "ordered union of its bases' handlers (bases in MRO order, no duplicates); the bases' own handler sets "
                 "are not modified and not aliased",
            bounded="class trees: one or two bases, 0..2 listeners per base and event, shared listeners")
def inheritance(c):
    def mk(tag):
        def l(ctx):
            ctx.append(tag)
        l._pyvc_native = True
        l.__name__ = 'l_' + tag
        return l
    la, lb, lc, ld = [mk(t) for t in 'abcd']
    shape = c.choose(['single', 'two_bases', 'two_bases_shared', 'grandparent'], 'tree_shape')

    class B1(ServiceBase):
        pass
    B1.event_manager.add_listener('method_call', la)
    B1.event_manager.add_listener('method_call', lb)
    B1.event_manager.add_listener('method_return_object', lc)

    class B2(ServiceBase):
        pass
    B2.event_manager.add_listener('method_call', ld)
    if shape == 'two_bases_shared':
        B2.event_manager.add_listener('method_call', la)
    before = {b: {k: list(v) for k, v in b.event_manager.handlers.items()} for b in (B1, B2)}
    if shape == 'single':
        bases = (B1,)
    elif shape == 'grandparent':
        class Mid(B1):
            pass
        bases = (Mid,)
    else:
        bases = (B1, B2)
    out = c.run(type(ServiceBase), 'Sub', bases, {})
    c.check('class_created', out.returned, detail=repr(out))
    if not out.returned:
        return
    Sub = out.value
    want_call = _dedupe([l for b in bases for l in list(b.event_manager.handlers.get('method_call', []))])
    got_call = list(Sub.event_manager.handlers.get('method_call', []))
    c.check('inherits_ordered_union', got_call == want_call, detail=([f.__name__ for f in got_call],
                                                                      [f.__name__ for f in want_call]))
    c.check('inherits_other_events', list(Sub.event_manager.handlers.get('method_return_object', [])) == [lc])
    Sub.event_manager.add_listener('method_call', mk('z'))
    after = {b: {k: list(v) for k, v in b.event_manager.handlers.items()} for b in (B1, B2)}
    c.check('bases_not_modified_nor_aliased', before == after)
    trace = []
    o2 = c.run(Sub.event_manager.fire_event, 'method_call', trace)
    c.check('inherited_listeners_run_in_order', o2.returned and trace == [f.__name__[-1] for f in want_call] + ['z'],
            detail=trace)
