"""C05 (a): validate_native of every numeric model == the declared constraints, for all values and all
facet customisations at once; (b) the string-length guard never rejects a conformant value."""
import decimal

from pyvc.oblig import obligation
from pyvc.sym import And, Or, Not, Implies, Iff, If
from spec import xsd

from spyne.model.primitive import number

D = decimal.Decimal
T_NUM = 'spyne.model.primitive.number'


def schematic_number(c, T, with_values=True, bounds=(None, None)):
    """A customisation of T whose facets are symbolic: returns (cls, facets dict).

    Symbolic mode plants symbolic facet values in a fresh real subclass (so that method resolution,
    closure constants such as _max_b and every other attribute are the real ones); replay mode
    builds the class with T.customize(**facets).
    """
    f = {}
    f['nullable'] = c.bool('nullable')
    for k in ('gt', 'ge', 'lt', 'le'):
        if c.choose(2, k + '_declared'):
            f[k] = c.int(k)
        else:
            f[k] = None
    # precondition of the declaration itself: a fixed-width type refuses (ValueError at customisation time) a bound that
    # excludes its whole value space, so such types do not exist
    lo, hi = bounds
    if lo is not None:
        if f['le'] is not None:
            c.assume(f['le'] >= lo)
        if f['lt'] is not None:
            c.assume(f['lt'] > lo)
    if hi is not None:
        if f['ge'] is not None:
            c.assume(f['ge'] <= hi)
        if f['gt'] is not None:
            c.assume(f['gt'] < hi)
    vals = []
    if with_values:
        n = c.choose(3, 'n_values')   # 0, 1 or 2 enumerated values
        vals = [c.int('values_%d' % i) for i in range(n)]
    f['values'] = vals
    kw = {k: v for k, v in f.items() if v is not None and k != 'values'}
    if vals:
        kw['values'] = list(vals)
    if c.concrete:
        cls = T.customize(**kw)
    else:
        cls = T.customize()
        for k, v in kw.items():
            setattr(cls.Attributes, k, v)
    return cls, f


def _mk_equiv(name):
    lo, hi = xsd.FIXED_WIDTH[name]

    @obligation('C05.number.%s.validate_native.equiv' % name,
                targets=['%s:%s.validate_native' % (T_NUM, name)],
                desc="validate_native(cls, v) <=> v conforms to nullability, the XSD value space of the type "
                     "and the declared gt/ge/lt/le/enumeration facets (symbolic facets, all integers v)",
                assumptions=["integer-valued facets and values (Decimal-valued facets are covered by the "
                             "Decimal obligation)", "customisation attributes planted on a real subclass equal "
                             "those set by customize() (cross-checked in replay)"])
    def ob(c):
        T = getattr(number, name)
        cls, f = schematic_number(c, T, bounds=(T.Attributes.min_bound, T.Attributes.max_bound))
        is_none = bool(c.choose(2, 'value_is_none'))
        v = None if is_none else c.int('value')
        out = c.run(T.validate_native, cls, v)
        c.check('returns', out.returned, detail=repr(out))
        if out.returned:
            spec = xsd.conforms_number(is_none, v, f['nullable'], lo, hi, f['gt'], f['ge'], f['lt'], f['le'],
                                       f['values'])
            c.check('equiv', Iff(out.value, spec))
    return ob


for _name in xsd.FIXED_WIDTH:
    _mk_equiv(_name)
