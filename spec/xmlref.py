"""Independent reference encoder/decoder for the XML wire conventions of the published schema (C01, C06).

Written from the schema conventions, not from Spyne's codecs: children in type-info order (ancestors
first), absent optional element = None, repeated element = list, wrapped array = one wrapper element with
one child per item named after the item type, xsi:nil in {true, 1} = None, XmlAttribute members as
attributes, primitives in their XSD canonical lexical form.
"""
import base64
import datetime as dt
import decimal
import uuid

from lxml import etree

from spyne.model.binary import ByteArray
from spyne.model.complex import ComplexModelBase, Array, XmlAttribute, XmlData
from spyne.model.primitive import (Integer, Unicode, Decimal, Double, Boolean, DateTime, Date, Time, Duration, Uuid)

XSI = 'http://www.w3.org/2001/XMLSchema-instance'


VARIANT = [False]        # True: write another literal of the same value (XSD lexical space has several per value)


def lex(t, v):
    if VARIANT[0]:
        s = _lex_variant(t, v)
        if s is not None:
            return s
    return _lex(t, v)


def _lex_variant(t, v):
    """A non-canonical literal of the XSD lexical space that denotes the same value."""
    if issubclass(t, Boolean):
        return '1' if v else '0'
    if issubclass(t, Integer):
        if getattr(t.Attributes, 'min_bound', None) is not None or getattr(t.Attributes, 'max_bound', None) is not None:
            return None     # redundant characters on fixed-width integers: open finding C08-int-length-guard-redundant-chars
        return ('+0%d' % v) if v >= 0 else ('-00%d' % -v)
    if issubclass(t, Double):
        return None
    if issubclass(t, Decimal):
        s = format(v, 'f')
        return ('+' + s) if not s.startswith('-') else s + ('0' if '.' in s else '.0')
    if issubclass(t, ByteArray):
        # MIME style: the base64 text broken into short lines
        s = base64.b64encode(b''.join(v) if isinstance(v, (list, tuple)) else v).decode('ascii')
        return '\n'.join(s[i:i + 8] for i in range(0, len(s), 8)) + ('\n' if s else '')
    if issubclass(t, DateTime) and not issubclass(t, Date) and v.tzinfo is not None and v.utcoffset() == dt.timedelta(0):
        return v.replace(tzinfo=None).isoformat() + 'Z'
    return None


def _lex(t, v):
    if issubclass(t, Boolean):
        return 'true' if v else 'false'
    if issubclass(t, Integer):
        return str(v)
    if issubclass(t, Double):        # Double derives from Decimal in spyne: test it first
        return repr(float(v))
    if issubclass(t, Decimal):
        return format(v, 'f')
    if issubclass(t, Date):
        return v.isoformat()
    if issubclass(t, DateTime):
        return v.isoformat()
    if issubclass(t, Time):
        return v.isoformat()
    if issubclass(t, Uuid):
        return str(v)
    if issubclass(t, ByteArray):
        return base64.b64encode(b''.join(v) if isinstance(v, (list, tuple)) else v).decode('ascii')
    if issubclass(t, Duration):
        us = (v.days * 86400 + v.seconds) * 10 ** 6 + v.microseconds
        sign = '-' if us < 0 else ''
        us = abs(us)
        s, f = divmod(us, 10 ** 6)
        return '%sPT%d%sS' % (sign, s, ('.%06d' % f) if f else '')
    return v


def unlex(t, s):
    if s is None:
        s = ''
    if issubclass(t, Boolean):
        return s in ('true', '1')
    if issubclass(t, Integer):
        return int(s)
    if issubclass(t, Double):
        return float(s)
    if issubclass(t, Decimal):
        return decimal.Decimal(s)
    if issubclass(t, Date):
        return dt.date.fromisoformat(s[:10])
    if issubclass(t, DateTime):
        return dt.datetime.fromisoformat(s.replace('Z', '+00:00'))
    if issubclass(t, Uuid):
        return uuid.UUID(s)
    if issubclass(t, ByteArray):
        return base64.b64decode(s, validate=True)
    if issubclass(t, Duration):
        neg = s.startswith('-')
        body = s.lstrip('-')[1:]
        days = 0
        if 'D' in body:
            d, body = body.split('D')
            days = int(d)
        secs = decimal.Decimal(0)
        if body.startswith('T'):
            body = body[1:]
            for unit, mult in (('H', 3600), ('M', 60), ('S', 1)):
                if unit in body:
                    n, body = body.split(unit)
                    secs += decimal.Decimal(n) * mult
        td = dt.timedelta(days=days, microseconds=int(secs * 10 ** 6))
        return -td if neg else td
    return s


def declared_members(t):
    """(declaring class, name, type) for every member, ancestors first: an inherited member lives in the namespace
    of the class that declares it (XSD extension)."""
    chain = []
    k = t
    while k is not None and issubclass(k, ComplexModelBase) and hasattr(k, '_type_info'):
        chain.append(k)
        k = getattr(k, '__extends__', None)
    out = []
    seen = set()
    for klass in reversed(chain):
        for name, ft in klass._type_info.items():
            if getattr(ft.Attributes, 'exc', False):
                continue                      # excluded from (de)serialisation
            if name not in seen:
                seen.add(name)
                out.append((klass, name, ft))
    return out


def wire(owner, name, ft):
    """(namespace, local name) under which member `name` of class `owner` travels: sub_ns / sub_name override the
    declaring class' namespace / the attribute name."""
    a = ft.Attributes
    return (getattr(a, 'sub_ns', None) or owner.get_namespace()), (getattr(a, 'sub_name', None) or name)


def tag(ns, name):
    return '{%s}%s' % (ns, name) if ns else name


def is_repeated(t):
    return (not issubclass(t, Array)) and t.Attributes.max_occurs > 1


def encode_into(parent, t, v, name, ns):
    """Appends the element(s) that spell value v of type t under `name`."""
    if issubclass(t, XmlData):
        # the member is the character content of the element that carries the object
        if v is not None:
            parent.text = lex(t.type, v)
        return
    if issubclass(t, XmlAttribute):
        if v is not None:
            parent.set(name, lex(t.type, v))
        return
    if is_repeated(t):
        for item in (v or []):
            _encode_one(parent, t, item, name, ns)
        return
    _encode_one(parent, t, v, name, ns)


def _encode_one(parent, t, v, name, ns):
    if v is None:
        if t.Attributes.min_occurs > 0:
            e = etree.SubElement(parent, tag(ns, name))
            e.set('{%s}nil' % XSI, 'true')
        return
    e = etree.SubElement(parent, tag(ns, name))
    if issubclass(t, Array):
        (iname, itype), = t._type_info.items()
        for item in v:
            if item is None:
                ie = etree.SubElement(e, tag(ns, iname))
                ie.set('{%s}nil' % XSI, 'true')
            else:
                _encode_one(e, itype, item, iname, ns)
    elif issubclass(t, ComplexModelBase):
        for owner, k, ft in declared_members(t):
            wns, wname = wire(owner, k, ft)
            encode_into(e, ft, getattr(v, k, None), wname, wns)
    else:
        e.text = lex(t, v)


def decode_from(parent, t, name, ns):
    """The value of member `name` of type t denoted by the children/attributes of parent."""
    if issubclass(t, XmlData):
        txt = parent.text
        return None if txt is None or txt == '' else unlex(t.type, txt)
    if issubclass(t, XmlAttribute):
        s = parent.get(name)
        return None if s is None else unlex(t.type, s)
    kids = [c for c in parent if isinstance(c.tag, str) and c.tag == tag(ns, name)]
    if is_repeated(t):
        vals = [_decode_one(c, t) for c in kids]
        return vals or None
    if not kids:
        return None
    return _decode_one(kids[-1], t)


def _decode_one(e, t):
    if e.get('{%s}nil' % XSI) in ('true', '1'):
        return None
    if issubclass(t, Array):
        (iname, itype), = t._type_info.items()
        return [_decode_one(c, itype) for c in e if isinstance(c.tag, str)]
    if issubclass(t, ComplexModelBase):
        out = {}
        for owner, k, ft in declared_members(t):
            wns, wname = wire(owner, k, ft)
            out[k] = decode_from(e, ft, wname, wns)
        return out
    return unlex(t, ''.join(e.itertext()) if len(e) == 0 or all(not isinstance(ch.tag, str) for ch in e) else e.text)


def norm(t, v):
    """Value tree in the comparison form: complex -> dict, what XML cannot distinguish is identified."""
    if issubclass(t, (XmlAttribute, XmlData)):
        t = t.type
    if v is None:
        return None
    if is_repeated(t) and isinstance(v, (list, tuple)):
        items = [_norm_one(t, x) for x in v]
        return items or None
    return _norm_one(t, v)


def _norm_one(t, v):
    if v is None:
        return None
    if issubclass(t, Array):
        (iname, itype), = t._type_info.items()
        return [_norm_one(itype, x) for x in v]
    if issubclass(t, ComplexModelBase):
        if isinstance(v, dict):
            return {k: norm(ft, v.get(k)) for k, ft in t.get_flat_type_info(t).items()}
        return {k: norm(ft, getattr(v, k, None)) for k, ft in t.get_flat_type_info(t).items()}
    if issubclass(t, ByteArray):
        b = b''.join(v) if isinstance(v, (list, tuple)) else bytes(v)
        return b or None
    if issubclass(t, DateTime) and not issubclass(t, Date):
        return (v.replace(tzinfo=None), v.utcoffset())
    if issubclass(t, Double):
        return float(v)
    return v
