"""Independent reference encoder/decoder for the dict-document conventions (JSON / YAML / MessagePack), C02.

Conventions (spyne/protocol/dictdoc docstrings): the request is a map with the method name as single key;
an object is a map by field name (ancestors first) or, with complex_as=list, the positional list of all its
fields in flat type-info order; with ignore_wrappers=False every object is wrapped in a single-key map named
after its class; arrays and repeated members are lists; numbers are numbers, booleans booleans, text text;
dates, times, durations, decimals and uuids are their XSD text; bytes are base64 text (MessagePack: bin).
Integers outside MessagePack's native range travel as decimal text.
"""
import base64
import datetime as dt
import decimal
import uuid

from spyne.model.binary import ByteArray
from spyne.model.complex import ComplexModelBase, Array, XmlAttribute, XmlData
from spyne.model.primitive import (Integer, Unicode, Decimal, Double, Boolean, DateTime, Date, Time, Duration, Uuid)

from . import xmlref


def _members(t):
    """(python name, wire key, type): sub_name replaces the attribute name as the key of the document."""
    return [(k, getattr(ft.Attributes, 'sub_name', None) or k, ft) for _, k, ft in xmlref.declared_members(t)]


def enc(t, v, cfg):
    """cfg: dict(wrappers=bool, as_list=bool, family='json'|'yaml'|'msgpack')."""
    if issubclass(t, (XmlAttribute, XmlData)):
        t = t.type
    if v is None:
        return None
    if xmlref.is_repeated(t):
        return [_enc_one(t, x, cfg) for x in v]
    return _enc_one(t, v, cfg)


def _enc_one(t, v, cfg):
    if v is None:
        return None
    if issubclass(t, Array):
        (_, itype), = t._type_info.items()
        return [_enc_one(itype, x, cfg) for x in v]
    if issubclass(t, ComplexModelBase):
        if cfg['as_list']:
            body = [enc(ft, getattr(v, k, None), cfg) for k, wk, ft in _members(t)]
        else:
            body = {}
            for k, wk, ft in _members(t):
                x = getattr(v, k, None)
                if x is not None:
                    body[wk] = enc(ft, x, cfg)
                elif ft.Attributes.min_occurs > 0:
                    body[wk] = None          # a mandatory occurrence whose value is null
        if cfg['wrappers']:
            return {(t.__orig__ or t).get_type_name(): body}
        return body
    if issubclass(t, Boolean):
        return bool(v)
    if issubclass(t, Integer):
        if cfg['family'] == 'msgpack' and not (-2 ** 63 <= v < 2 ** 64):
            return str(v)
        return int(v)
    if issubclass(t, Double):
        return float(v)
    if issubclass(t, ByteArray):
        raw = b''.join(v) if isinstance(v, (list, tuple)) else bytes(v)
        return raw if cfg['family'] == 'msgpack' else base64.b64encode(raw).decode('ascii')
    if issubclass(t, Unicode) and not issubclass(t, Uuid):      # Uuid derives from Unicode in spyne
        return v
    return xmlref.lex(t, v)


def dec(t, d, cfg):
    if issubclass(t, (XmlAttribute, XmlData)):
        t = t.type
    if d is None:
        return None
    if xmlref.is_repeated(t):
        return [_dec_one(t, x, cfg) for x in d] or None
    return _dec_one(t, d, cfg)


def _dec_one(t, d, cfg):
    if d is None:
        return None
    if issubclass(t, Array):
        (_, itype), = t._type_info.items()
        return [_dec_one(itype, x, cfg) for x in d]
    if issubclass(t, ComplexModelBase):
        if cfg['wrappers'] and isinstance(d, dict) and len(d) == 1:
            (_, d), = d.items()
        if d is None:
            return None
        if cfg['as_list']:
            return {k: dec(ft, x, cfg) for (k, wk, ft), x in zip(_members(t), d)}
        return {k: dec(ft, d.get(wk), cfg) for k, wk, ft in _members(t)}
    if issubclass(t, Boolean):
        return bool(d)
    if issubclass(t, Integer):
        return int(d)
    if issubclass(t, Double):
        return float(d)
    if issubclass(t, ByteArray):
        if isinstance(d, (bytes, bytearray, memoryview)):
            return bytes(d)
        return base64.b64decode(d, validate=True)
    if issubclass(t, Unicode) and not issubclass(t, Uuid):
        return d if isinstance(d, str) else d.decode('utf8')
    if isinstance(d, bytes):
        d = d.decode('utf8')
    return xmlref.unlex(t, d)


def strkeys(o):
    if isinstance(o, dict):
        return {(k.decode('utf8') if isinstance(k, bytes) else k): strkeys(v) for k, v in o.items()}
    if isinstance(o, (list, tuple)):
        return [strkeys(x) for x in o]
    return o
