"""Reference decoders for fault documents (what a client of each protocol family sees), and the
HTTP status classification of the C09 statement."""
import json

from pyvc.sym import And, Or, Not, Implies, Iff, If, StartsWith

SOAP11_NS = 'http://schemas.xmlsoap.org/soap/envelope/'
SOAP12_NS = 'http://www.w3.org/2003/05/soap-envelope'


def is_client_code(code):
    """C09: 'any Client fault' -- the code is Client or a dotted sub-code of Client."""
    return Or(code == 'Client', StartsWith(code, 'Client.'))


def _xml_detail(elt):
    if elt is None:
        return None
    def conv(e):
        if len(e) == 0:
            return e.text
        return {child.tag.split('}')[-1]: conv(child) for child in e}
    return {child.tag.split('}')[-1]: conv(child) for child in elt}


def decode_fault(family, body):
    """-> dict(faultcode, faultstring, detail) or None if the body is not a fault document."""
    if family in ('http', 'json'):
        d = json.loads(body.decode('utf8'))
        if not isinstance(d, dict) or 'faultcode' not in d:
            return None
        return dict(faultcode=d['faultcode'], faultstring=d.get('faultstring'), detail=d.get('detail'), extra=sorted(
            k for k in d if k not in ('faultcode', 'faultstring', 'detail', 'faultactor')))
    if family == 'yaml':
        import yaml
        d = yaml.safe_load(body.decode('utf8'))
        if not isinstance(d, dict) or 'faultcode' not in d:
            return None
        return dict(faultcode=d['faultcode'], faultstring=d.get('faultstring'), detail=d.get('detail'), extra=sorted(
            k for k in d if k not in ('faultcode', 'faultstring', 'detail', 'faultactor')))
    if family == 'msgpackrpc':
        # MessagePack-RPC error reply: [3, msgid, {faultcode, faultstring, ...}]
        import msgpack
        d = msgpack.unpackb(body, raw=False)
        if not (isinstance(d, (list, tuple)) and len(d) >= 3 and d[0] == 3 and isinstance(d[2], dict)):
            return None
        d = d[2]
        return dict(faultcode=d.get('faultcode'), faultstring=d.get('faultstring'), detail=d.get('detail'), extra=sorted(
            k for k in d if k not in ('faultcode', 'faultstring', 'detail', 'faultactor')))
    if family == 'msgpack':
        import msgpack
        d = msgpack.unpackb(body, raw=False)
        if not isinstance(d, dict) or 'faultcode' not in d:
            return None
        return dict(faultcode=d['faultcode'], faultstring=d.get('faultstring'), detail=d.get('detail'), extra=sorted(
            k for k in d if k not in ('faultcode', 'faultstring', 'detail', 'faultactor')))
    from lxml import etree
    root = etree.fromstring(body)
    if family in ('soap11', 'xml'):
        f = root if root.tag == '{%s}Fault' % SOAP11_NS else root.find('.//{%s}Fault' % SOAP11_NS)
        if f is None:
            return None
        code = f.findtext('faultcode')
        if code is not None and ':' in code:
            code = code.split(':', 1)[1]
        extra = [c.tag for c in f if c.tag not in ('faultcode', 'faultstring', 'faultactor', 'detail')]
        return dict(faultcode=code, faultstring=f.findtext('faultstring'), detail=_xml_detail(f.find('detail')),
                    extra=extra)
    if family == 'soap12':
        ns = {'s': SOAP12_NS}
        f = root.find('.//s:Fault', ns)
        if f is None:
            return None
        parts = []
        v = f.findtext('s:Code/s:Value', namespaces=ns)
        v = v.split(':', 1)[1] if ':' in v else v
        parts.append({'Sender': 'Client', 'Receiver': 'Server'}.get(v, v))
        sub = f.find('s:Code/s:Subcode', ns)
        while sub is not None:
            parts.append(sub.findtext('s:Value', namespaces=ns))
            sub = sub.find('s:Subcode', ns)
        det = f.find('s:Detail', ns)
        if det is not None and len(det) == 1:
            det = _xml_detail(det)
        elif det is not None:
            det = _xml_detail(det)
        extra = [c.tag.split('}')[-1] for c in f if c.tag.split('}')[-1] not in ('Code', 'Reason', 'Role', 'Node', 'Detail')]
        return dict(faultcode='.'.join(parts), faultstring=f.findtext('s:Reason/s:Text', namespaces=ns), detail=det,
                    extra=extra)
    raise KeyError(family)
