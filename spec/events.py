"""Specification automaton for the event protocol of one call (property C14), as predicates over
a recorded trace.  Trace items: ('event', manager_label, event_name), ('user_fn', arg), ...
"""

RETURN_CHAIN = ['method_return_document', 'method_return_string']
EXC_CHAIN = ['method_exception_document', 'method_exception_string']


def events_of(trace, label):
    return [t[2] for t in trace if t[0] == 'event' and t[1] == label]


def check_call(trace, expected_fault, user_returned_normally, user_reachable, failing=None, method_managers=2, documents=None):
    """Returns a list of (clause, ok, detail).

    expected_fault: the scenario ends in a fault (malformed/unknown/invalid request, a raising
    method_call or method_return_object listener that is reached, or a raising user function).
    """
    out = []
    app = events_of(trace, 'app')

    def clause(name, ok, detail=None):
        out.append((name, bool(ok), detail if not ok else None))

    clause('created_first', app[:1] == ['method_context_created'] and app.count('method_context_created') == 1, app)
    clause('closed_last', app[-1:] == ['method_context_closed'] and app.count('method_context_closed') == 1, app)
    n_user = sum(1 for t in trace if t[0] == 'user_fn')
    clause('user_fn_at_most_once', n_user <= 1, n_user)
    if n_user:
        iu = next(i for i, t in enumerate(trace) if t[0] == 'user_fn')
        ic = [i for i, t in enumerate(trace) if t[:3] == ('event', 'app', 'method_call')]
        clause('user_fn_after_method_call', bool(ic) and ic[0] < iu, trace[:iu + 1])
    clause('user_fn_iff_reachable', (n_user == 1) == bool(user_reachable), (n_user, user_reachable))
    clause('return_object_iff_returned', (app.count('method_return_object') == 1) == bool(user_returned_normally)
           and app.count('method_return_object') <= 1, app)
    clause('exception_object_iff_fault', (app.count('method_exception_object') == 1) == bool(expected_fault)
           and app.count('method_exception_object') <= 1, app)
    chain, other = (EXC_CHAIN, RETURN_CHAIN) if expected_fault else (RETURN_CHAIN, EXC_CHAIN)
    tail = [e for e in app if e in chain or e in other]
    # documents: None = the transport writes a response document for every call; otherwise the list of document / string
    # events the transport is expected to produce for this call (NullServer hands native objects over)
    clause('document_then_string', tail == (chain if documents is None else documents), tail)
    if expected_fault and 'method_exception_object' in app and all(e in app for e in chain):
        clause('exception_chain_order', app.index('method_exception_object') < app.index(chain[0]) < app.index(chain[1]),
               app)
    if (not expected_fault) and 'method_return_object' in app and all(e in app for e in chain):
        clause('return_chain_order', app.index('method_return_object') < app.index(chain[0]) < app.index(chain[1]), app)
    # the other managers see a sub-sequence of what the application manager sees, each event at most once
    for label in ('service', 'method'):
        evs = events_of(trace, label)
        clause('%s_no_duplicates' % label, len(evs) == len(set(evs)), evs)
        it = iter(app)
        clause('%s_subsequence_of_app' % label, all(e in it for e in evs), (evs, app))
        # once the method is known (method_call is fired with the descriptor set) every later event of the call reaches
        # the service's and the method's managers too
        if 'method_call' in app:
            # (method_context_closed is an application-level event)
            rest = [e for e in app[app.index('method_call'):] if e != 'method_context_closed']
            if failing is not None:
                # a listener of this event raised: the event need not reach the managers served after it
                rest = [e for e in rest if e != failing[1]]
                evs = [e for e in evs if e != failing[1]]
            clause('%s_sees_the_call_from_method_call_on' % label, evs[-len(rest):] == rest if rest else True, (evs, rest))
    m1, m2 = events_of(trace, 'method'), events_of(trace, 'method2')
    if failing is not None and failing[0] == 'method':
        m1 = [e for e in m1 if e != failing[1]]       # the first manager's listener raised: the event stops there
    if method_managers == 2:
        clause('every_manager_of_the_method_is_served', m1 == m2, (m1, m2))
    return out


def listener_order(trace, label, event):
    """Indices (registration numbers) of the listeners of (label, event) in the order they ran."""
    return [t[3] for t in trace if t[0] == 'listener' and t[1] == label and t[2] == event]
