"""Spec functions transcribed from XML Schema Part 2 (datatypes) and the property statements.

Everything here is written against the polymorphic connectives of pyvc.sym, so that each predicate
is evaluated symbolically in a proof and concretely in a replay.
"""
from pyvc.sym import And, Or, Not, Implies, Iff, If

# XSD part 2, 3.3.16-3.3.24: value spaces of the derived integer types
FIXED_WIDTH = {
    'Integer8':   (-2 ** 7, 2 ** 7 - 1),        # xs:byte
    'Integer16':  (-2 ** 15, 2 ** 15 - 1),      # xs:short
    'Integer32':  (-2 ** 31, 2 ** 31 - 1),      # xs:int
    'Integer64':  (-2 ** 63, 2 ** 63 - 1),      # xs:long
    'UnsignedInteger8':  (0, 2 ** 8 - 1),       # xs:unsignedByte
    'UnsignedInteger16': (0, 2 ** 16 - 1),      # xs:unsignedShort
    'UnsignedInteger32': (0, 2 ** 32 - 1),      # xs:unsignedInt
    'UnsignedInteger64': (0, 2 ** 64 - 1),      # xs:unsignedLong
    'Integer': (None, None),                    # xs:integer
    'UnsignedInteger': (0, None),               # xs:nonNegativeInteger
    'PositiveInteger': (1, None),               # xs:positiveInteger
}


def in_range(v, lo, hi):
    cs = []
    if lo is not None:
        cs.append(lo <= v)
    if hi is not None:
        cs.append(v <= hi)
    return And(*cs) if cs else True


def conforms_number(v_is_none, v, nullable, lo, hi, gt, ge, lt, le, values):
    """C05: a value satisfies the declared constraints of a numeric type.

    gt/ge/lt/le are None when the facet is not declared; values is a list (empty = no enumeration).
    """
    if v_is_none:
        return nullable
    cs = [in_range(v, lo, hi)]
    if gt is not None:
        cs.append(v > gt)
    if ge is not None:
        cs.append(v >= ge)
    if lt is not None:
        cs.append(v < lt)
    if le is not None:
        cs.append(v <= le)
    if values:
        cs.append(Or(*[v == x for x in values]))
    return And(*cs)
