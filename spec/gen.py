"""Deterministic value generators for the thorough tier (seeded by VERIF_SEED; the same seed gives the same values, so
a replay file that records the seed and the index rebuilds the failing value)."""
import datetime as dt
import decimal
import random
import struct
import uuid


def rng(seed, salt):
    return random.Random('%s/%s' % (seed, salt))


def integer(r):
    kind = r.randrange(6)
    if kind == 0:
        return r.randrange(-10, 11)
    if kind == 1:
        return r.choice([-1, 1]) * 2 ** r.randrange(0, 130) + r.randrange(-2, 3)
    if kind == 2:
        return r.randrange(-2 ** 63, 2 ** 63)
    if kind == 3:
        return r.randrange(-10 ** 30, 10 ** 30)
    if kind == 4:
        return None
    return r.randrange(-2 ** 31, 2 ** 31)


_XML_RANGES = [(0x20, 0x7e), (0xa0, 0xff), (0x100, 0x17f), (0x370, 0x3ff), (0x4e00, 0x4e40), (0x1f600, 0x1f640)]


def text(r, xml_safe=True, max_len=40):
    """Text of XML-legal characters (no control characters); may contain markup characters, blanks inside, quotes."""
    kind = r.randrange(8)
    if kind == 0:
        return None
    n = r.randrange(0, max_len) if kind != 1 else r.randrange(200, 400)
    out = []
    for _ in range(n):
        lo, hi = r.choice(_XML_RANGES)
        out.append(chr(r.randrange(lo, hi + 1)))
    s = ''.join(out)
    if kind == 2:
        s = s.replace(' ', '') + '<&>"\''
    return s


def dec(r):
    """Decimals that str() writes without an exponent (the exponent forms are an open finding of their own)."""
    kind = r.randrange(5)
    if kind == 0:
        return None
    digits = r.randrange(1, 36)
    frac = r.randrange(0, 7)
    n = r.randrange(-10 ** digits, 10 ** digits)
    # exact construction (scaleb would round to the context precision and switch to exponent notation)
    return decimal.Decimal((1 if n < 0 else 0, tuple(int(ch) for ch in str(abs(n))), -frac))


def double(r):
    kind = r.randrange(5)
    if kind == 0:
        return None
    if kind == 1:
        return float(r.randrange(-10 ** 6, 10 ** 6)) / 8
    while True:
        v, = struct.unpack('>d', struct.pack('>Q', r.getrandbits(64)))
        if v == v and v not in (float('inf'), float('-inf')):
            return v


def tz(r):
    kind = r.randrange(4)
    if kind == 0:
        return None
    if kind == 1:
        return dt.timezone.utc
    return dt.timezone(dt.timedelta(minutes=r.randrange(-14 * 60, 14 * 60 + 1)))


def datetime_(r):
    if r.randrange(6) == 0:
        return None
    d = dt.datetime(r.randrange(1, 10000), r.randrange(1, 13), r.randrange(1, 29), r.randrange(24), r.randrange(60), r.randrange(60),
                    r.choice([0, 0, 1, 999999, r.randrange(10 ** 6)]))
    z = tz(r)
    if z is not None:
        try:
            d.replace(tzinfo=z).astimezone(dt.timezone.utc)
        except OverflowError:
            return d
        return d.replace(tzinfo=z)
    return d


def date_(r):
    if r.randrange(6) == 0:
        return None
    return dt.date(r.randrange(1, 10000), r.randrange(1, 13), r.randrange(1, 29))


def duration(r):
    if r.randrange(6) == 0:
        return None
    return dt.timedelta(days=r.randrange(-10 ** 4, 10 ** 4), seconds=r.randrange(86400), microseconds=r.choice([0, 1, 999999, r.randrange(10 ** 6)]))


def chunks(r):
    kind = r.randrange(5)
    if kind == 0:
        return None
    n = r.randrange(1, 4)
    return [bytes(r.getrandbits(8) for _ in range(r.randrange(0, 50))) for _ in range(n)] if kind != 1 else [b'']


def uuid_(r):
    if r.randrange(6) == 0:
        return None
    return uuid.UUID(int=r.getrandbits(128))


def boolean(r):
    return r.choice([True, False, None])


def prim_vector(seed, index):
    """one value for each of C01's ten primitive slots (i u d b f t a y r z)"""
    r = rng(seed, 'prims/%d' % index)
    return dict(i=integer(r), u=text(r), d=dec(r), b=boolean(r), f=double(r), t=datetime_(r), a=date_(r), y=chunks(r),
                r=duration(r), z=uuid_(r))
