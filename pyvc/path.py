"""Paths, forking by re-execution, and the validity queries.

Exploration is by deterministic re-execution: a path is identified by the list of decisions taken at
its fork points; running the obligation again with a longer decision prefix reaches the sibling.
Nothing is copied, so real (concrete) objects can be used freely as long as the obligation builds
its inputs afresh on every run.
"""
import os
import time
import z3

from .sym import (Sym, SInt, SBool, SReal, SStr, SBytes, SOpaque, PathAbort, Unsupported,
                  EngineSignal, as_z3_bool)

QUERY_TIMEOUT_MS = 10000


def _scan(e):
    """(has quantifier, has string/sequence term) for a formula; bounded walk."""
    stack = [e]
    n = 0
    quant = seq = False
    while stack and n < 3000:
        x = stack.pop()
        n += 1
        if z3.is_quantifier(x):
            quant = True
            continue
        if z3.is_app(x):
            try:
                if x.sort().kind() in (z3.Z3_SEQ_SORT, z3.Z3_RE_SORT):
                    seq = True
            except z3.Z3Exception:
                pass
            stack.extend(x.children())
    return quant, seq


def _has_quantifier(e):
    return _scan(e)[0]


class Refuted(object):
    def __init__(self, label, model, pc_size, detail=None):
        self.label = label
        self.model = model
        self.pc_size = pc_size
        self.detail = detail


class Path(object):
    """One symbolic execution path (symbolic mode of an obligation context)."""
    concrete = False

    def __init__(self, prefix, worklist, stats, timeout_ms=QUERY_TIMEOUT_MS):
        self.prefix = prefix
        self.worklist = worklist
        self.decisions = []
        self.solver = z3.Solver()
        # incremental attempt bounded by a deterministic resource limit (not wall time: verdicts must not depend on
        # machine load); a fresh solver decides what it leaves open
        self.solver.set('rlimit', 150000)
        self.solver.set('timeout', 60000)
        self.full_timeout_ms = timeout_ms
        self.has_quant = False
        self.has_seq = False
        self.pc = []
        self.stats = stats
        self.names = {}
        self.vars = {}           # declared input name -> Sym (for model extraction)
        self.choices = []        # (label, index) of explicit choose() calls
        self.trace = []          # ghost trace
        self.ghost = {}
        self.checks = []         # (label, status, info)
        self.notes = []
        self.regions = []        # known-finding regions: (finding_id, z3 bool)
        self.unknown_branches = 0
        self.overapprox = []     # reasons: callee models that over-approximate

    # -- symbols --------------------------------------------------------------------------
    def _fresh_name(self, name):
        k = self.names.get(name, 0)
        self.names[name] = k + 1
        return name if k == 0 else "%s!%d" % (name, k)

    def int(self, name, declare=True):
        v = SInt(z3.Int(self._fresh_name(name)))
        if declare:
            self.vars[name] = v
        return v

    def real(self, name, declare=True):
        v = SReal(z3.Real(self._fresh_name(name)))
        if declare:
            self.vars[name] = v
        return v

    def bool(self, name, declare=True):
        v = SBool(z3.Bool(self._fresh_name(name)))
        if declare:
            self.vars[name] = v
        return v

    def str(self, name, declare=True):
        v = SStr(z3.String(self._fresh_name(name)))
        if declare:
            self.vars[name] = v
        return v

    def bytes(self, name, declare=True):
        v = SBytes(z3.String(self._fresh_name(name)))
        if declare:
            self.vars[name] = v
        return v

    def opaque(self, name, pytype=object, declare=False):
        v = SOpaque(self._fresh_name(name), pytype)
        if declare:
            self.vars[name] = v
        return v

    # -- forks ----------------------------------------------------------------------------
    def _sat(self, *extra):
        t0 = time.time()
        r = self.solver.check(*extra)
        if r == z3.unknown and not self.has_quant and not self.has_seq and not any(_scan(e)[1] for e in extra):
            # (for string constraints z3 needs seconds to build long witnesses: an unknown there simply keeps the
            # branch, which is sound)
            # the incremental core gave up: ask a fresh (non-incremental) solver, which runs the full tactic
            s2 = z3.Solver()
            s2.set('rlimit', 60000000)
            s2.set('timeout', max(self.full_timeout_ms, 60000))
            for c_ in self.pc:
                s2.add(c_)
            for e in extra:
                s2.add(e)
            r = s2.check()
        self.stats['queries'] += 1
        d = time.time() - t0
        self.stats['solver_s'] += d
        if d > 1.0 and os.environ.get('PYVC_SLOW'):
            print("SLOW feasibility query %.1fs -> %s: %s   [pc size %d]" % (d, r, str(extra)[:300], len(self.pc)))
        return r

    def branch(self, cond):
        """Fork on a z3 Boolean; returns the Python bool taken on this path."""
        if isinstance(cond, bool):
            return cond
        if isinstance(cond, SBool):
            cond = cond.t
        cond = z3.simplify(cond)
        if z3.is_true(cond):
            return True
        if z3.is_false(cond):
            return False
        i = len(self.decisions)
        if i < len(self.prefix):
            taken = self.prefix[i]
            assert taken[0] == 'b', "replay diverged: expected %r at %d" % (taken, i)
            val = taken[1]
        else:
            rt = self._sat(cond)
            rf = self._sat(z3.Not(cond))
            ft = rt != z3.unsat
            ff = rf != z3.unsat
            if rt == z3.unknown or rf == z3.unknown:
                self.unknown_branches += 1
            if ft and ff:
                self.worklist.append(self.decisions + [('b', False)])
                val = True
            elif ft:
                val = True
            elif ff:
                val = False
            else:
                raise PathAbort("infeasible")
        self.decisions.append(('b', val))
        c = cond if val else z3.Not(cond)
        if not self.has_seq:
            self.has_seq = _scan(c)[1]
        self.pc.append(c)
        self.solver.add(c)
        return val

    def choose(self, n, label=None):
        """Unconditional n-way fork (input kinds, outcomes of havocked callees)."""
        if hasattr(n, '__len__'):
            opts = list(n)
            return opts[self.choose(len(opts), label)]
        if n <= 0:
            raise PathAbort("empty choice")
        i = len(self.decisions)
        if i < len(self.prefix):
            taken = self.prefix[i]
            assert taken[0] == 'c', "replay diverged: expected %r at %d" % (taken, i)
            val = taken[1]
        else:
            for k in range(n - 1, 0, -1):
                self.worklist.append(self.decisions + [('c', k)])
            val = 0
        self.decisions.append(('c', val))
        self.choices.append((label, val))
        return val

    def assume(self, cond):
        if isinstance(cond, bool):
            if not cond:
                raise PathAbort("assume False")
            return
        c = as_z3_bool(cond)
        if not (self.has_quant and self.has_seq):
            q_, s_ = _scan(c)
            self.has_quant = self.has_quant or q_
            self.has_seq = self.has_seq or s_
        self.pc.append(c)
        self.solver.add(c)
        if len(self.decisions) >= len(self.prefix):
            if self._sat() == z3.unsat:
                raise PathAbort("assumption infeasible")

    def feasible(self):
        return self._sat() != z3.unsat

    def known_region(self, finding_id, cond):
        """Declare the witness region of a known finding (see known_findings.jsonl)."""
        self.regions.append((finding_id, as_z3_bool(cond) if not isinstance(cond, bool) else z3.BoolVal(cond)))

    # -- obligations ----------------------------------------------------------------------
    def check(self, label, cond, detail=None):
        """VC: under the path condition, cond holds.  Records the verdict; never raises."""
        if isinstance(cond, bool):
            c = z3.BoolVal(cond)
        else:
            c = as_z3_bool(cond)
        self.checks.append(PendingCheck(label, c, list(self.pc), dict(self.vars), list(self.choices),
                                        list(self.regions), detail, list(self.trace)))

    def emit(self, *event):
        self.trace.append(tuple(event))

    def note(self, s):
        self.notes.append(s)

    def end(self, why="cut"):
        raise PathAbort(why)

    def note_overapprox(self, why):
        self.overapprox.append(why)


class PendingCheck(object):
    def __init__(self, label, cond, pc, vars_, choices, regions, detail, trace):
        self.label = label
        self.cond = cond
        self.pc = pc
        self.vars = vars_
        self.choices = choices
        self.regions = regions
        self.detail = detail
        self.trace = trace


class ConcreteCtx(object):
    """Replay mode of an obligation context: inputs come from a model, the real code runs natively."""
    concrete = True

    def __init__(self, values, choices):
        self.values = values
        self._choices = list(choices)
        self._ci = 0
        self.trace = []
        self.ghost = {}
        self.results = []
        self.notes = []
        self.regions_hit = []

    def _val(self, name, default):
        return self.values.get(name, default)

    def int(self, name, declare=True):
        return int(self._val(name, 0))

    def real(self, name, declare=True):
        import decimal
        return decimal.Decimal(str(self._val(name, 0)))

    def bool(self, name, declare=True):
        return bool(self._val(name, False))

    def str(self, name, declare=True):
        return self._val(name, '')

    def bytes(self, name, declare=True):
        v = self._val(name, b'')
        return v.encode('latin-1') if isinstance(v, str) else v

    def opaque(self, name, pytype=object, declare=False):
        return _Token(name)

    def choose(self, n, label=None):
        if hasattr(n, '__len__'):
            opts = list(n)
            return opts[self.choose(len(opts), label)]
        if self._ci < len(self._choices):
            lab, val = self._choices[self._ci]
            self._ci += 1
            return val
        self._ci += 1
        return 0

    def branch(self, cond):
        return bool(cond)

    def assume(self, cond):
        if not cond:
            raise PathAbort("assumption false in replay")

    def known_region(self, finding_id, cond):
        if cond:
            self.regions_hit.append(finding_id)

    def check(self, label, cond, detail=None):
        self.results.append((label, bool(cond), detail))

    def emit(self, *event):
        self.trace.append(tuple(event))

    def note(self, s):
        self.notes.append(s)

    def note_overapprox(self, why):
        pass

    def end(self, why="cut"):
        raise PathAbort(why)


class _Token(object):
    def __init__(self, name):
        self.name = name

    def __repr__(self):
        return "<token %s>" % self.name


def model_values(model, vars_):
    """Python values of the declared inputs in a z3 model (model completion on)."""
    out = {}
    for name, sym in vars_.items():
        try:
            v = model.eval(sym.t, model_completion=True)
        except z3.Z3Exception:
            continue
        if isinstance(sym, SBool):
            out[name] = z3.is_true(v)
        elif isinstance(sym, SInt):
            out[name] = v.as_long()
        elif isinstance(sym, SReal):
            out[name] = str(v.as_fraction()) if hasattr(v, 'as_fraction') else str(v)
        elif isinstance(sym, SStr):
            try:
                out[name] = v.as_string()
            except Exception:
                out[name] = str(v)
        else:
            out[name] = str(v)
    return out
