"""Text tier 2: strings as token lists, regex matches as group records (DESIGN 2.7).

FmtStr   -- the result of formatting symbolic integers into a literal skeleton
            ("%02d:%02d" % (h, m), "%i" % n, str(n), ''.join([...])).  Tokens:
              Lit(text) | Dec(term, minwidth, zero) | Emb(SStr)
LexStr   -- an *input* string about which only this is known: it matches a given compiled regular
            expression, with the digit groups described by (value, width) records.
SymSeq   -- a sequence of symbolic length (only its length and per-index terms are available).
"""
import re
import z3

from . import sym as S
from .sym import Sym, SInt, SBool, SStr, SBytes, Unsupported


class Lit(object):
    __slots__ = ('text',)

    def __init__(self, text):
        self.text = text

    def __repr__(self):
        return "Lit(%r)" % (self.text,)


class Dec(object):
    """Decimal rendering of an integer term: '-' if negative, then at least minwidth characters
    in total (zero- or space-padded on the left), as CPython's %d / %0Nd / str() produce."""
    __slots__ = ('term', 'minwidth', 'zero')

    def __init__(self, term, minwidth=0, zero=False):
        self.term = term
        self.minwidth = minwidth
        self.zero = zero

    def __repr__(self):
        return "Dec(%s,%d,%s)" % (self.term, self.minwidth, self.zero)


class Emb(object):
    __slots__ = ('s',)

    def __init__(self, s):
        self.s = s

    def __repr__(self):
        return "Emb(%r)" % (self.s,)


_PCT = re.compile(r'%(?P<flags>[-#0 +]*)(?P<width>\d+)?(?:\.(?P<prec>\d+))?(?P<conv>[diursxXeEfFgGc%a])')


class FmtStr(object):
    pytype = str

    def __init__(self, tokens, pytype=str):
        toks = []
        for t in tokens:
            if isinstance(t, Lit):
                if not t.text:
                    continue
                if toks and isinstance(toks[-1], Lit):
                    toks[-1] = Lit(toks[-1].text + t.text)
                    continue
            toks.append(t)
        self.tokens = toks
        self.pytype = pytype

    def __repr__(self):
        return "FmtStr(%r)" % (self.tokens,)

    def __bool__(self):
        raise S.SymbolicLeak("truth of FmtStr taken natively")

    @staticmethod
    def lift(v, pytype=str):
        if isinstance(v, FmtStr):
            return v
        if isinstance(v, (str, bytes)):
            if isinstance(v, bytes):
                return FmtStr([Lit(v.decode('latin-1'))], bytes)
            return FmtStr([Lit(v)], str)
        if isinstance(v, SStr):
            return FmtStr([Emb(v)], v.pytype)
        raise Unsupported("cannot lift %r to a token string" % (v,))

    @staticmethod
    def from_percent(interp, fmt, args):
        pytype = type(fmt)
        text = fmt if isinstance(fmt, str) else fmt.decode('latin-1')
        toks = []
        pos = 0
        ai = 0
        for m in _PCT.finditer(text):
            toks.append(Lit(text[pos:m.start()]))
            pos = m.end()
            conv = m.group('conv')
            if conv == '%':
                toks.append(Lit('%'))
                continue
            if ai >= len(args):
                raise TypeError("not enough arguments for format string")
            a = args[ai]
            ai += 1
            flags = m.group('flags') or ''
            width = int(m.group('width') or 0)
            if isinstance(a, (Sym, FmtStr)):
                if conv in 'di' or (conv in 'sr' and isinstance(a, (SInt,))):
                    if isinstance(a, S.SBool):
                        if conv in 'sr':
                            raise Unsupported("%s of symbolic bool")
                        a = SInt(S._num_term(a)[0])
                    if not isinstance(a, SInt):
                        if isinstance(a, (SStr, FmtStr)) and conv in 'di':
                            raise TypeError("%%%s format: a real number is required, not str" % conv)
                        raise Unsupported("%%%s of %r" % (conv, a))
                    if set(flags) - set('0'):
                        raise Unsupported("format flags %r" % flags)
                    if conv in 'sr' and (width or flags):
                        raise Unsupported("padded %s of symbolic int")
                    toks.append(Dec(a.t, width, '0' in flags))
                elif conv in 'sr' and isinstance(a, (SStr, FmtStr)):
                    if width or flags:
                        raise Unsupported("padded %s of symbolic text")
                    if conv == 'r':
                        toks.append(Lit("'"))
                    toks.extend(FmtStr.lift(a).tokens)
                    if conv == 'r':
                        toks.append(Lit("'"))
                else:
                    raise Unsupported("%%%s of %r" % (conv, a))
            else:
                toks.append(Lit(('%' + flags + (str(width) if width else '') +
                                 ('.' + m.group('prec') if m.group('prec') else '') + conv) % (a,)))
        toks.append(Lit(text[pos:]))
        if ai != len(args):
            raise TypeError("not all arguments converted during string formatting")
        return FmtStr(toks, pytype)

    def concat(self, other):
        o = FmtStr.lift(other)
        if o.pytype is not self.pytype:
            raise TypeError("can't concat %s to %s" % (o.pytype.__name__, self.pytype.__name__))
        return FmtStr(self.tokens + o.tokens, self.pytype)


def fmt_to_sstr(f):
    """A token string made of literals and embedded symbolic strings as one z3 string term."""
    parts = []
    for t in f.tokens:
        if isinstance(t, Lit):
            parts.append(z3.StringVal(t.text))
        elif isinstance(t, Emb):
            parts.append(t.s.t)
        elif isinstance(t, Dec) and t.minwidth == 0:
            parts.append(z3.If(t.term >= 0, z3.IntToStr(t.term), z3.Concat(z3.StringVal('-'), z3.IntToStr(-t.term))))
        else:
            raise Unsupported("token %r as a z3 string" % (t,))
    if not parts:
        term = z3.StringVal('')
    elif len(parts) == 1:
        term = parts[0]
    else:
        term = z3.Concat(*parts)
    return (SBytes if f.pytype is bytes else SStr)(term)


def fmt_binop(interp, op, a, b):
    import ast
    if isinstance(op, ast.Add):
        try:
            return FmtStr.lift(a).concat(b)
        except Unsupported:
            raise
    if isinstance(op, ast.Mod) and isinstance(a, (str, bytes)):
        return interp.percent_format(a, b)
    raise Unsupported("operator %s on token strings" % type(op).__name__)


def _plain(v):
    """The concrete text of a value if it has one (str/bytes, or a token string of literals only)."""
    if isinstance(v, (str, bytes)):
        return v
    if isinstance(v, FmtStr):
        if all(isinstance(t, Lit) for t in v.tokens):
            text = ''.join(t.text for t in v.tokens)
            return text if v.pytype is str else text.encode('latin-1')
    return None


def fmt_compare(interp, t, a, b):
    import ast
    if t in (ast.Eq, ast.NotEq):
        pa, pb = _plain(a), _plain(b)
        if pa is not None and pb is not None:
            r = (pa == pb)
            return r if t is ast.Eq else not r
        # a token string with a number in it against a text without digits (or of another kind) cannot be equal
        other = pb if pa is None else pa
        sym = a if pa is None else b
        if other is not None and isinstance(sym, FmtStr):
            if type(other) is not sym.pytype:
                return t is ast.NotEq
            lits = ''.join(x.text for x in sym.tokens if isinstance(x, Lit))
            otext = other if isinstance(other, str) else other.decode('latin-1')
            if any(isinstance(x, Dec) for x in sym.tokens) and not any(ch.isdigit() for ch in otext):
                return t is ast.NotEq
            if any(ch not in otext for ch in lits):
                return t is ast.NotEq
        if not isinstance(a, (str, bytes, FmtStr)) or not isinstance(b, (str, bytes, FmtStr)):
            return t is ast.NotEq
        # literal* Dec literal* against a concrete text: equal iff the affixes match and the integer is the one spelled
        if other is not None and isinstance(sym, FmtStr):
            decs = [i for i, x in enumerate(sym.tokens) if not isinstance(x, Lit)]
            if len(decs) == 1 and isinstance(sym.tokens[decs[0]], Dec) and sym.tokens[decs[0]].minwidth == 0:
                i = decs[0]
                pre = ''.join(x.text for x in sym.tokens[:i])
                suf = ''.join(x.text for x in sym.tokens[i + 1:])
                r = False
                if otext.startswith(pre) and otext.endswith(suf) and len(otext) >= len(pre) + len(suf):
                    mid = otext[len(pre):len(otext) - len(suf)]
                    if re.fullmatch(r'-?(0|[1-9][0-9]*)', mid) and mid != '-0':
                        r = SBool(sym.tokens[i].term == int(mid))
                if t is ast.NotEq:
                    r = (not r) if isinstance(r, bool) else SBool(z3.Not(r.t))
                return r
        # fall back to the z3 string encoding of both sides
        try:
            za = fmt_to_sstr(a) if isinstance(a, FmtStr) else a
            zb = fmt_to_sstr(b) if isinstance(b, FmtStr) else b
        except Unsupported:
            raise Unsupported("comparison of token strings")
        if isinstance(za, (SStr, SBytes)) or isinstance(zb, (SStr, SBytes)):
            x, y = (za, zb) if isinstance(za, (SStr, SBytes)) else (zb, za)
            r = x.__eq__(y)
            if r is NotImplemented:
                r = False
            if t is ast.NotEq:
                r = (not r) if isinstance(r, bool) else SBool(z3.Not(r.t))
            return r
    raise Unsupported("comparison of token strings")


class SymSeq(object):
    """A sequence of symbolic length.  elem(i) gives the i-th element (a Sym or a real object)."""
    pytype = list

    def __init__(self, length, elem, pytype=list):
        self.length = length
        self.elem = elem
        self.pytype = pytype

    def __bool__(self):
        raise S.SymbolicLeak("truth of SymSeq taken natively")


# ---------------------------------------------------------------------------------------------
# attribute / item access on symbolic values

def _str_startswith(interp, s, prefix, *rest):
    if rest:
        raise Unsupported("startswith with offsets")
    if isinstance(prefix, tuple):
        return SBool(z3.Or(*[S.as_z3_bool(_str_startswith(interp, s, p)) for p in prefix]))
    lit = s._lit(prefix)
    if lit is None:
        raise TypeError("startswith first arg must be %s" % s.pytype.__name__)
    return SBool(z3.PrefixOf(lit, s.t))


def _str_endswith(interp, s, suffix, *rest):
    if rest:
        raise Unsupported("endswith with offsets")
    if isinstance(suffix, tuple):
        return SBool(z3.Or(*[S.as_z3_bool(_str_endswith(interp, s, p)) for p in suffix]))
    lit = s._lit(suffix)
    if lit is None:
        raise TypeError("endswith first arg must be %s" % s.pytype.__name__)
    return SBool(z3.SuffixOf(lit, s.t))


def _str_encode(interp, s, *a, **k):
    if isinstance(s, SBytes):
        raise AttributeError("'bytes' object has no attribute 'encode'")
    raise Unsupported("encode of symbolic text")


def _str_fresh(kind):
    def f(interp, s, *a, **k):
        """lower()/upper()/strip(): some string of the same kind (over-approximation, noted)."""
        interp.ctx.note_overapprox("str.%s result unconstrained" % kind)
        return (interp.ctx.bytes if isinstance(s, SBytes) else interp.ctx.str)('%s_of_text' % kind, declare=False)
    return f


def _str_decode(interp, s, *a, **k):
    if not isinstance(s, SBytes):
        raise AttributeError("'str' object has no attribute 'decode'")
    if interp.ctx.choose(2, 'decode_succeeds'):
        return interp.ctx.str('decoded_text', declare=False)
    raise UnicodeDecodeError('utf-8', b'\xff', 0, 1, 'invalid start byte')


def _str_encode2(interp, s, *a, **k):
    if isinstance(s, SBytes):
        raise AttributeError("'bytes' object has no attribute 'encode'")
    enc = (a[0] if a else k.get('encoding', 'utf-8'))
    if str(enc).lower().replace('-', '') in ('utf8', 'utf16', 'utf32'):
        # utf-8 encodes every str except lone surrogates; treated as total (noted)
        interp.ctx.note_overapprox("str.encode('utf8') treated as total (lone surrogates ignored)")
        return interp.ctx.bytes('encoded_text', declare=False)
    if interp.ctx.choose(2, 'encode_succeeds'):
        return interp.ctx.bytes('encoded_text', declare=False)
    raise UnicodeEncodeError(str(enc), u'\xff', 0, 1, 'ordinal not in range')


def _str_split(interp, s, sep=None, maxsplit=-1):
    """s.split(sep, 1) with a literal separator: exact -- either sep does not occur and the result is [s], or
    s == head + sep + tail with sep not occurring in head (first occurrence) and the result is [head, tail]."""
    if maxsplit != 1 or not isinstance(sep, (str, bytes)) or sep in ('', b''):
        raise Unsupported("split of symbolic text other than split(<literal>, 1)")
    lit = s._lit(sep)
    if lit is None:
        raise TypeError("must be str or None, not bytes")
    mk = interp.ctx.bytes if isinstance(s, SBytes) else interp.ctx.str
    if interp.ctx.branch(z3.Contains(s.t, lit)):
        head, tail = mk('split_head', declare=False), mk('split_tail', declare=False)
        interp.ctx.assume(s.t == z3.Concat(head.t, lit, tail.t))
        interp.ctx.assume(z3.Not(z3.Contains(head.t, lit)))
        return [head, tail]
    return [s]


_STR_METHODS = {
    'split': _str_split,
    'startswith': _str_startswith,
    'endswith': _str_endswith,
    'encode': _str_encode2,
    'decode': _str_decode,
    'lower': _str_fresh('lower'),
    'upper': _str_fresh('upper'),
    'strip': _str_fresh('strip'),
}


def _unsupported(msg):
    raise Unsupported(msg)


def sym_getattr(interp, obj, name):
    from .interp import BoundModel
    if isinstance(obj, SStr):
        f = _STR_METHODS.get(name)
        if f is not None:
            return BoundModel(interp, f, obj, name)
        if hasattr(obj.pytype, name):
            raise Unsupported("method %s of symbolic %s" % (name, obj.pytype.__name__))
        raise AttributeError("%r object has no attribute %r" % (obj.pytype.__name__, name))
    if isinstance(obj, FmtStr):
        if name in ('startswith', 'endswith'):
            def sw(i, o, prefix, *rest):
                if rest or not isinstance(prefix, (str, bytes)):
                    raise Unsupported("%s on a token string with offsets / non-literal argument" % name)
                p = prefix if isinstance(prefix, str) else prefix.decode('latin-1')
                toks = o.tokens if name == 'startswith' else o.tokens[::-1]
                if not p:
                    return True
                if toks and isinstance(toks[0], Lit):
                    t = toks[0].text
                    if name == 'startswith':
                        if len(t) >= len(p):
                            return t.startswith(p)
                        if not p.startswith(t):
                            return False
                    else:
                        if len(t) >= len(p):
                            return t.endswith(p)
                        if not p.endswith(t):
                            return False
                    raise Unsupported("%s spanning several tokens" % name)
                if toks and isinstance(toks[0], Dec):
                    first = p[0] if name == 'startswith' else p[-1]
                    if not first.isdigit() and first != '-':
                        return False
                    if first == '-' and name == 'startswith':
                        if toks[0].zero or i.ctx.branch(toks[0].term >= 0):
                            return False
                        return len(p) == 1 or _unsupported("startswith beyond the sign of a number token")
                    raise Unsupported("%s against a number token" % name)
                if not toks:
                    return False
                raise Unsupported("%s on token %r" % (name, toks[0]))
            return BoundModel(interp, sw, obj, name)
        if name == 'encode' and obj.pytype is str:
            return BoundModel(interp, lambda i, o, *a, **k: FmtStr(o.tokens, bytes), obj, name)
        if name == 'decode' and obj.pytype is bytes:
            return BoundModel(interp, lambda i, o, *a, **k: FmtStr(o.tokens, str), obj, name)
        if hasattr(obj.pytype, name):
            raise Unsupported("method %s of a token string" % name)
        raise AttributeError("%r object has no attribute %r" % (obj.pytype.__name__, name))
    if isinstance(obj, Sym):
        pt = obj.pytype
        if name == '__class__':
            return pt
        if isinstance(obj, (S.SInt, S.SBool)) and name in ('real', 'numerator'):
            return obj
        if isinstance(obj, S.SInt) and name == 'bit_length':
            def bit_length(i, o):
                # number of bits of |v|: a fresh Int pinned exactly for |v| < 2**200
                ctx = i.ctx
                b = ctx.int('nbits', declare=False).t
                a = z3.If(o.t >= 0, o.t, -o.t)
                cs = [b >= 0]
                for k in range(0, 201):
                    cs.append((a < 2 ** k) == (b <= k))
                ctx.assume(z3.And(*cs))
                return SInt(b)
            return BoundModel(interp, bit_length, obj, name)
        if hasattr(pt, name):
            raise Unsupported("attribute %s of symbolic %s" % (name, pt.__name__))
        raise AttributeError("%r object has no attribute %r" % (pt.__name__, name))
    raise Unsupported("attribute %s of %r" % (name, obj))


def sym_getitem(interp, obj, idx):
    if isinstance(obj, SStr) and isinstance(idx, slice) and idx.step in (None, 1) and \
            all(v is None or (isinstance(v, int) and v >= 0) for v in (idx.start, idx.stop)):
        a = idx.start or 0
        if idx.stop is None:
            return type(obj)(z3.SubString(obj.t, a, z3.Length(obj.t)))
        return type(obj)(z3.SubString(obj.t, a, max(0, idx.stop - a)))
    if isinstance(obj, SymSeq):
        if isinstance(idx, (int, SInt)):
            i = idx if isinstance(idx, SInt) else SInt(z3.IntVal(idx))
            n = obj.length
            ok = interp.ctx.branch(z3.And(i.t >= -n.t, i.t < n.t))
            if not ok:
                raise IndexError("list index out of range")
            j = SInt(z3.If(i.t < 0, i.t + n.t, i.t))
            return obj.elem(j)
        raise Unsupported("slice of symbolic sequence")
    if isinstance(obj, dict) and isinstance(idx, (Sym, FmtStr)):
        from .models import m_dict_getitem
        return m_dict_getitem(interp, obj, idx)
    raise Unsupported("subscript %r[%r]" % (obj, idx))


def text_eq(a, b):
    """a == b for any mix of str/bytes, SStr and token strings: bool or SBool (for contracts)."""
    if isinstance(a, FmtStr):
        a = fmt_to_sstr(a)
    if isinstance(b, FmtStr):
        b = fmt_to_sstr(b)
    if isinstance(a, (SStr, SBytes)):
        r = a.__eq__(b)
    elif isinstance(b, (SStr, SBytes)):
        r = b.__eq__(a)
    else:
        return a == b
    return False if r is NotImplemented else r
