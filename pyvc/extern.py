"""Assumed raise-sets of stdlib calls on arbitrary (symbolic) text: may-raise models (DESIGN 2.8, C10).

Each model forks: the call succeeds with an unconstrained result of the right kind, or raises one of the
exceptions the documentation lists for malformed input.  Used by the C10 leaf obligations: a decoder is
safe iff every such raising fork is converted into a Client fault by the code around the call.
"""
import base64
import binascii
import decimal
import uuid
import time as _time

import z3

from . import sym as S
from .sym import Sym, SInt, SStr, SBytes, SReal, SOpaque, Unsupported
from .text import FmtStr


def _symtext(v):
    return isinstance(v, (SStr, FmtStr))


def install_may_raise(c):
    ctx = c.core
    interp = c.interp

    def m_decimal(i, args, kwargs):
        v = args[0] if args else '0'
        if isinstance(v, SStr):
            if ctx.choose(2, 'Decimal(text)_succeeds'):
                return ctx.real('decimal_of_text', declare=False)
            raise decimal.InvalidOperation([decimal.ConversionSyntax])
        from .models import m_Decimal
        if isinstance(v, (Sym, FmtStr)):
            return m_Decimal(i, *args, **kwargs)
        return decimal.Decimal(*args, **kwargs)
    interp.models[decimal.Decimal] = m_decimal

    def m_uuid(i, args, kwargs):
        vals = list(args) + list(kwargs.values())
        if any(isinstance(v, (Sym, FmtStr)) for v in vals):
            if ctx.choose(2, 'UUID(text)_succeeds'):
                return uuid.UUID(int=0)
            raise ValueError("badly formed hexadecimal UUID string")
        return uuid.UUID(*args, **kwargs)
    interp.models[uuid.UUID] = m_uuid

    def mk_decoder(real, name):
        def m(i, args, kwargs):
            v = args[0]
            if isinstance(v, (Sym, FmtStr)):
                k = ctx.choose(['ok', 'binascii.Error'], name + '_outcome')
                if k == 'ok':
                    return ctx.bytes('decoded_bytes', declare=False)
                raise binascii.Error("Incorrect padding")
            return real(*args, **kwargs)
        return m
    for real, name in ((base64.b64decode, 'b64decode'), (base64.urlsafe_b64decode, 'urlsafe_b64decode'),
                       (binascii.unhexlify, 'unhexlify')):
        interp.models[real] = mk_decoder(real, name)

    def m_strptime(i, args, kwargs):
        s = args[0]
        if isinstance(s, SStr):
            if ctx.choose(2, 'strptime_succeeds'):
                y, m, d = ctx.int('sp_year', declare=False), ctx.int('sp_month', declare=False), ctx.int('sp_day', declare=False)
                from .timemodel import date_ok
                ctx.assume(S.SBool(date_ok(y.t, m.t, d.t)))
                return (y, m, d, 0, 0, 0, 0, 1, -1)
            raise ValueError("time data does not match format")
        from .timemodel import m_strptime as real_model
        if isinstance(s, FmtStr):
            return real_model(i, *args, **kwargs)
        return _time.strptime(*args, **kwargs)
    interp.models[_time.strptime] = m_strptime
    interp.symmatch_cut = True
