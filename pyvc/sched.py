"""Native two-thread scheduler for replaying an interleaving on the real code (CPython, sys.settrace).

run_interleaved(a, b, filename, after_line, nth=1): thread A runs a(); the n-th time A is about to execute a
line of `filename` greater than `after_line` in a frame that has already executed a line <= after_line of the
same function (i.e. right after the statement ending at after_line), A is suspended, b() runs to completion in
the calling thread, A resumes.  Returns (result_a, result_b, interleaved?)."""
import sys
import threading


def run_interleaved(a, b, filename, first_line, last_line, nth=1, timeout=60):
    paused = threading.Event()
    resume = threading.Event()
    state = dict(count=0, done=False, res=None, exc=None, armed={}, fired=False)

    def local(frame, event, arg):
        if event == 'line' and not state['fired']:
            ln = frame.f_lineno
            key = id(frame)
            if first_line <= ln <= last_line:
                state['armed'][key] = True
            elif state['armed'].get(key) and (ln > last_line or ln < first_line):
                state['armed'][key] = False
                state['count'] += 1
                if state['count'] == nth:
                    state['fired'] = True
                    paused.set()
                    resume.wait(timeout)
        return local

    def tracer(frame, event, arg):
        if event == 'call' and frame.f_code.co_filename == filename and \
                frame.f_code.co_firstlineno <= first_line:
            return local
        return None

    def run_a():
        sys.settrace(tracer)
        try:
            state['res'] = a()
        except BaseException as e:            # noqa
            state['exc'] = e
        finally:
            sys.settrace(None)
            state['done'] = True
            paused.set()

    t = threading.Thread(target=run_a)
    t.start()
    paused.wait(timeout)
    interleaved = state['fired'] and not state['done']
    try:
        rb = b()
    finally:
        resume.set()
        t.join(timeout)
    if state['exc'] is not None:
        raise state['exc']
    return state['res'], rb, interleaved
