"""Native two-thread scheduler for replaying an interleaving on the real code (CPython, sys.settrace).

run_interleaved(a, b, filename, after_line, nth=1): thread A runs a(); the n-th time A is about to execute a
line of `filename` greater than `after_line` in a frame that has already executed a line <= after_line of the
same function (i.e. right after the statement ending at after_line), A is suspended, b() runs to completion in
the calling thread, A resumes.  Returns (result_a, result_b, interleaved?)."""
import sys
import threading


def run_interleaved(a, b, filename, first_line, last_line, nth=1, timeout=60):
    paused = threading.Event()
    resume = threading.Event()
    state = dict(count=0, done=False, res=None, exc=None, armed={}, fired=False)

    def local(frame, event, arg):
        if event == 'line' and not state['fired']:
            ln = frame.f_lineno
            key = id(frame)
            if first_line <= ln <= last_line:
                state['armed'][key] = True
            elif state['armed'].get(key) and (ln > last_line or ln < first_line):
                state['armed'][key] = False
                state['count'] += 1
                if state['count'] == nth:
                    state['fired'] = True
                    paused.set()
                    resume.wait(timeout)
        return local

    def tracer(frame, event, arg):
        if event == 'call' and frame.f_code.co_filename == filename and \
                frame.f_code.co_firstlineno <= first_line:
            return local
        return None

    def run_a():
        sys.settrace(tracer)
        try:
            state['res'] = a()
        except BaseException as e:            # noqa
            state['exc'] = e
        finally:
            sys.settrace(None)
            state['done'] = True
            paused.set()

    t = threading.Thread(target=run_a)
    t.start()
    paused.wait(timeout)
    interleaved = state['fired'] and not state['done']
    try:
        rb = b()
    finally:
        resume.set()
        t.join(timeout)
    if state['exc'] is not None:
        raise state['exc']
    return state['res'], rb, interleaved


def count_events(a, functions):
    """Number of line events thread A produces inside the named functions ((filename suffix, function name) pairs)."""
    n = [0]

    def local(frame, event, arg):
        if event == 'line':
            n[0] += 1
        return local

    def tracer(frame, event, arg):
        if event == 'call' and _wanted(frame, functions):
            return local
        return None
    t = threading.Thread(target=_traced, args=(a, tracer, {}))
    t.start()
    t.join(60)
    return n[0]


def _wanted(frame, functions):
    co = frame.f_code
    for suffix, name in functions:
        if co.co_name == name and co.co_filename.endswith(suffix):
            return True
    return False


def _traced(fn, tracer, box):
    sys.settrace(tracer)
    try:
        box['res'] = fn()
    except BaseException as e:      # noqa
        box['exc'] = e
    finally:
        sys.settrace(None)
        box['done'] = True


def run_with_switch(a, b, functions, k, timeout=60, b_timeout=3):
    """Thread A runs a(); right before its k-th line event inside `functions` it is suspended, b() runs to completion
    in the calling thread, A resumes.  Returns (result_a, result_b, where) -- where is 'file:line' of the suspended
    line, or None if A finished before reaching the k-th event (b then ran after A)."""
    paused, resume = threading.Event(), threading.Event()
    st = dict(n=0, where=None)
    box = {}

    def local(frame, event, arg):
        if event == 'line' and st['where'] is None:
            st['n'] += 1
            if st['n'] == k:
                st['where'] = '%s:%d' % (frame.f_code.co_filename, frame.f_lineno)
                paused.set()
                resume.wait(timeout)
        return local

    def tracer(frame, event, arg):
        if event == 'call' and _wanted(frame, functions):
            return local
        return None

    def run_a():
        try:
            _traced(a, tracer, box)
        finally:
            paused.set()
    t = threading.Thread(target=run_a)
    t.start()
    paused.wait(timeout)
    bbox = {}

    def run_b():
        try:
            bbox['res'] = b()
        except BaseException as e:      # noqa
            bbox['exc'] = e
    tb = threading.Thread(target=run_b)
    tb.start()
    tb.join(b_timeout)          # B blocked on a lock A holds: a legal schedule in which B simply waits for A
    resume.set()
    t.join(timeout)
    tb.join(timeout)
    if 'exc' in box:
        raise box['exc']
    if 'exc' in bbox:
        raise bbox['exc']
    return box.get('res'), bbox.get('res'), st['where']
