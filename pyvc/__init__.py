"""pyvc: verification-condition generation over the AST of live Python functions, discharged by z3/cvc5."""
