"""Symbolic values of the pyvc verifier.

A value on a symbolic path is either a real Python object (everything that is known stays
concrete) or one of the wrappers below around a z3 term.  The wrappers overload the arithmetic,
comparison and Boolean-connective operators so that one contract expression can be evaluated
symbolically (building a z3 term) and concretely (on Python values during replay).  They never
convert to a Python truth value on their own: ``bool(sym)`` raises SymbolicLeak, so native code that
is handed a symbolic value by mistake cannot silently take a branch.
"""
import decimal
import fractions
import z3


class EngineSignal(BaseException):
    """Base of every exception the engine uses for itself; interpreted ``except`` never catches it."""


class SymbolicLeak(EngineSignal):
    pass


class Unsupported(EngineSignal):
    """A construct outside the supported subset was met: the path is *undecided*."""


class PathAbort(EngineSignal):
    """The current path ends here (infeasible, or cut by a loop rule)."""


class Sym(object):
    pytype = object
    __slots__ = ('t',)

    def __init__(self, t):
        self.t = t

    def __bool__(self):
        raise SymbolicLeak("truth value of symbolic %r taken by native code" % (self,))

    def __repr__(self):
        return "<%s %s>" % (type(self).__name__, self.t)

    def __hash__(self):
        return id(self)

    def __index__(self):
        raise SymbolicLeak("__index__ of %r" % (self,))

    def __len__(self):
        raise SymbolicLeak("len() of %r by native code" % (self,))

    def __iter__(self):
        raise SymbolicLeak("iter() of %r by native code" % (self,))


def is_sym(v):
    return isinstance(v, Sym)


def _num_term(v):
    """(z3 term, is_int) for a numeric value, or None."""
    if isinstance(v, SBool):
        return z3.If(v.t, z3.IntVal(1), z3.IntVal(0)), True
    if isinstance(v, SInt):
        return v.t, True
    if isinstance(v, SReal):
        return v.t, False
    if isinstance(v, bool):
        return z3.IntVal(int(v)), True
    if isinstance(v, int):
        return z3.IntVal(v), True
    if isinstance(v, decimal.Decimal):
        if not v.is_finite():
            return None
        if v == v.to_integral_value():
            return z3.IntVal(int(v)), True
        fr = fractions.Fraction(v)
        return z3.RealVal("%d/%d" % (fr.numerator, fr.denominator)), False
    if isinstance(v, fractions.Fraction):
        return z3.RealVal("%d/%d" % (v.numerator, v.denominator)), False
    if isinstance(v, float):
        if v != v or v in (float('inf'), float('-inf')):
            return None
        if v == int(v):
            return z3.IntVal(int(v)), True
        fr = fractions.Fraction(v)
        return z3.RealVal("%d/%d" % (fr.numerator, fr.denominator)), False
    return None


def _is_inf(v):
    if isinstance(v, decimal.Decimal) and v.is_infinite():
        return 1 if v > 0 else -1
    if isinstance(v, float) and v in (float('inf'), float('-inf')):
        return 1 if v > 0 else -1
    return 0


def _coerce(a, b):
    ta, tb = _num_term(a), _num_term(b)
    if ta is None or tb is None:
        return None
    (xa, ia), (xb, ib) = ta, tb
    if ia and not ib:
        xa = z3.ToReal(xa)
    if ib and not ia:
        xb = z3.ToReal(xb)
    return xa, xb, (ia and ib)


def _wrap_num(t, is_int):
    return SInt(t) if is_int else SReal(t)


class _Num(Sym):
    __slots__ = ()

    def _arith(self, other, f, swap=False):
        a, b = (other, self) if swap else (self, other)
        c = _coerce(a, b)
        if c is None:
            return NotImplemented
        xa, xb, is_int = c
        return _wrap_num(f(xa, xb), is_int)

    def __add__(self, o): return self._arith(o, lambda a, b: a + b)
    def __radd__(self, o): return self._arith(o, lambda a, b: a + b, True)
    def __sub__(self, o): return self._arith(o, lambda a, b: a - b)
    def __rsub__(self, o): return self._arith(o, lambda a, b: a - b, True)
    def __mul__(self, o): return self._arith(o, lambda a, b: a * b)
    def __rmul__(self, o): return self._arith(o, lambda a, b: a * b, True)
    def __neg__(self):
        return _wrap_num(-_num_term(self)[0], _num_term(self)[1])
    def __pos__(self):
        return self

    def _cmp(self, other, f, inf_gt):
        """inf_gt: result when other is +inf (the mirrored value is used for -inf)."""
        s = _is_inf(other)
        if s:
            return inf_gt if s > 0 else (not inf_gt)
        c = _coerce(self, other)
        if c is None:
            return NotImplemented
        return SBool(f(c[0], c[1]))

    def __lt__(self, o): return self._cmp(o, lambda a, b: a < b, True)
    def __le__(self, o): return self._cmp(o, lambda a, b: a <= b, True)
    def __gt__(self, o): return self._cmp(o, lambda a, b: a > b, False)
    def __ge__(self, o): return self._cmp(o, lambda a, b: a >= b, False)

    def __eq__(self, o):
        if _is_inf(o):
            return False
        c = _coerce(self, o)
        if c is None:
            return False
        return SBool(c[0] == c[1])

    def __ne__(self, o):
        r = self.__eq__(o)
        if isinstance(r, bool):
            return not r
        return SBool(z3.Not(r.t))

    __hash__ = Sym.__hash__


class SInt(_Num):
    pytype = int
    __slots__ = ()

    def __floordiv__(self, o):
        c = _coerce(self, o)
        if c is None or not c[2]:
            return NotImplemented
        return SInt(pydiv(c[0], c[1]))

    def __rfloordiv__(self, o):
        c = _coerce(o, self)
        if c is None or not c[2]:
            return NotImplemented
        return SInt(pydiv(c[0], c[1]))

    def __mod__(self, o):
        c = _coerce(self, o)
        if c is None or not c[2]:
            return NotImplemented
        return SInt(pymod(c[0], c[1]))

    def __rmod__(self, o):
        c = _coerce(o, self)
        if c is None or not c[2]:
            return NotImplemented
        return SInt(pymod(c[0], c[1]))


CURRENT_CTX = [None]     # the Path of the running obligation (set by Interp); lets div/mod introduce definitions


def _divmod_const(a, k):
    """Floor quotient and remainder of term a by the positive constant k as fresh variables with the linear
    definition a == k*q + r, 0 <= r < k (far more stable for the solver than div/mod terms)."""
    ctx = CURRENT_CTX[0]
    cache = ctx.__dict__.setdefault('_divmod_cache', {})
    key = (a.get_id(), k)
    hit = cache.get(key)
    if hit is None:
        q = z3.Int(ctx._fresh_name('q'))
        r = z3.Int(ctx._fresh_name('r'))
        ctx.pc.append(z3.And(a == k * q + r, r >= 0, r < k))
        ctx.solver.add(ctx.pc[-1])
        hit = cache[key] = (q, r, a)      # keep `a` alive so that its id is not reused
    return hit[0], hit[1]


def _const_int(b):
    if isinstance(b, int) and not isinstance(b, bool):
        return b
    if z3.is_int_value(b):
        return b.as_long()
    return None


def pydiv(a, b):
    """Python floor division on z3 Ints (z3's ``/`` on Int is Euclidean: remainder always >= 0)."""
    k = _const_int(b)
    if k is not None and k > 0 and CURRENT_CTX[0] is not None and not z3.is_int_value(z3.simplify(a)):
        return _divmod_const(a, k)[0]
    return z3.If(b > 0, a / b, (-a) / (-b))


def pymod(a, b):
    k = _const_int(b)
    if k is not None and k > 0 and CURRENT_CTX[0] is not None and not z3.is_int_value(z3.simplify(a)):
        return _divmod_const(a, k)[1]
    return a - b * pydiv(a, b)


# Note on pydiv: z3 integer division rounds so that the remainder is non-negative
# (a = b*q + r, 0 <= r < |b|).  For b > 0 that is floor division.  For b < 0 Python's
# floor(a/b) == floor((-a)/(-b)) and -b > 0, so the same operator applies to the negated pair.


class SReal(_Num):
    pytype = decimal.Decimal
    __slots__ = ()


class SBool(Sym):
    pytype = bool
    __slots__ = ()

    def __and__(self, o):
        return SBool(z3.And(self.t, as_z3_bool(o)))
    __rand__ = __and__

    def __or__(self, o):
        return SBool(z3.Or(self.t, as_z3_bool(o)))
    __ror__ = __or__

    def __invert__(self):
        return SBool(z3.Not(self.t))

    def __eq__(self, o):
        if isinstance(o, (bool, SBool)):
            return SBool(self.t == as_z3_bool(o))
        c = _coerce(self, o)
        if c is None:
            return False
        return SBool(c[0] == c[1])

    def __ne__(self, o):
        r = self.__eq__(o)
        if isinstance(r, bool):
            return not r
        return SBool(z3.Not(r.t))

    __hash__ = Sym.__hash__


class SStr(Sym):
    """A str (or, as SBytes, a bytes) value as a z3 String term."""
    pytype = str
    __slots__ = ()

    def _lit(self, o):
        if isinstance(o, SStr):
            if type(o) is not type(self):
                return None
            return o.t
        if isinstance(o, self.pytype):
            return z3.StringVal(o if isinstance(o, str) else o.decode('latin-1'))
        return None

    def __eq__(self, o):
        t = self._lit(o)
        if t is None:
            return False
        return SBool(self.t == t)

    def __ne__(self, o):
        r = self.__eq__(o)
        if isinstance(r, bool):
            return not r
        return SBool(z3.Not(r.t))

    def __add__(self, o):
        t = self._lit(o)
        if t is None:
            return NotImplemented
        return type(self)(z3.Concat(self.t, t))

    def __radd__(self, o):
        t = self._lit(o)
        if t is None:
            return NotImplemented
        return type(self)(z3.Concat(t, self.t))

    __hash__ = Sym.__hash__

    def length(self):
        return SInt(z3.Length(self.t))


class SBytes(SStr):
    pytype = bytes
    __slots__ = ()


class SOpaque(Sym):
    """An uninterpreted value of a known Python type: only identity/equality are available."""
    __slots__ = ('pytype', 'name')
    _sort = None

    def __init__(self, name, pytype=object, t=None):
        if SOpaque._sort is None:
            SOpaque._sort = z3.DeclareSort('Opaque')
        Sym.__init__(self, t if t is not None else z3.Const(name, SOpaque._sort))
        self.pytype = pytype
        self.name = name

    def __eq__(self, o):
        if isinstance(o, SOpaque):
            if o is self:
                return True
            return SBool(self.t == o.t)
        return False

    def __ne__(self, o):
        r = self.__eq__(o)
        if isinstance(r, bool):
            return not r
        return SBool(z3.Not(r.t))

    __hash__ = Sym.__hash__


def as_z3_bool(v):
    if isinstance(v, SBool):
        return v.t
    if isinstance(v, bool):
        return z3.BoolVal(v)
    if z3.is_bool(v):
        return v
    if isinstance(v, Sym):
        raise Unsupported("truth term of non-boolean symbolic %r" % (v,))
    return z3.BoolVal(bool(v))


# ---------------------------------------------------------------------------------------------
# Polymorphic connectives for contracts: evaluate on Sym (z3 terms) and on plain Python values.

def And(*xs):
    if any(isinstance(x, Sym) or z3.is_expr(x) for x in xs):
        return SBool(z3.And(*[as_z3_bool(x) for x in xs]))
    return all(bool(x) for x in xs)


def Or(*xs):
    if any(isinstance(x, Sym) or z3.is_expr(x) for x in xs):
        return SBool(z3.Or(*[as_z3_bool(x) for x in xs]))
    return any(bool(x) for x in xs)


def Not(x):
    if isinstance(x, Sym) or z3.is_expr(x):
        return SBool(z3.Not(as_z3_bool(x)))
    return not x


def Implies(a, b):
    return Or(Not(a), b)


def Iff(a, b):
    if isinstance(a, Sym) or isinstance(b, Sym) or z3.is_expr(a) or z3.is_expr(b):
        return SBool(as_z3_bool(a) == as_z3_bool(b))
    return bool(a) == bool(b)


def If(c, a, b):
    if isinstance(c, Sym) or z3.is_expr(c):
        c = as_z3_bool(c)
        if isinstance(a, (SBool, bool)) and isinstance(b, (SBool, bool)):
            return SBool(z3.If(c, as_z3_bool(a), as_z3_bool(b)))
        co = _coerce(a, b)
        if co is None:
            raise Unsupported("If over %r / %r" % (a, b))
        return _wrap_num(z3.If(c, co[0], co[1]), co[2])
    return a if c else b


def Eq(a, b):
    r = (a == b)
    return r


def StartsWith(s, prefix):
    if isinstance(s, SStr):
        return SBool(z3.PrefixOf(s._lit(prefix), s.t))
    return s.startswith(prefix)


def Len(s):
    if isinstance(s, SStr):
        return SInt(z3.Length(s.t))
    return len(s)


def Contains(s, sub):
    if isinstance(s, SStr):
        return SBool(z3.Contains(s.t, s._lit(sub)))
    return sub in s
