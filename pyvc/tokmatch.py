"""Structural matching of a compiled regular expression against a token string (FmtStr).

Token strings are what the encoders produce (and what the lexical-space generators of the specs
produce): literals and decimal renderings of integer terms.  Patterns with fixed structure -- the
date/time/offset/duration patterns -- are matched token by token; the result is a match object whose
groups are token sub-strings.  A digit group consumes a whole Dec token: for a zero-padded token of
minimum width w the engine must know 0 <= value < 10**w (exactly w digits), which is checked with the
solver (a branch).  Patterns or token strings outside this fragment are Unsupported.

Assumed: leftmost-priority matching coincides with this deterministic walk for the supported
fragment (no alternation between overlapping digit runs).
"""
import re
import re._parser as sre_parse
import re._constants as sre_c

import z3

from . import sym as S
from .sym import SInt, Unsupported
from .text import FmtStr, Lit, Dec, Emb


class Cursor(object):
    """Position in a token list: (token index, char offset inside a Lit)."""

    def __init__(self, toks, i=0, off=0):
        self.toks, self.i, self.off = toks, i, off

    def copy(self):
        return Cursor(self.toks, self.i, self.off)

    def at_end(self):
        self._norm()
        return self.i >= len(self.toks)

    def _norm(self):
        while self.i < len(self.toks) and isinstance(self.toks[self.i], Lit) and self.off >= len(self.toks[self.i].text):
            self.i += 1
            self.off = 0

    def peek(self):
        self._norm()
        if self.i >= len(self.toks):
            return None
        t = self.toks[self.i]
        if isinstance(t, Lit):
            return t.text[self.off]
        return t

    def advance_char(self):
        self.off += 1
        self._norm()

    def advance_tok(self):
        self.i += 1
        self.off = 0

    def slice_from(self, start):
        """Tokens between cursor `start` and self."""
        out = []
        i, off = start.i, start.off
        while (i, off) < (self.i, self.off) and i < len(self.toks):
            t = self.toks[i]
            if isinstance(t, Lit):
                end = self.off if i == self.i else len(t.text)
                if end > off:
                    out.append(Lit(t.text[off:end]))
                i, off = i + 1, 0
            else:
                out.append(t)
                i, off = i + 1, 0
        return out


def _is_digit_class(op, av):
    if op is sre_c.IN:
        items = list(av)
        if len(items) == 1 and items[0][0] is sre_c.CATEGORY and items[0][1] is sre_c.CATEGORY_DIGIT:
            return True
        if len(items) == 1 and items[0][0] is sre_c.RANGE and items[0][1] == (ord('0'), ord('9')):
            return True
    return False


def _char_matches(op, av, ch):
    if op is sre_c.LITERAL:
        return ord(ch) == av
    if op is sre_c.NOT_LITERAL:
        return ord(ch) != av
    if op is sre_c.ANY:
        return ch != '\n'
    if op is sre_c.IN:
        neg = False
        hit = False
        for o, a in av:
            if o is sre_c.NEGATE:
                neg = True
            elif o is sre_c.LITERAL:
                hit = hit or ord(ch) == a
            elif o is sre_c.RANGE:
                hit = hit or a[0] <= ord(ch) <= a[1]
            elif o is sre_c.CATEGORY:
                if a is sre_c.CATEGORY_DIGIT:
                    hit = hit or ch.isdigit()
                elif a is sre_c.CATEGORY_SPACE:
                    hit = hit or ch.isspace()
                elif a is sre_c.CATEGORY_WORD:
                    hit = hit or ch.isalnum() or ch == '_'
                else:
                    raise Unsupported("regex category %r" % (a,))
            else:
                raise Unsupported("regex set item %r" % (o,))
        return hit != neg
    raise Unsupported("regex op %r on a literal character" % (op,))


class TokMatcher(object):
    def __init__(self, interp, pat):
        self.interp = interp
        self.pat = pat
        self.groups = {}
        self.index_to_name = {v: k for k, v in pat.groupindex.items()}

    def dec_width(self, tok):
        """Exact number of characters of a Dec token: int, or None when it is not fixed."""
        if tok.zero and tok.minwidth > 0:
            ok = self.interp.ctx.branch(z3.And(tok.term >= 0, tok.term < 10 ** tok.minwidth))
            if ok:
                return tok.minwidth
            raise Unsupported("zero-padded field may exceed its width (value out of range for %d digits)" % tok.minwidth)
        return None

    def dec_is_digits(self, tok):
        """A Dec token consists of digits only iff its value is non-negative."""
        return self.interp.ctx.branch(tok.term >= 0)

    def seq(self, items, cur):
        """Match a sequence of regex items from cursor; returns the new cursor or None."""
        items = list(items)
        for idx, (op, av) in enumerate(items):
            cur = self.item(op, av, cur, items[idx + 1:])
            if cur is None:
                return None
        return cur

    def item(self, op, av, cur, rest):
        if op is sre_c.AT:
            if av in (sre_c.AT_BEGINNING, sre_c.AT_BEGINNING_STRING):
                return cur if (cur.i == 0 and cur.off == 0) else None
            if av in (sre_c.AT_END, sre_c.AT_END_STRING):
                return cur if cur.at_end() else None
            raise Unsupported("regex anchor %r" % (av,))
        if op is sre_c.SUBPATTERN:
            group, add_flags, del_flags, p = av
            start = cur.copy()
            end = self.seq(p, cur.copy())
            if end is None:
                return None
            if group is not None:
                toks = end.slice_from(start)
                self.groups[group] = toks
            return end
        if op is sre_c.BRANCH:
            for alt in av[1]:
                saved = dict(self.groups)
                end = self.seq(alt, cur.copy())
                if end is not None:
                    return end
                self.groups = saved
            return None
        if op in (sre_c.MAX_REPEAT, sre_c.MIN_REPEAT):
            lo, hi, p = av
            p = list(p)
            if len(p) == 1 and _is_digit_class(*p[0]):
                return self.digits(lo, hi, cur)
            if lo == 0 and hi == 1:
                saved = dict(self.groups)
                end = self.seq(p, cur.copy())
                if end is not None:
                    return end
                self.groups = saved
                return cur
            if len(p) == 1 and p[0][0] in (sre_c.LITERAL, sre_c.IN, sre_c.ANY, sre_c.NOT_LITERAL):
                n = 0
                while hi is sre_c.MAXREPEAT or n < hi:
                    ch = cur.peek()
                    if not isinstance(ch, str) or not _char_matches(p[0][0], p[0][1], ch):
                        break
                    cur = cur.copy()
                    cur.advance_char()
                    n += 1
                return cur if n >= lo else None
            raise Unsupported("regex repeat of a compound item")
        # single character items
        ch = cur.peek()
        if ch is None:
            return None
        if isinstance(ch, str):
            if _char_matches(op, av, ch):
                cur = cur.copy()
                cur.advance_char()
                return cur
            return None
        if isinstance(ch, Dec):
            # a single-character item against a number token: only decidable for a digit class / '.'-like ANY
            w = self.dec_width(ch)
            if w == 1 and (_is_digit_class(op, av) or op is sre_c.ANY):
                cur = cur.copy()
                cur.advance_tok()
                return cur
            if op is sre_c.LITERAL and chr(av) in '-+' or (op is sre_c.IN and not _is_digit_class(op, av)):
                # a sign / separator where a number starts: matches only a negative plain rendering's '-'
                if self.dec_is_digits(ch):
                    return None
                if not ch.zero and ch.minwidth == 0 and _char_matches(op, av, '-'):
                    # split the token: '-' followed by the rendering of the magnitude
                    toks = list(cur.toks)
                    toks[cur.i:cur.i + 1] = [Lit('-'), Dec(-ch.term, 0, False)]
                    ncur = Cursor(toks, cur.i, 0)
                    ncur.advance_char()
                    return ncur
                raise Unsupported("separator against a negative padded number token")
            if self.dec_is_digits(ch):
                if op is sre_c.LITERAL and not chr(av).isdigit():
                    return None
            raise Unsupported("single-character regex item against a multi-digit token")
        raise Unsupported("regex item against token %r" % (ch,))

    def digits(self, lo, hi, cur):
        """\\d{lo,hi} / \\d+ at the cursor: consumes literal digits and whole Dec tokens."""
        n_fixed = 0
        unbounded = False
        cur = cur.copy()
        while True:
            ch = cur.peek()
            if isinstance(ch, str) and ch.isdigit():
                if hi is not sre_c.MAXREPEAT and n_fixed >= hi:
                    break
                cur.advance_char()
                n_fixed += 1
                continue
            if isinstance(ch, Dec):
                if not self.dec_is_digits(ch):
                    break
                w = self.dec_width(ch)
                if w is None:
                    if hi is not sre_c.MAXREPEAT:
                        raise Unsupported("bounded digit group against a number of unknown width")
                    unbounded = True
                    cur.advance_tok()
                    continue
                if hi is not sre_c.MAXREPEAT and n_fixed + w > hi:
                    raise Unsupported("digit group would split a number token")
                n_fixed += w
                cur.advance_tok()
                continue
            break
        if not unbounded and n_fixed < lo:
            return None
        if unbounded and hi is not sre_c.MAXREPEAT:
            raise Unsupported("bounded digit group against a number of unknown width")
        return cur


class TokMatch(object):
    pytype = re.Match
    _pyvc_model = True

    def __init__(self, pat, groups, end_cursor, subject):
        self.pat = pat
        self._groups = groups
        self.end_cursor = end_cursor
        self.subject = subject

    def __bool__(self):
        return True

    def _get(self, g, default=None):
        if isinstance(g, str):
            if g not in self.pat.groupindex:
                raise IndexError("no such group")
            g = self.pat.groupindex[g]
        if g == 0:
            raise Unsupported("group 0 of a token match")
        toks = self._groups.get(g)
        if toks is None:
            return default
        return FmtStr(toks, self.subject.pytype) if toks else ('' if self.subject.pytype is str else b'')

    def m_group(self, interp, *gs):
        if not gs:
            raise Unsupported("group 0 of a token match")
        vals = [self._get(g) for g in gs]
        return vals[0] if len(vals) == 1 else tuple(vals)

    def m_groupdict(self, interp, default=None):
        return {name: self._get(name, default) for name in self.pat.groupindex}

    def m_groups(self, interp, default=None):
        return tuple(self._get(i, default) for i in range(1, self.pat.groups + 1))

    def m_span(self, interp, g=0):
        raise Unsupported("span of a token match")


def m_match_tokens(interp, pat, subject, full=False):
    if pat.flags & (re.IGNORECASE | re.MULTILINE | re.VERBOSE | re.LOCALE | re.DOTALL):
        raise Unsupported("regex flags on a token string")
    is_bytes = isinstance(pat.pattern, bytes)
    if is_bytes != (subject.pytype is bytes):
        raise TypeError("cannot use a %s pattern on a %s-like object" % (
            'bytes' if is_bytes else 'string', subject.pytype.__name__))
    tree = sre_parse.parse(pat.pattern, pat.flags & ~re.UNICODE if is_bytes else pat.flags)
    m = TokMatcher(interp, pat)
    end = m.seq(list(tree), Cursor(list(subject.tokens)))
    if end is None:
        return None
    if full and not end.at_end():
        return None
    return TokMatch(pat, m.groups, end, subject)


def match_iso_date_exact(interp, s):
    """(y, m, d) if the token string is exactly YYYY-MM-DD (4+2+2 digits), else None."""
    pat = re.compile(r'(\d{4})-(\d{2})-(\d{2})')
    m = m_match_tokens(interp, pat, s, full=True)
    if m is None:
        return None
    out = []
    for g in (1, 2, 3):
        toks = m._groups[g]
        from .lex import tokens_to_int
        out.append(tokens_to_int(interp, toks))
    return tuple(out)
