"""Models of CPython builtins when an argument is symbolic (the "builtin table", DESIGN 2.8).

A model either returns a value (possibly symbolic), forks through interp.ctx.branch, or raises the
real Python exception the builtin would raise.  Anything not listed here is *unsupported* when
called with a symbolic argument: the path becomes undecided, never silently wrong.
"""
import builtins
import collections
import decimal
import logging

import z3

from . import sym as S
from .sym import Sym, SInt, SBool, SReal, SStr, SBytes, SOpaque, Unsupported
from .text import FmtStr, Lit, Dec, SymSeq

BUILTIN_MODELS = {}
METHOD_MODELS = {}


def model(fn, always=False):
    def deco(f):
        f.always = always
        BUILTIN_MODELS[fn] = f
        return f
    return deco


def _pytype(v):
    if isinstance(v, (Sym, FmtStr, SymSeq)) or (getattr(type(v), '_pyvc_model', False) is True):
        return v.pytype
    return type(v)


@model(builtins.isinstance, always=True)
def m_isinstance(interp, obj, cls):
    if isinstance(cls, Sym):
        raise Unsupported("isinstance against a symbolic class")
    if isinstance(cls, tuple):
        return any(m_isinstance(interp, obj, c) for c in cls)
    if isinstance(obj, (Sym, FmtStr, SymSeq)) or (getattr(type(obj), '_pyvc_model', False) is True):
        return issubclass(obj.pytype, cls)
    return isinstance(obj, cls)


@model(builtins.len)
def m_len(interp, v):
    if isinstance(v, SStr):
        return SInt(z3.Length(v.t))
    if isinstance(v, SymSeq):
        return v.length
    if isinstance(v, FmtStr):
        from .lex import fmt_len
        return fmt_len(interp, v)
    if isinstance(v, Sym):
        raise TypeError("object of type %r has no len()" % v.pytype.__name__)
    return len(v)


@model(builtins.bool)
def m_bool(interp, v=False):
    if isinstance(v, SBool):
        return v
    return interp.truthy(v)


@model(builtins.int)
def m_int(interp, v=0, base=None):
    if base is not None:
        raise Unsupported("int() with a base on symbolic input")
    if isinstance(v, SInt):
        return v
    if isinstance(v, SBool):
        return SInt(S._num_term(v)[0])
    if isinstance(v, SReal):
        fl = z3.ToInt(v.t)
        return SInt(z3.If(v.t >= 0, fl, -z3.ToInt(-v.t)))
    from .lex import lex_int, FracFloat
    from .timemodel import TotalSeconds
    if isinstance(v, (FracFloat, TotalSeconds)):
        return v.to_int(interp)
    return lex_int(interp, v)


@model(builtins.float)
def m_float(interp, v=0.0):
    from .lex import lex_float
    return lex_float(interp, v)


@model(builtins.round)
def m_round(interp, v, nd=None):
    from .lex import lex_round
    return lex_round(interp, v, nd)


@model(builtins.str)
def m_str(interp, v='', *a, **k):
    if a or k:
        raise Unsupported("str() with encoding on symbolic input")
    if isinstance(v, SStr) and not isinstance(v, SBytes):
        return v
    if isinstance(v, FmtStr) and v.pytype is str:
        return v
    if isinstance(v, SInt):
        return FmtStr([Dec(v.t, 0, False)], str)
    raise Unsupported("str() of %r" % (v,))


@model(builtins.repr)
def m_repr(interp, v):
    if isinstance(v, SInt):
        return FmtStr([Dec(v.t, 0, False)], str)
    raise Unsupported("repr() of %r" % (v,))


@model(builtins.abs)
def m_abs(interp, v):
    if isinstance(v, (SInt, SReal)):
        t, i = S._num_term(v)
        return S._wrap_num(z3.If(t >= 0, t, -t), i)
    raise Unsupported("abs() of %r" % (v,))


def _minmax(interp, args, want_min):
    if len(args) == 1:
        args = list(interp.iterate(args[0]))
    if not args:
        raise ValueError("min()/max() arg is an empty sequence")
    from .lex import minmax_special
    sp = minmax_special(interp, args, want_min)
    if sp is not None:
        return sp
    cur = args[0]
    for x in args[1:]:
        c = S._coerce(cur, x)
        if c is None:
            raise Unsupported("min/max over %r" % (args,))
        cond = (c[1] < c[0]) if want_min else (c[1] > c[0])
        cur = S._wrap_num(z3.If(cond, c[1], c[0]), c[2])
    return cur


@model(builtins.min)
def m_min(interp, *args, **kw):
    if kw:
        raise Unsupported("min with key/default on symbolic input")
    return _minmax(interp, args, True)


@model(builtins.max)
def m_max(interp, *args, **kw):
    if kw:
        raise Unsupported("max with key/default on symbolic input")
    return _minmax(interp, args, False)


@model(builtins.getattr)
def m_getattr(interp, obj, name, *default):
    if isinstance(name, SStr) and not isinstance(name, SBytes) and not isinstance(obj, Sym):
        # fork on equality with each attribute name the object has
        for n in sorted(set(dir(obj))):
            if interp.ctx.branch(name.t == z3.StringVal(n)):
                name = n
                break
        else:
            if default:
                return default[0]
            raise AttributeError("%r object has no attribute <symbolic>" % type(obj).__name__)
    if isinstance(name, Sym):
        raise Unsupported("getattr with a symbolic name")
    try:
        return interp.getattr(obj, name)
    except AttributeError:
        if default:
            return default[0]
        raise
m_getattr.always = True


@model(builtins.setattr)
def m_setattr(interp, obj, name, value):
    if isinstance(name, Sym):
        raise Unsupported("setattr with a symbolic name")
    interp.setattr(obj, name, value)
m_setattr.always = True


@model(builtins.hasattr)
def m_hasattr(interp, obj, name):
    try:
        m_getattr(interp, obj, name)
        return True
    except AttributeError:
        return False
m_hasattr.always = True


@model(builtins.id)
def m_id(interp, v):
    return id(v)


@model(builtins.callable)
def m_callable(interp, v):
    if isinstance(v, Sym):
        return False
    return callable(v)


@model(builtins.iter)
def m_iter(interp, v, *a):
    if a:
        return iter(v, *a)
    return interp.iterate(v)
m_iter.always = True


@model(builtins.next)
def m_next(interp, it, *default):
    return next(it, *default)


@model(builtins.tuple)
def m_tuple(interp, v=()):
    return tuple(interp.iterate(v))


@model(builtins.list)
def m_list(interp, v=()):
    return list(interp.iterate(v))


@model(builtins.dict)
def m_dict(interp, *a, **k):
    return dict(*a, **k)


@model(builtins.enumerate)
def m_enumerate(interp, v, start=0):
    return enumerate(interp.iterate(v), start)


@model(builtins.zip)
def m_zip(interp, *vs):
    return zip(*[interp.iterate(v) for v in vs])


@model(builtins.reversed)
def m_reversed(interp, v):
    return reversed(v)


@model(builtins.sum)
def m_sum(interp, xs, start=0):
    import ast
    acc = start
    for x in interp.iterate(xs):
        acc = interp.binop(ast.Add(), acc, x)
    return acc


@model(builtins.any)
def m_any(interp, xs):
    for x in interp.iterate(xs):
        if interp.truthy(x):
            return True
    return False


@model(builtins.all)
def m_all(interp, xs):
    for x in interp.iterate(xs):
        if not interp.truthy(x):
            return False
    return True


@model(builtins.issubclass)
def m_issubclass(interp, a, b):
    return issubclass(a, b)


@model(builtins.print)
def m_print(interp, *a, **k):
    return None


@model(builtins.hash)
def m_hash(interp, v):
    raise Unsupported("hash of a symbolic value")


@model(decimal.Decimal)
def m_Decimal(interp, v='0', ctx=None):
    if isinstance(v, (SInt, SReal)):
        return v   # exact: Decimal(int) denotes the same number
    from .lex import lex_decimal
    return lex_decimal(interp, v)


# -- methods of concrete containers that merely store / pass values through ----------------------

def _method(tp, name):
    def deco(f):
        METHOD_MODELS[(tp, name)] = f
        return f
    return deco


def _transparent(tp, name, key_first=False):
    meth = getattr(tp, name)

    def f(interp, self, *a, **k):
        if key_first and a and isinstance(a[0], (Sym, FmtStr)):
            raise Unsupported("%s.%s with a symbolic key" % (tp.__name__, name))
        return meth(self, *a, **k)
    METHOD_MODELS[(tp, name)] = f


for _n in ('append', 'extend', 'insert'):
    _transparent(list, _n)
for _n in ('append', 'appendleft', 'extend', 'extendleft'):
    _transparent(collections.deque, _n)
for _n in ('setdefault', 'pop', '__setitem__'):
    _transparent(dict, _n, key_first=True)
_transparent(dict, 'update')


def _key_eq(interp, a, b):
    """a == b for dict keys where at least one side is symbolic text: bool or SBool."""
    import ast as _ast
    if isinstance(a, (Sym, FmtStr)) or isinstance(b, (Sym, FmtStr)):
        ta = a.pytype if isinstance(a, (SStr, FmtStr)) else type(a)
        tb = b.pytype if isinstance(b, (SStr, FmtStr)) else type(b)
        if ta is not tb and not (ta in (int, bool) and tb in (int, bool)):
            return False
        return interp.compare(_ast.Eq(), a, b)
    return a == b


def sym_key_lookup(interp, d, key):
    """Lookup in a concrete dict where the key, or some stored key, is symbolic text: forks on equality with
    each stored key of the same kind.  Returns (found, value)."""
    if isinstance(key, (Sym, FmtStr)) and not isinstance(key, (SStr, FmtStr)):
        raise Unsupported("dict lookup with symbolic key %r" % (key,))
    if not isinstance(key, (Sym, FmtStr)):
        try:
            if dict.__contains__(d, key):
                return True, dict.__getitem__(d, key)
        except TypeError:
            raise
    for k in list(dict.keys(d)):
        if not isinstance(key, (Sym, FmtStr)) and not isinstance(k, (Sym, FmtStr)):
            continue
        r = _key_eq(interp, key, k)
        if r is False:
            continue
        if r is True or interp.ctx.branch(r.t):
            return True, dict.__getitem__(d, k)
    return False, None


def sym_key_store(interp, d, key, value):
    """d[key] = value with symbolic text as key: the existing entry whose key equals it is overwritten (fork per
    stored key); otherwise the symbolic key itself becomes a new entry (hashed by identity; every later lookup in
    this dict goes through sym_key_lookup)."""
    for k in list(dict.keys(d)):
        r = _key_eq(interp, key, k)
        if r is False:
            continue
        if r is True or interp.ctx.branch(r.t):
            dict.__setitem__(d, k, value)
            return
    dict.__setitem__(d, key, value)
    interp.symkey_dicts[id(d)] = d


@_method(dict, 'get')
def m_dict_get(interp, d, key, default=None):
    if isinstance(key, (Sym, FmtStr)) or id(d) in interp.symkey_dicts:
        found, v = sym_key_lookup(interp, d, key)
        return v if found else default
    return d.get(key, default)


@_method(dict, '__getitem__')
def m_dict_getitem(interp, d, key):
    if isinstance(key, (Sym, FmtStr)) or id(d) in interp.symkey_dicts:
        found, v = sym_key_lookup(interp, d, key)
        if not found:
            raise KeyError(key)
        return v
    return d[key]


@_method(dict, '__contains__')
def m_dict_contains(interp, d, key):
    if isinstance(key, (Sym, FmtStr)) or id(d) in interp.symkey_dicts:
        return sym_key_lookup(interp, d, key)[0]
    return key in d


@_method(str, 'join')
def m_str_join(interp, sep, items):
    if isinstance(items, (SStr, FmtStr)) and sep == '' and items.pytype is str:
        return items           # ''.join(s) of a string is the string itself
    items = list(interp.iterate(items))
    out = FmtStr([], str)
    for i, x in enumerate(items):
        if i:
            out = out.concat(sep)
        if isinstance(x, (bytes, SBytes)) or (isinstance(x, FmtStr) and x.pytype is bytes):
            raise TypeError("sequence item %d: expected str instance, bytes found" % i)
        if isinstance(x, (SInt, SBool, SReal)):
            raise TypeError("sequence item %d: expected str instance, int found" % i)
        out = out.concat(x)
    return out


@_method(str, 'format')
def m_str_format(interp, fmt, *args, **kwargs):
    """'{}.{}'.format(a, b) with symbolic text / integer arguments: only automatic '{}' fields (and '{{' / '}}') are
    modelled; anything else is outside the fragment."""
    if isinstance(fmt, (Sym, FmtStr)) or kwargs:
        raise Unsupported("str.format with a symbolic format string or keyword arguments")
    out = FmtStr([], str)
    i = 0
    n = 0
    while i < len(fmt):
        ch = fmt[i]
        if fmt.startswith('{{', i) or fmt.startswith('}}', i):
            out = out.concat(ch)
            i += 2
        elif fmt.startswith('{}', i):
            if n >= len(args):
                raise IndexError("Replacement index %d out of range for positional args tuple" % n)
            a = args[n]
            n += 1
            if isinstance(a, (SInt, SBool, SReal)):
                a = FmtStr.lift(a) if hasattr(FmtStr, 'lift') and False else interp.call(str, (a,), {})
            elif not isinstance(a, (str, SStr, FmtStr)):
                a = str(a)
            out = out.concat(a)
            i += 2
        elif ch in '{}':
            raise Unsupported("str.format field other than '{}'")
        else:
            out = out.concat(ch)
            i += 1
    return out


@_method(bytes, 'join')
def m_bytes_join(interp, sep, items):
    if isinstance(items, (SBytes, FmtStr)) and sep == b'' and items.pytype is bytes:
        return items
    if isinstance(items, SStr) and not isinstance(items, SBytes):
        if interp.ctx.branch(z3.Length(items.t) > 0):
            raise TypeError("sequence item 0: expected a bytes-like object, str found")
        return b''
    items = list(interp.iterate(items))
    out = FmtStr([], bytes)
    for i, x in enumerate(items):
        if i:
            out = out.concat(sep)
        if isinstance(x, str) or (isinstance(x, SStr) and not isinstance(x, SBytes)) or \
                (isinstance(x, FmtStr) and x.pytype is str):
            raise TypeError("sequence item %d: expected a bytes-like object, str found" % i)
        out = out.concat(x)
    return out


def _log_noop(interp, *a, **k):
    return None


for _n in ('debug', 'info', 'warning', 'error', 'exception', 'critical', 'log', 'warn'):
    BUILTIN_MODELS[getattr(logging.Logger, _n)] = _log_noop
    _log_noop.always = True


import re as _re
from . import regexmodel as _rm
METHOD_MODELS[(_re.Pattern, 'match')] = _rm.m_match
METHOD_MODELS[(_re.Pattern, 'fullmatch')] = _rm.m_fullmatch


from . import timemodel as _tm
_tm.install(BUILTIN_MODELS)
import math as _math


def _m_modf(interp, x):
    raise Unsupported("math.modf of a symbolic float")


BUILTIN_MODELS[_math.modf] = _m_modf


def _float_classifier(name, of_finite):
    """math.isnan / isinf / isfinite: the argument is first converted to a C double -- an integer of magnitude
    2**1024 or more raises OverflowError (CPython), every other integer is finite."""
    real = getattr(_math, name)

    def m(interp, v):
        if isinstance(v, SBool):
            return of_finite
        if isinstance(v, SInt):
            big = z3.Or(v.t >= z3.IntVal(2 ** 1024), v.t <= z3.IntVal(-(2 ** 1024)))
            if interp.ctx.branch(big):
                raise OverflowError("int too large to convert to float")
            return of_finite
        if isinstance(v, Sym):
            raise Unsupported("math.%s of %r" % (name, v))
        return real(v)
    BUILTIN_MODELS[real] = m


_float_classifier('isnan', False)
_float_classifier('isinf', False)
_float_classifier('isfinite', True)


import warnings as _warnings


def _warn_noop(interp, *a, **k):
    return None


_warn_noop.always = True
BUILTIN_MODELS[_warnings.warn] = _warn_noop


def _m_object_setattr(interp, obj, name, value):
    if interp.store_hook is not None:
        interp.store_hook('attr', obj, name, value)
    object.__setattr__(obj, name, value)


_m_object_setattr.always = False
BUILTIN_MODELS[object.__setattr__] = _m_object_setattr


# ---------------------------------------------------------------------------------------------
# lxml: an attribute set to symbolic text is kept as a ghost value of the element (lxml itself stores a marker)
SYM_ATTR_MARKER = u'⟪symbolic⟫'


def _install_lxml():
    try:
        from lxml import etree
    except ImportError:
        return

    @_method(etree._Element, 'set')
    def m_elt_set(interp, elt, key, value):
        if isinstance(key, (Sym, FmtStr)):
            raise Unsupported("attribute with a symbolic name")
        if isinstance(value, (Sym, FmtStr)):
            interp.ghost_attrs.setdefault(id(elt), (elt, {}))[1][key] = value
            return elt.set(key, SYM_ATTR_MARKER)
        g = interp.ghost_attrs.get(id(elt))
        if g is not None:
            g[1].pop(key, None)
        return elt.set(key, value)


_install_lxml()
