"""Obligations: declaration, symbolic run, discharge, replay of counter-models, cross-check."""
import gc
import hashlib
import importlib
import inspect
import json
import os
import pickle
import struct
import subprocess
import sys
import tempfile
import time
import traceback

import z3

from . import sym as S
from .sym import EngineSignal, PathAbort, Unsupported, SymbolicLeak, Sym
from .path import Path, ConcreteCtx, model_values
from .interp import Interp, LoopSpec, ControlSignal

REGISTRY = {}


class Obligation(object):
    def __init__(self, id, prop, fn, targets=(), assumptions=(), bounded=None, desc='',
                 kind='vc', max_paths=20000, finite=None, replay=True, thorough_only=False):
        self.id = id
        self.prop = prop
        self.fn = fn
        self.targets = list(targets)
        self.assumptions = list(assumptions)
        self.bounded = bounded          # None, or a string stating the bound
        self.desc = desc
        self.kind = kind                # 'vc' | 'structural' | 'finite'
        self.max_paths = max_paths
        self.finite = finite
        self.replay = replay            # False: inputs cannot be rebuilt natively (callee models observe the run)
        self.thorough_only = thorough_only


def obligation(id, prop=None, **kw):
    def deco(fn):
        p = prop or id.split('.')[0]
        assert id not in REGISTRY, "duplicate obligation id " + id
        REGISTRY[id] = Obligation(id, p, fn, **kw)
        return fn
    return deco


class Outcome(object):
    def __init__(self, kind, value=None, exc=None):
        self.kind = kind          # 'return' | 'raise'
        self.value = value
        self.exc = exc

    @property
    def returned(self):
        return self.kind == 'return'

    @property
    def raised(self):
        return self.kind == 'raise'

    def raised_a(self, cls):
        return self.kind == 'raise' and isinstance(self.exc, cls)

    def __repr__(self):
        if self.kind == 'return':
            return "Outcome(return %r)" % (self.value,)
        return "Outcome(raise %s: %s)" % (type(self.exc).__name__, self.exc)


class Ctx(object):
    """What an obligation body sees; the same body runs in symbolic mode and in replay mode."""

    thorough = False                # set per run: the thorough tier widens the bounded universes
    seed = 0                        # VERIF_SEED: generated universes of the thorough tier derive from it

    def __init__(self, core, interp):
        self.core = core
        self.interp = interp
        self.concrete = core.concrete

    def __getattr__(self, k):
        return getattr(self.core, k)

    # values
    def call(self, fn, *args, **kwargs):
        """Call the real function: interpreted symbolically, or natively in replay mode."""
        if self.concrete:
            return fn(*args, **kwargs)
        return self.interp.call(fn, args, kwargs)

    def run(self, fn, *args, **kwargs):
        """Like call, but returns an Outcome that also captures a raised exception."""
        try:
            v = self.call(fn, *args, **kwargs)
        except EngineSignal:
            raise
        except BaseException as e:
            import greenlet
            if isinstance(e, greenlet.GreenletExit):
                raise
            return Outcome('raise', exc=e)
        return Outcome('return', value=v)

    def model(self, fn, m):
        """Replace a callee by a model (symbolic mode only).  In replay mode the real callee runs."""
        if not self.concrete:
            import types
            if isinstance(fn, types.MethodType):
                fn = fn.__func__
            self.interp.models[fn] = m

    def loop(self, qualname, key, spec):
        if not self.concrete:
            self.interp.loop_specs[(qualname, key)] = spec

    def native(self, fn):
        if not self.concrete:
            self.interp.native.add(fn)

    def attr(self, elt, key):
        """The value of an lxml attribute: the ghost (symbolic) text if the code under contract set one."""
        if not self.concrete:
            g = self.interp.ghost_attrs.get(id(elt))
            if g is not None and key in g[1]:
                return g[1][key]
        return elt.get(key)


# ---------------------------------------------------------------------------------------------

def _cvc5_check(assertions, timeout_ms):
    """Second opinion for a query z3 left unknown.  Returns 'unsat' | 'sat' | 'unknown'."""
    s = z3.Solver()
    for a in assertions:
        s.add(a)
    smt = s.to_smt2()
    smt = "(set-logic ALL)\n" + smt
    d = tempfile.mkdtemp(prefix='pyvc-')
    try:
        p = os.path.join(d, 'q.smt2')
        with open(p, 'w') as f:
            f.write(smt)
        try:
            out = subprocess.run(['/usr/bin/cvc5', '--strings-exp', '--tlimit=%d' % timeout_ms, p],
                                 capture_output=True, text=True, timeout=timeout_ms / 1000.0 + 5)
        except (subprocess.TimeoutExpired, OSError):
            return 'unknown'
        first = (out.stdout.strip().splitlines() or ['unknown'])[0].strip()
        return first if first in ('sat', 'unsat') else 'unknown'
    finally:
        try:
            for fn in os.listdir(d):
                os.unlink(os.path.join(d, fn))
            os.rmdir(d)
        except OSError:
            pass


def _discharge(chk, stats, timeout_ms, excluded_regions):
    """Returns (status, info).  status in 'discharged','refuted','unknown'."""
    s = z3.Solver()
    s.set('timeout', timeout_ms)
    for c in chk.pc:
        s.add(c)
    for fid, reg in chk.regions:
        if fid in excluded_regions:
            s.add(z3.Not(reg))
    s.add(z3.Not(chk.cond))
    t0 = time.time()
    r = s.check()
    stats['queries'] += 1
    stats['solver_s'] += time.time() - t0
    if r == z3.unsat:
        stats['z3'] += 1
        return 'discharged', 'z3'
    if r == z3.sat:
        return 'refuted', s.model()
    t0 = time.time()
    r2 = _cvc5_check(s.assertions(), timeout_ms)
    stats['solver_s'] += time.time() - t0
    if r2 == 'unsat':
        stats['cvc5'] += 1
        return 'discharged', 'cvc5'
    return 'unknown', 'z3: unknown (%s); cvc5: %s' % (s.reason_unknown(), r2)


def _region_hit(chk, fid, reg, stats, timeout_ms):
    s = z3.Solver()
    s.set('timeout', timeout_ms)
    for c in chk.pc:
        s.add(c)
    s.add(reg)
    s.add(z3.Not(chk.cond))
    r = s.check()
    stats['queries'] += 1
    if r == z3.sat:
        return s.model()
    return None


def _needs_long_string(pc):
    """z3 builds witnesses for long strings in minutes and ignores its limits while doing so: paths whose condition
    compares a string length with a constant above 200 are not cross-checked."""
    stack = list(pc)
    n = 0
    while stack and n < 5000:
        x = stack.pop()
        n += 1
        if z3.is_app(x):
            ch = x.children()
            if len(ch) == 2 and x.decl().kind() in (z3.Z3_OP_LE, z3.Z3_OP_GE, z3.Z3_OP_LT, z3.Z3_OP_GT, z3.Z3_OP_EQ):
                for a, b in ((ch[0], ch[1]), (ch[1], ch[0])):
                    if z3.is_int_value(a) and a.as_long() > 200 and z3.is_app(b) and b.decl().kind() == z3.Z3_OP_SEQ_LENGTH:
                        return True
            stack.extend(ch)
    return False


def replay_concrete(ob, values, choices):
    """Run the obligation body natively on concrete inputs.  Returns (results, trace, error)."""
    core = ConcreteCtx(values, choices)
    c = Ctx(core, None)
    err = None
    try:
        ob.fn(c)
    except PathAbort as e:
        err = None
    except EngineSignal as e:
        err = "engine signal in replay: %r" % (e,)
    except BaseException as e:
        err = "exception escaped the obligation body in replay: %s" % (
            ''.join(traceback.format_exception_only(type(e), e)).strip())
    return core.results, core.trace, err, core.regions_hit


def _json_safe(v):
    if isinstance(v, (int, float, str, bool)) or v is None:
        return v
    if isinstance(v, bytes):
        return v.decode('latin-1')
    if isinstance(v, (list, tuple)):
        return [_json_safe(x) for x in v]
    if isinstance(v, dict):
        return {str(k): _json_safe(x) for k, x in v.items()}
    return repr(v)


def _explore_path(ob, prefix, timeout_ms, excluded, known_hit_ids, xcheck_budget, path_no, replay):
    """Explores one path (one decision prefix) of the obligation body symbolically, discharges its checks and replays
    counter-models through `replay`.  Returns a picklable delta that run_obligation merges."""
    new_work = []
    stats = dict(queries=0, solver_s=0.0, z3=0, cvc5=0, structural=0)
    d = dict(work=new_work, funcs={}, stats=stats, undecided=[], crashes=[], refuted=[], known_hits=[], notes=[], skip=False,
             cut=0, clauses={}, samples=[], crosschecked=0, xcheck_used=0)
    path = Path(prefix, new_work, stats, timeout_ms)
    interp = Interp(path)
    c = Ctx(path, interp)
    status = 'done'
    try:
        ob.fn(c)
    except PathAbort as e:
        status = 'cut'
        if str(e) == 'infeasible' or 'infeasible' in str(e):
            status = 'infeasible'
    except (Unsupported, SymbolicLeak) as e:
        status = 'undecided'
        d['undecided'].append("path %d: %s: %s" % (path_no, type(e).__name__, e))
    except ControlSignal as e:
        status = 'crash'
        d['crashes'].append("control signal escaped: %r" % (e,))
    except BaseException as e:
        import greenlet
        if isinstance(e, (KeyboardInterrupt,)):
            raise
        status = 'crash'
        d['crashes'].append("exception escaped the obligation body (symbolic mode): %s" %
                              ''.join(traceback.format_exception(type(e), e, e.__traceback__)[-6:]))
    finally:
        interp.cleanup()
    d['funcs'] = {k: v.as_dict() for k, v in interp.funcs_seen.items()}
    if status == 'infeasible' and not path.checks:
        d['skip'] = True
        return d
    if status == 'cut':
        d['cut'] = 1
    if path.unknown_branches:
        # sound: an unknown feasibility answer keeps the branch (more paths, never fewer)
        d['notes'].append("path %d: %d branch feasibility queries returned unknown (branch kept)" % (
            path_no + 1, path.unknown_branches))
    occ = {}
    path_ok = status in ('done', 'cut')
    for chk in path.checks:
        k = occ.get(chk.label, 0)
        occ[chk.label] = k + 1
        cl = d['clauses'].setdefault(chk.label, dict(paths=0, discharged=0, backend={}))
        cl['paths'] += 1
        st, info = _discharge(chk, stats, timeout_ms, excluded)
        # is an open known finding still reproducible on this path?
        for fid, reg in chk.regions:
            if fid in excluded:
                m = _region_hit(chk, fid, reg, stats, timeout_ms)
                if m is not None and fid not in known_hit_ids and fid not in [h['finding'] for h in d['known_hits']]:
                    vals = model_values(m, chk.vars)
                    r2, t2, err2, hit2 = replay(ob, vals, chk.choices)
                    confirmed = any(lab == chk.label and not ok for lab, ok, _ in r2)
                    d['known_hits'].append(dict(finding=fid, clause=chk.label, values=_json_safe(vals),
                                                  native_confirmed=confirmed, replay_error=err2))
        if st == 'discharged':
            cl['discharged'] += 1
            cl['backend'][info] = cl['backend'].get(info, 0) + 1
            if len(d['samples']) < 3:
                d['samples'].append(dict(obligation=ob.id, clause=chk.label,
                                           path_condition_conjuncts=len(chk.pc),
                                           vc="pc => " + _short(chk.cond), backend=info))
        elif st == 'refuted':
            path_ok = False
            # replay the counter-model on the real code; if it does not fail there, ask for other models
            # (callee models may be over-approximate: only a replayed failure counts as a violation)
            tried = []
            confirmed_entry = None
            last = None
            model = info
            blocker = []
            for attempt in range(6):
                vals = model_values(model, chk.vars)
                r2, t2, err2, hit2 = replay(ob, vals, chk.choices)
                labs = [(lab, ok, d) for lab, ok, d in r2 if lab == chk.label]
                native_fail = [x for x in labs if not x[1]]
                entry = dict(clause=chk.label, values=_json_safe(vals), choices=_json_safe(chk.choices),
                             model=str(model)[:2000], detail=_json_safe(native_fail[0][2] if native_fail else chk.detail),
                             native_results=_json_safe(r2[:20]), native_trace=_json_safe(t2[:40]),
                             replay_error=err2, trace=_json_safe(chk.trace[:40]))
                last = (entry, labs, err2, vals)
                if native_fail:
                    entry['confirmed'] = True
                    confirmed_entry = entry
                    break
                tried.append(vals)
                # block this assignment of the declared inputs and ask again
                lits = []
                for nm, sv in chk.vars.items():
                    try:
                        lits.append(sv.t != model.eval(sv.t, model_completion=True))
                    except z3.Z3Exception:
                        pass
                if not lits:
                    break
                blocker.append(z3.Or(*lits))
                s2 = z3.Solver()
                s2.set('timeout', timeout_ms)
                for cnd in chk.pc:
                    s2.add(cnd)
                for fid, reg in chk.regions:
                    if fid in excluded:
                        s2.add(z3.Not(reg))
                s2.add(z3.Not(chk.cond))
                for b in blocker:
                    s2.add(b)
                if s2.check() != z3.sat:
                    break
                model = s2.model()
            is_loop_vc = chk.label.startswith('loop[')
            entry, labs, err2, vals = last
            if confirmed_entry is not None:
                d['refuted'].append(confirmed_entry)
            elif ob.replay == 'best_effort':
                # the interpreted run *is* an execution of the real code under a schedule the interpreter chose; the native
                # replay (real threads) is a second witness that may not hit the same schedule
                entry['confirmed'] = False
                entry['note'] = 'failed under the interpreter\'s schedule on the real objects; the native two-thread replay did not reproduce it'
                d['refuted'].append(entry)
            elif not ob.replay:
                entry['confirmed'] = False
                entry['note'] = 'obligation observes the run through callee models; no native replay exists'
                d['refuted'].append(entry)
            elif is_loop_vc:
                d['undecided'].append("%s: loop annotation not established/inductive for this code (counter-model "
                                        "is not a failing input): %s" % (chk.label, _json_safe(vals)))
            elif path.overapprox:
                d['undecided'].append("%s: %d counter-models of the VC do not fail on the real code; the path uses "
                                        "an over-approximate callee model (%s): %s" % (
                                            chk.label, len(tried), '; '.join(sorted(set(path.overapprox))),
                                            _json_safe(tried[:2])))
            elif err2 is not None and not labs:
                d['crashes'].append("replay of counter-model for %s failed: %s" % (chk.label, err2))
            else:
                d['crashes'].append(
                    "counter-model for %s does not fail natively: values=%r choices=%r native=%r "
                    "(encoding disagrees with CPython)" % (chk.label, vals, chk.choices, labs))
        else:
            path_ok = False
            d['undecided'].append("%s: %s" % (chk.label, info))
    # CPython cross-check on a model of this path's condition
    if path_ok and xcheck_budget > 0 and status == 'done' and path.checks and ob.replay and \
            not _needs_long_string(path.pc):
        d['xcheck_used'] += 1
        s = z3.Solver()
        s.set('timeout', timeout_ms)
        s.set('rlimit', 1500000)      # witnesses that are expensive to build (long strings) are skipped
        for cnd in path.pc:
            s.add(cnd)
        for fid, reg in path.regions:
            s.add(z3.Not(reg))
        if s.check() == z3.sat:
            vals = model_values(s.model(), path.vars)
            r2, t2, err2, hit2 = replay(ob, vals, path.choices)
            d['crosschecked'] += 1
            bad = [(lab, d) for lab, ok, d in r2 if not ok]
            if err2 is not None:
                d['crashes'].append("cross-check: native run of a feasible path failed: %s; values=%r" % (
                    err2, vals))
            elif bad and not hit2:
                # the real code fails the contract on a concrete input: a violation whatever the symbolic verdict was
                # (typically the clause was proved under a loop annotation whose own VC is not discharged)
                for lab, d in bad:
                    d['refuted'].append(dict(clause=lab, values=_json_safe(vals), choices=_json_safe(path.choices),
                                               model='', detail=_json_safe(d), native_results=_json_safe(r2[:20]),
                                               native_trace=_json_safe(t2[:40]), replay_error=None, trace=[],
                                               confirmed=True, note='found by the CPython cross-check of a path'))
    return d


def _warm(info):
    """State-independent caches only: modules the path imported lazily are imported here too, the sources of the functions
    it interpreted are parsed here too, so that later children inherit them instead of redoing the work."""
    if not info:
        return
    for name in info.get('modules', ()):
        if name not in sys.modules and not name.startswith('contracts'):
            try:
                importlib.import_module(name)
            except BaseException:
                pass
    bare = Interp.__new__(Interp)
    for mod, qual in info.get('funcs', ()):
        try:
            o = sys.modules.get(mod)
            for part in qual.split('.'):
                o = o.__dict__[part] if isinstance(o, type) and part in o.__dict__ else getattr(o, part)
            o = getattr(o, '__func__', o)
            if hasattr(o, 'fget'):
                o = o.fget
            if hasattr(o, '__code__') and o.__code__ not in Interp._src_cache:
                Interp._source_of(bare, o)
        except BaseException:
            pass
    del Interp._src_missed[:]


def _can_isolate():
    return hasattr(os, 'fork') and os.environ.get('PYVC_ISOLATE', '1') != '0'


def _send(f, obj):
    data = pickle.dumps(obj, protocol=pickle.HIGHEST_PROTOCOL)
    f.write(struct.pack('>Q', len(data)))
    f.write(data)
    f.flush()


def _recv(f):
    head = f.read(8)
    if len(head) < 8:
        return None
    n, = struct.unpack('>Q', head)
    data = f.read(n)
    if len(data) < n:
        return None
    return pickle.loads(data)


def _isolated_replay(ob, values, choices):
    """replay_concrete in a child of this (pristine) process: the native run starts from the state the obligation's module
    was loaded in, whatever earlier paths did to classes, caches and registries."""
    r, w = os.pipe()
    sys.stdout.flush()
    sys.stderr.flush()
    gc.freeze()
    pid = os.fork()
    if pid == 0:
        try:
            os.close(r)
            f = os.fdopen(w, 'wb')
            try:
                r2, t2, err2, hit2 = replay_concrete(ob, values, choices)
                out = (_json_safe(list(r2)), _json_safe(list(t2)), err2, list(hit2))
                try:
                    pickle.dumps(out)
                except Exception:
                    out = (_json_safe(list(r2)), [], err2, [str(h) for h in hit2])
            except BaseException as e:
                out = ([], [], "replay process failed: %r" % (e,), [])
            _send(f, out)
        finally:
            os._exit(0)
    os.close(w)
    f = os.fdopen(r, 'rb')
    out = _recv(f)
    f.close()
    _, st = os.waitpid(pid, 0)
    if out is None:
        return [], [], "replay process died (wait status %d)" % st, []
    r2, t2, err2, hit2 = out
    return [tuple(x) for x in r2], [tuple(x) if isinstance(x, list) else x for x in t2], err2, hit2


def _isolated_path(ob, prefix, timeout_ms, excluded, known_hit_ids, xcheck_budget, path_no):
    """One path in a forked child, so that nothing the path does to process-wide state (class attributes, module-level
    caches and registries of the code under contract) is seen by the next path.  This process never runs a path itself;
    native replays the child asks for are run in further children of this process (see _isolated_replay)."""
    p2c_r, p2c_w = os.pipe()
    c2p_r, c2p_w = os.pipe()
    sys.stdout.flush()
    sys.stderr.flush()
    gc.freeze()            # what exists now is not traversed (hence not copied on write) by a child's collector
    pid = os.fork()
    if pid == 0:
        try:
            os.close(p2c_w)
            os.close(c2p_r)
            fin, fout = os.fdopen(p2c_r, 'rb'), os.fdopen(c2p_w, 'wb')

            def replay(ob_, values, choices):
                _send(fout, ('replay', values, choices))
                out = _recv(fin)
                if out is None:
                    return [], [], "replay request got no answer", []
                return out
            try:
                mods_before = set(sys.modules)
                del Interp._src_missed[:]
                d = _explore_path(ob, prefix, timeout_ms, excluded, known_hit_ids, xcheck_budget, path_no, replay)
                d['warm'] = dict(modules=sorted(set(sys.modules) - mods_before),
                                 funcs=[x for x in Interp._src_missed if x[0] and x[1] and '<' not in x[1]])
                _send(fout, ('done', d))
            except BaseException as e:
                _send(fout, ('fatal', ''.join(traceback.format_exception(type(e), e, e.__traceback__)[-8:])))
        finally:
            os._exit(0)
    os.close(p2c_r)
    os.close(c2p_w)
    fin, fout = os.fdopen(c2p_r, 'rb'), os.fdopen(p2c_w, 'wb')
    result = None
    while True:
        msg = _recv(fin)
        if msg is None:
            break
        if msg[0] == 'replay':
            try:
                ans = _isolated_replay(ob, msg[1], msg[2])
            except BaseException as e:
                ans = ([], [], "replay could not be started: %r" % (e,), [])
            _send(fout, ans)
        elif msg[0] == 'done':
            result = msg[1]
            break
        else:
            result = dict(work=[], funcs={}, stats={}, undecided=[], crashes=["path process failed: %s" % msg[1]], refuted=[],
                          known_hits=[], notes=[], skip=False, cut=0, clauses={}, samples=[], crosschecked=0, xcheck_used=0)
            break
    fin.close()
    fout.close()
    _, st = os.waitpid(pid, 0)
    if result is not None:
        _warm(result.pop('warm', None))
    if result is None:
        result = dict(work=[], funcs={}, stats={}, undecided=[], crashes=["path process died (wait status %d) on prefix %r" % (
            st, prefix)], refuted=[], known_hits=[], notes=[], skip=False, cut=0, clauses={}, samples=[], crosschecked=0,
            xcheck_used=0)
    return result


def run_obligation(ob_id, opts):
    """Runs one obligation in the current process; returns a JSON-able result dict."""
    ob = REGISTRY[ob_id]
    timeout_ms = opts.get('timeout_ms', 10000)
    Ctx.thorough = opts.get('tier') == 'thorough'
    Ctx.seed = opts.get('seed', 0)
    known = opts.get('known', {})       # finding id -> entry (open findings only)
    seed = opts.get('seed', 0)
    z3.set_param('smt.random_seed', seed % (2 ** 31))
    z3.set_param('sat.random_seed', seed % (2 ** 31))
    t_start = time.time()
    stats = dict(queries=0, solver_s=0.0, z3=0, cvc5=0, structural=0)
    res = dict(id=ob.id, prop=ob.prop, desc=ob.desc, bounded=ob.bounded, kind=ob.kind,
               assumptions=list(ob.assumptions), clauses={}, undecided=[], refuted=[],
               known_hits=[], crashes=[], paths=0, cut_paths=0, functions={}, samples=[],
               crosschecked=0, targets=ob.targets)

    if ob.kind == 'finite':
        return _run_finite(ob, res, t_start)

    work = [[]]
    funcs = {}
    xcheck_budget = opts.get('xcheck_paths', 6)
    excluded = set(known.keys())
    isolate = _can_isolate()
    res['isolated_paths'] = isolate
    while work:
        if res['paths'] >= ob.max_paths:
            res['undecided'].append("path budget %d exhausted" % ob.max_paths)
            break
        prefix = work.pop()
        args = (ob, prefix, timeout_ms, excluded, [h['finding'] for h in res['known_hits']], xcheck_budget, res['paths'])
        d = _isolated_path(*args) if isolate else _explore_path(*args, replay=replay_concrete)
        work.extend(d['work'])
        funcs.update(d['funcs'])
        for k in ('queries', 'solver_s', 'z3', 'cvc5', 'structural'):
            stats[k] = stats.get(k, 0) + d['stats'].get(k, 0)
        for k in ('undecided', 'crashes', 'refuted', 'known_hits'):
            res[k].extend(d[k])
        if d['notes']:
            res.setdefault('notes', []).extend(d['notes'])
        if d['skip']:
            continue
        res['paths'] += 1
        res['cut_paths'] += d['cut']
        for lab, cl in d['clauses'].items():
            t = res['clauses'].setdefault(lab, dict(paths=0, discharged=0, backend={}))
            t['paths'] += cl['paths']
            t['discharged'] += cl['discharged']
            for bk, n in cl['backend'].items():
                t['backend'][bk] = t['backend'].get(bk, 0) + n
        for smp in d['samples']:
            if len(res['samples']) < 3:
                res['samples'].append(smp)
        res['crosschecked'] += d['crosschecked']
        xcheck_budget -= d['xcheck_used']
    replay_final = _isolated_replay if isolate else replay_concrete
    # refutation search (DESIGN 1): when something is left undecided and nothing is refuted, run the obligation body
    # natively once with default inputs -- bodies whose replay mode enumerates small inputs thereby search for a
    # failing concrete input; a failure found this way is a replayed refutation, nothing found leaves it undecided.
    if (res['undecided'] or res['crashes']) and not any(v.get('confirmed') for v in res['refuted']) and ob.replay:
        r2, t2, err2, hit2 = replay_final(ob, {}, [])
        for lab, ok, d in r2:
            if not ok:
                res['refuted'].append(dict(clause=lab, values={}, choices=[], model='', detail=_json_safe(d),
                                           native_results=_json_safe(r2[:20]), native_trace=[], replay_error=err2,
                                           trace=[], confirmed=True,
                                           note='found by the native refutation search (default/enumerated inputs)'))
    res['functions'] = funcs
    res['stats'] = stats
    res['wall_s'] = time.time() - t_start
    if res['paths'] == 0 and not res['crashes']:
        res['crashes'].append("zero feasible paths (vacuous obligation)")
    if not res['clauses'] and not res['crashes'] and not res['undecided']:
        res['crashes'].append("no clause was generated (vacuous obligation)")
    return res


def _run_finite(ob, res, t_start):
    """Exhaustive enumeration of a finite lemma's whole domain on CPython (not deduction)."""
    try:
        out = ob.fn(None)
    except BaseException as e:
        res['crashes'].append("finite lemma crashed: %r" % (e,))
        out = None
    if out is not None:
        n, failures = out
        res['finite'] = dict(cases=n, failures=len(failures), exhaustive=True, examples=_json_safe(failures[:5]))
        if failures:
            res['refuted'].append(dict(clause='finite', values=_json_safe(failures[0]), confirmed=True,
                                       choices=[], model='', detail=None))
    res['stats'] = dict(queries=0, solver_s=0.0, z3=0, cvc5=0, structural=0)
    res['wall_s'] = time.time() - t_start
    return res


def _short(t, n=300):
    s = str(t).replace('\n', ' ')
    s = ' '.join(s.split())
    return s if len(s) <= n else s[:n] + '...'
