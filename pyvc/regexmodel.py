"""Assumed contract of the `re` engine on symbolic strings (DESIGN 2.8).

A compiled pattern is translated (sre parse tree -> z3 regular expression) for the constructs below;
anything else is Unsupported.  Contracts assumed:

  p.fullmatch(s) is not None   <=>  s in L(p)
  p.match(s) is not None       <=>  some prefix of s is in L(p)          (and then span() == (0, e) with
                                    s[0:e] in L(p); WHICH such e the engine picks -- leftmost-priority,
                                    not longest -- is not modelled: e is any admissible end)
  a trailing '$' matches at the end of the string or before a final newline (re documentation).
"""
import re
import re._parser as sre_parse
import re._constants as sre_c

import z3

from . import sym as S
from .sym import Sym, SInt, SBool, SStr, SBytes, Unsupported

_SS = z3.StringSort()
_RS = z3.ReSort(_SS)


def _allchar():
    return z3.AllChar(_RS)


def _ch(code):
    return z3.Re(z3.StringVal(chr(code)))


_DIGIT = lambda: z3.Range('0', '9')
_WORD = lambda: z3.Union(z3.Range('a', 'z'), z3.Range('A', 'Z'), z3.Range('0', '9'), z3.Re('_'))
_SPACE = lambda: z3.Union(*[z3.Re(c) for c in ' \t\n\r\f\v'])


def _category(cat, ascii_only):
    if not ascii_only and cat in (sre_c.CATEGORY_DIGIT, sre_c.CATEGORY_WORD, sre_c.CATEGORY_SPACE,
                                  sre_c.CATEGORY_NOT_DIGIT, sre_c.CATEGORY_NOT_WORD, sre_c.CATEGORY_NOT_SPACE):
        # \d, \w, \s of str patterns also match non-ASCII characters: not modelled
        raise Unsupported("unicode character category in a str pattern")
    if cat == sre_c.CATEGORY_DIGIT:
        return _DIGIT()
    if cat == sre_c.CATEGORY_WORD:
        return _WORD()
    if cat == sre_c.CATEGORY_SPACE:
        return _SPACE()
    if cat == sre_c.CATEGORY_NOT_DIGIT:
        return z3.Intersect(_allchar(), z3.Complement(_DIGIT()))
    if cat == sre_c.CATEGORY_NOT_WORD:
        return z3.Intersect(_allchar(), z3.Complement(_WORD()))
    if cat == sre_c.CATEGORY_NOT_SPACE:
        return z3.Intersect(_allchar(), z3.Complement(_SPACE()))
    raise Unsupported("regex category %r" % (cat,))


class Translated(object):
    def __init__(self, regex, end_anchor, groups):
        self.re = regex
        self.end_anchor = end_anchor
        self.groups = groups


def _seq(items, flags, ascii_only, top):
    parts = []
    end_anchor = False
    n = len(items)
    for i, (op, av) in enumerate(items):
        if op is sre_c.AT:
            if av in (sre_c.AT_BEGINNING, sre_c.AT_BEGINNING_STRING) and i == 0 and top:
                continue
            if av is sre_c.AT_END and i == n - 1 and top:
                end_anchor = 'dollar'
                continue
            if av is sre_c.AT_END_STRING and i == n - 1 and top:
                end_anchor = 'Z'
                continue
            raise Unsupported("regex anchor %r in the middle of a pattern" % (av,))
        parts.append(_node(op, av, flags, ascii_only))
    if not parts:
        r = z3.Re(z3.StringVal(''))
    elif len(parts) == 1:
        r = parts[0]
    else:
        r = z3.Concat(*parts)
    return r, end_anchor


def _node(op, av, flags, ascii_only):
    if op is sre_c.LITERAL:
        return _ch(av)
    if op is sre_c.NOT_LITERAL:
        return z3.Intersect(_allchar(), z3.Complement(_ch(av)))
    if op is sre_c.ANY:
        if flags & re.DOTALL:
            return _allchar()
        return z3.Intersect(_allchar(), z3.Complement(z3.Re('\n')))
    if op is sre_c.IN:
        negate = False
        alts = []
        for o, a in av:
            if o is sre_c.NEGATE:
                negate = True
            elif o is sre_c.LITERAL:
                alts.append(_ch(a))
            elif o is sre_c.RANGE:
                alts.append(z3.Range(chr(a[0]), chr(a[1])))
            elif o is sre_c.CATEGORY:
                alts.append(_category(a, ascii_only))
            else:
                raise Unsupported("regex set item %r" % (o,))
        u = alts[0] if len(alts) == 1 else z3.Union(*alts)
        if negate:
            return z3.Intersect(_allchar(), z3.Complement(u))
        return u
    if op is sre_c.BRANCH:
        alts = [_seq(list(b), flags, ascii_only, False)[0] for b in av[1]]
        return alts[0] if len(alts) == 1 else z3.Union(*alts)
    if op is sre_c.SUBPATTERN:
        group, add_flags, del_flags, p = av
        if add_flags or del_flags:
            raise Unsupported("inline regex flags")
        return _seq(list(p), flags, ascii_only, False)[0]
    if op in (sre_c.MAX_REPEAT, sre_c.MIN_REPEAT):
        lo, hi, p = av
        inner = _seq(list(p), flags, ascii_only, False)[0]
        if hi is sre_c.MAXREPEAT:
            if lo == 0:
                return z3.Star(inner)
            if lo == 1:
                return z3.Plus(inner)
            return z3.Concat(z3.Loop(inner, lo, lo), z3.Star(inner))
        if lo == 0 and hi == 1:
            return z3.Option(inner)
        return z3.Loop(inner, lo, hi)
    if op is sre_c.CATEGORY:
        return _category(av, ascii_only)
    raise Unsupported("regex construct %r" % (op,))


_cache = {}


def translate(pat):
    key = (pat.pattern, pat.flags)
    if key in _cache:
        return _cache[key]
    flags = pat.flags
    if flags & (re.IGNORECASE | re.MULTILINE | re.VERBOSE | re.LOCALE):
        raise Unsupported("regex flags %r" % (flags,))
    is_bytes = isinstance(pat.pattern, bytes)
    tree = sre_parse.parse(pat.pattern, flags & ~re.UNICODE if is_bytes else flags)
    ascii_only = is_bytes or bool(flags & re.ASCII)
    r, end_anchor = _seq(list(tree), flags, ascii_only, True)
    t = Translated(r, end_anchor, dict(pat.groupindex))
    _cache[key] = t
    return t


def literal_of(pat):
    """The text of a pattern made of literal characters only (optionally followed by '$' / '\\Z'), else None."""
    try:
        tree = list(sre_parse.parse(pat.pattern, pat.flags & ~re.UNICODE if isinstance(pat.pattern, bytes) else pat.flags))
    except Exception:
        return None
    out = []
    for i, (op, av) in enumerate(tree):
        if op is sre_c.LITERAL:
            out.append(chr(av))
        elif op is sre_c.AT and i == len(tree) - 1 and av in (sre_c.AT_END, sre_c.AT_END_STRING):
            continue
        else:
            return None
    return ''.join(out)


def language(pat):
    """z3 regex of the strings the pattern matches entirely (fullmatch)."""
    t = translate(pat)
    if t.end_anchor == 'dollar':
        return z3.Concat(t.re, z3.Option(z3.Re('\n')))
    return t.re


class SymMatch(object):
    """A match object on a symbolic subject; only its span is available."""
    pytype = re.Match

    def __init__(self, subject, end, pat=None):
        self.subject = subject
        self.end_ = end
        self.pat = pat

    def __bool__(self):
        return True

    def span(self, g=0):
        if g != 0:
            raise Unsupported("group spans of a symbolic match")
        return (0, self.end_)

    def end(self, g=0):
        return self.span(g)[1]

    def start(self, g=0):
        return 0

    cut = False

    def _groups(self):
        if self.pat is not None and self.pat.groups == 0:
            return
        if self.cut:
            # the subject matches the pattern: that case is the pattern_literal obligation's (C10 case split)
            raise S.PathAbort("text matching the pattern is covered by the pattern_literal obligation")
        raise Unsupported("groups of a symbolic match")

    def group(self, *a):
        self._groups()
        if not a or a == (0,):
            from .text import sym_getitem
            raise Unsupported("group(0) of a symbolic match")
        raise IndexError("no such group")

    def groupdict(self, *a):
        self._groups()
        return {}

    def groups(self, *a):
        self._groups()
        return ()


def _subject(pat, s):
    if not isinstance(s, SStr):
        raise Unsupported("regex on %r" % (s,))
    if isinstance(pat.pattern, bytes) != isinstance(s, SBytes):
        raise TypeError("cannot use a %s pattern on a %s-like object" % (
            'bytes' if isinstance(pat.pattern, bytes) else 'string', s.pytype.__name__))
    return s


def m_fullmatch(interp, pat, s, *a):
    if a:
        raise Unsupported("fullmatch with pos/endpos")
    from .text import FmtStr
    if isinstance(s, FmtStr):
        from .text import Dec, fmt_to_sstr
        if not any(isinstance(t, Dec) for t in s.tokens):
            s = fmt_to_sstr(s)
        else:
            from .tokmatch import m_match_tokens
            return m_match_tokens(interp, pat, s, full=True)
    s = _subject(pat, s)
    try:
        translate(pat)
    except Unsupported as e:
        if getattr(interp, 'symmatch_cut', False):
            return _fork_match(interp, pat, s, str(e))
        raise
    if interp.ctx.branch(z3.InRe(s.t, language(pat))):
        m = SymMatch(s, SInt(z3.Length(s.t)), pat)
        m.cut = getattr(interp, 'symmatch_cut', False)
        return m
    return None


def _fork_match(interp, pat, s, why):
    """No usable translation of the pattern: the match simply may or may not succeed (sound over-approximation)."""
    interp.ctx.note_overapprox("regex %r not translated (%s): match outcome forked" % (pat.pattern[:40], why))
    if interp.ctx.choose(2, 'regex_matches'):
        m = SymMatch(s, interp.ctx.int('match_end', declare=False))
        m.cut = getattr(interp, 'symmatch_cut', False)
        return m
    return None


def m_match(interp, pat, s, *a):
    if a:
        raise Unsupported("match with pos/endpos")
    from .text import FmtStr
    if isinstance(s, FmtStr):
        from .text import Dec, fmt_to_sstr
        if not any(isinstance(t, Dec) for t in s.tokens):
            s = fmt_to_sstr(s)                     # literals and embedded strings only: one z3 string term
        else:
            from .tokmatch import m_match_tokens
            return m_match_tokens(interp, pat, s, full=False)
    s = _subject(pat, s)
    try:
        t = translate(pat)
    except Unsupported as e:
        if getattr(interp, 'symmatch_cut', False):
            return _fork_match(interp, pat, s, str(e))
        raise
    ctx = interp.ctx
    if t.end_anchor:
        # anchored at the end: a prefix match is a whole-string match (up to a final newline for '$')
        if ctx.branch(z3.InRe(s.t, language(pat))):
            n = z3.Length(s.t)
            if t.end_anchor == 'dollar':
                e = ctx.int('match_end', declare=False)
                ctx.assume(z3.And(z3.Or(e.t == n, z3.And(e.t == n - 1, z3.SuffixOf(z3.StringVal('\n'), s.t))),
                                  z3.InRe(z3.SubString(s.t, 0, e.t), t.re)))
                return SymMatch(s, e, pat)
            return SymMatch(s, SInt(n), pat)
        return None
    if ctx.branch(z3.InRe(s.t, z3.Concat(t.re, z3.Full(_RS)))):
        lit = literal_of(pat)
        if lit is not None:
            return SymMatch(s, len(lit), pat)          # a literal pattern has exactly one admissible end
        ctx.note_overapprox("re.match: which admissible end the engine picks is not modelled")
        e = ctx.int('match_end', declare=False)
        ctx.assume(z3.And(e.t >= 0, e.t <= z3.Length(s.t), z3.InRe(z3.SubString(s.t, 0, e.t), t.re)))
        m = SymMatch(s, e, pat)
        m.cut = getattr(interp, 'symmatch_cut', False)
        return m
    return None


