"""Group records for inputs described by a regular expression (filled in with the C08 contracts)."""


class LexGroup(object):
    pass


class FracFloat(object):
    pass
