"""Symbolic int->int maps (z3 arrays + domain set) and the invariant rule for `for k, v in m.items()`."""
import z3

from . import sym as S
from .sym import Sym, SInt, SBool, Unsupported, PathAbort

IntSet = z3.ArraySort(z3.IntSort(), z3.BoolSort())
IntMap = z3.ArraySort(z3.IntSort(), z3.IntSort())


class SymMap(object):
    """A dict with int keys and int values of unknown size: dom (set of keys) and val (total array)."""
    pytype = dict

    def __init__(self, dom, val):
        self.dom = dom
        self.val = val
        self.iterating = 0

    def __bool__(self):
        raise S.SymbolicLeak("truth of SymMap taken natively")

    def contains(self, k):
        return z3.Select(self.dom, _t(k))

    def get(self, k):
        return z3.Select(self.val, _t(k))


def _t(k):
    if isinstance(k, SInt):
        return k.t
    if isinstance(k, bool):
        raise Unsupported("bool key in symbolic map")
    if isinstance(k, int):
        return z3.IntVal(k)
    if z3.is_expr(k):
        return k
    raise Unsupported("key %r in symbolic map" % (k,))


class SymMapItems(object):
    def __init__(self, m):
        self.m = m


def map_getattr(interp, m, name):
    from .interp import BoundModel
    if name == 'items':
        return BoundModel(interp, lambda i, o: SymMapItems(o), m, name)
    if name == 'get':
        def get(i, o, k, default=None):
            if i.ctx.branch(o.contains(k)):
                return SInt(o.get(k))
            return default
        return BoundModel(interp, get, m, name)
    raise Unsupported("method %s of a symbolic map" % name)


def map_getitem(interp, m, k):
    if interp.ctx.branch(m.contains(k)):
        return SInt(m.get(k))
    raise KeyError(k)


def map_setitem(interp, m, k, v):
    kt = _t(k)
    vt = S._num_term(v)
    if vt is None or not vt[1]:
        raise Unsupported("non-integer value stored in a symbolic int map")
    if m.iterating:
        # CPython: changing the size of a dict while iterating over it is a RuntimeError
        if not interp.ctx.branch(z3.Select(m.dom, kt)):
            raise RuntimeError("dictionary changed size during iteration")
    m.val = z3.Store(m.val, kt, vt[0])
    m.dom = z3.Store(m.dom, kt, z3.BoolVal(True))


def map_contains(interp, m, k):
    return SBool(m.contains(k))


class MapItemsLoop(object):
    """Invariant rule for `for k, v in m.items(): body` over a SymMap.

    invariant(env, done) -> formula; `done` is the z3 set of keys already visited.
    modifies: local variable names assigned by the body.  The map's values may be updated by the body
    (keys may not be added or removed -- checked).  Every key of the entry domain is visited exactly
    once, in an unspecified order.
    """

    def __init__(self, invariant, modifies, name=None):
        self.invariant = invariant
        self.modifies = list(modifies)
        self.name = name

    def run_for(self, interp, node, fr, itv, lid):
        from .interp import Env, _Break, _Continue, _MISSING
        if not isinstance(itv, SymMapItems):
            raise Unsupported("MapItemsLoop on %r" % (itv,))
        m = itv.m
        ctx = interp.ctx
        env = Env(interp, fr)
        dom0 = m.dom
        empty = z3.K(z3.IntSort(), z3.BoolVal(False))
        ctx.check("loop[%s].init" % lid, self.invariant(env, empty))
        # cut point: arbitrary set of visited keys, arbitrary values of what the loop modifies
        for nm in self.modifies:
            cur = fr.locals.get(nm, _MISSING)
            if cur is _MISSING:
                raise Unsupported("loop variable %s not bound before the loop" % nm)
            fr.locals[nm] = interp._havoc_like(nm, cur)
        m.val = z3.Const(ctx._fresh_name('mapval'), IntMap)
        done = z3.Const(ctx._fresh_name('done'), IntSet)
        k = z3.Int(ctx._fresh_name('anykey'))
        ctx.assume(z3.ForAll([k], z3.Implies(z3.Select(done, k), z3.Select(dom0, k))))
        ctx.assume(self.invariant(env, done))
        if ctx.choose(2, 'loop_iteration_or_exit') == 0:
            # one more iteration on an arbitrary unvisited key
            key = z3.Int(ctx._fresh_name('key'))
            ctx.assume(z3.And(z3.Select(dom0, key), z3.Not(z3.Select(done, key))))
            m.iterating += 1
            interp.assign(node.target, (SInt(key), SInt(z3.Select(m.val, key))), fr)
            try:
                interp.exec_block(node.body, fr)
            except _Break:
                raise Unsupported("break inside an annotated map loop")
            except _Continue:
                pass
            finally:
                m.iterating -= 1
            ctx.check("loop[%s].domain_unchanged" % lid, S.SBool(m.dom == dom0) if not z3.eq(m.dom, dom0) else True)
            ctx.check("loop[%s].preserve" % lid, self.invariant(env, z3.Store(done, key, z3.BoolVal(True))))
            raise PathAbort("loop cut point")
        # exit: every key visited
        ctx.assume(z3.ForAll([k], z3.Select(done, k) == z3.Select(dom0, k)))
        interp.exec_block(node.orelse, fr)
