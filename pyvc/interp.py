"""Symbolic interpreter over the AST of live function objects.

The interpreter is mixed: every value that is known stays a real Python object and operations on
concrete operands are carried out by CPython itself; only operations that involve a symbolic
wrapper (pyvc.sym) are modelled.  Functions of the package under verification are never executed by
CPython when called from interpreted code: their source is re-read from the working tree
(inspect -> ast) and interpreted, so that symbolic values can flow through them, every fork is seen,
and the evidence can name each function whose real body took part in a proof.
"""
import ast
import builtins
import hashlib
import inspect
import linecache
import operator
import sys
import textwrap
import types

import greenlet
import z3

from . import sym as S
from .sym import (Sym, SInt, SBool, SReal, SStr, SBytes, SOpaque, EngineSignal, PathAbort,
                  Unsupported, SymbolicLeak, is_sym)


class ControlSignal(EngineSignal):
    pass


class _Return(ControlSignal):
    def __init__(self, value):
        self.value = value


class _Break(ControlSignal):
    pass


class _Continue(ControlSignal):
    pass


def _engine_exc(e):
    return (isinstance(e, EngineSignal) and not isinstance(e, ControlSignal)) \
        or isinstance(e, greenlet.GreenletExit)


class Frame(object):
    __slots__ = ('locals', 'parent', 'globals', 'cells', 'cls_name', 'gdecl', 'ndecl', 'info',
                 'is_class', 'fn_obj', 'argnames')

    def __init__(self, globals_, parent=None, cells=None, cls_name=None, info=None, locals_=None,
                 is_class=False):
        self.locals = {} if locals_ is None else locals_
        self.parent = parent
        self.globals = globals_
        self.cells = cells or {}
        self.cls_name = cls_name
        self.gdecl = set()
        self.ndecl = set()
        self.info = info
        self.is_class = is_class
        self.fn_obj = None
        self.argnames = ()


class FuncInfo(object):
    """Source record of an interpreted function (goes to the evidence)."""

    def __init__(self, module, qualname, filename, first, last, sha):
        self.module = module
        self.qualname = qualname
        self.filename = filename
        self.first = first
        self.last = last
        self.sha = sha

    def key(self):
        return "%s:%s" % (self.module, self.qualname)

    def as_dict(self):
        return dict(function=self.key(), file=self.filename, lines=[self.first, self.last],
                    sha256=self.sha)


class IFunc(object):
    """A function object created by a def/lambda evaluated inside interpreted code."""

    def __init__(self, interp, node, frame, defaults, kwdefaults, name, info):
        self.interp = interp
        self.node = node
        self.frame = frame
        self.defaults = defaults
        self.kwdefaults = kwdefaults
        self.__name__ = name
        self.__qualname__ = name
        self.__module__ = frame.globals.get('__name__', '?')
        self.__doc__ = None
        self.info = info
        self.__dict__['__wrapped_ifunc__'] = True

    def __call__(self, *args, **kwargs):
        return self.interp.call_ifunc(self, args, kwargs)

    def __get__(self, obj, typ=None):
        if obj is None:
            return self
        return types.MethodType(self, obj)


class IGen(object):
    """Generator object of an interpreted generator function (greenlet based)."""

    def __init__(self, interp, runner, name):
        self.interp = interp
        self.name = name
        self._runner = runner
        self._gl = None
        self._done = False
        self._started = False
        self.gi_running = False
        interp.live_gens.append(self)

    def _body(self, first):
        return ('ret', self._runner(self))

    def __iter__(self):
        return self

    def _resume(self, kind, val):
        if self._done:
            if kind == 'throw':
                raise val
            raise StopIteration
        if self._gl is None:
            self._gl = greenlet.greenlet(self._body)
            if kind == 'throw':
                self._done = True
                raise val
            if kind == 'send' and val is not None:
                raise TypeError("can't send non-None value to a just-started generator")
            self._started = True
        self.gi_running = True
        try:
            self._parent = greenlet.getcurrent()
            res = self._gl.switch((kind, val))
        except BaseException:
            self._done = True
            raise
        finally:
            self.gi_running = False
        if res[0] == 'yield':
            return res[1]
        self._done = True
        e = StopIteration(res[1]) if res[1] is not None else StopIteration()
        raise e

    def do_yield(self, value):
        """Called from inside the generator's greenlet."""
        kind, val = self._parent.switch(('yield', value))
        if kind == 'throw':
            raise val
        return val

    def __next__(self):
        return self._resume('send', None)

    def send(self, v):
        return self._resume('send', v)

    def throw(self, typ, val=None, tb=None):
        if isinstance(typ, type):
            exc = typ() if val is None else (val if isinstance(val, BaseException) else typ(val))
        else:
            exc = typ
        return self._resume('throw', exc)

    def close(self):
        if self._done or self._gl is None:
            self._done = True
            return
        try:
            self._resume('throw', GeneratorExit())
        except (GeneratorExit, StopIteration):
            pass
        else:
            raise RuntimeError("generator ignored GeneratorExit")

    def kill(self):
        if self._gl is not None and not self._gl.dead:
            try:
                self._gl.throw(greenlet.GreenletExit)
            except BaseException:
                pass
        self._done = True


_MISSING = object()


class LoopSpec(object):
    """Inductive-invariant annotation for one loop of a carrier function.

    invariant(env) -> formula, env maps local names (and 'ghost') to current values.
    modifies: local variable names assigned by the loop (havocked at the cut point).
    variant(env): optional integer measure that must decrease and stay >= 0.
    """

    def __init__(self, invariant, modifies, variant=None, ghost_modifies=(), name=None):
        self.invariant = invariant
        self.modifies = list(modifies)
        self.variant = variant
        self.ghost_modifies = list(ghost_modifies)
        self.name = name


class Env(object):
    def __init__(self, interp, fr):
        self._i = interp
        self._fr = fr
        self.ghost = interp.ctx.ghost

    def __getitem__(self, k):
        return self._i.lookup(k, self._fr)

    def __getattr__(self, k):
        if k.startswith('_'):
            raise AttributeError(k)
        return self._i.lookup(k, self._fr)


_MUTATORS = frozenset(['append', 'extend', 'insert', 'pop', 'remove', 'clear', 'sort', 'reverse', 'update', 'setdefault',
                       'popitem', 'add', 'discard', 'appendleft', 'extendleft', 'popleft', 'rotate', '__setitem__',
                       '__delitem__', '__iadd__', '__ior__', 'difference_update', 'intersection_update',
                       'symmetric_difference_update'])
_LOCK_OPS = frozenset(['acquire', 'release', '__enter__', '__exit__'])
_LOCK_TYPES = tuple(t for t in (type(__import__('threading').Lock()), type(__import__('threading').RLock())))
_CONTAINERS = (list, dict, set, bytearray, __import__('collections').deque)
try:
    from lxml import etree as _etree
    _CONTAINERS = _CONTAINERS + (_etree._Element, _etree._Validator)
    _MUTATORS = _MUTATORS | frozenset(['set', 'addnext', 'addprevious', 'replace', 'validate', 'assertValid', 'assert_',
                                       '__call__'])
    _LXML_SUBELEMENT = _etree.SubElement
    _LXML_MOVERS = frozenset(['append', 'insert', 'extend', 'addnext', 'addprevious', 'replace'])
except ImportError:                                             # pragma: no cover
    _LXML_SUBELEMENT = None
_ORDER_SENSITIVE = (builtins.list, builtins.tuple, builtins.enumerate, builtins.zip, builtins.iter, builtins.map,
                    builtins.filter, builtins.sorted, builtins.next, dict.fromkeys)


class Interp(object):
    def __init__(self, ctx, prefixes=('spyne',)):
        self.ctx = ctx                     # pyvc.path.Path
        S.CURRENT_CTX[0] = ctx
        self.prefixes = tuple(prefixes)
        self.models = {}                   # function object -> model(interp, args, kwargs)
        self.native = set()                # functions to run natively although interpretable
        self.loop_specs = {}               # (qualname, loop key) -> LoopSpec
        self.funcs_seen = {}               # key -> FuncInfo
        self.abstracted = []               # notes on what was abstracted
        self.live_gens = []
        self.exc_stack = []
        self.call_hooks = {}               # function object -> hook(args, kwargs) called before the call
        self.yield_hook = None
        self.depth = 0
        self.max_depth = 400
        self.max_unroll = 64
        self.store_hook = None             # frame checks: hook(kind, obj, name_or_key, value); kinds attr, item,
        #                                    delitem, delattr, mutate (native container mutator), lock (acquire/release)
        self.cur_stmt = (None, 0)          # (FuncInfo, line within the function) of the statement being executed
        self.load_hook = None              # hook(obj, name) on every attribute load by interpreted code
        self.item_read_hook = None         # hook(container, key) on d[k], k in d, d.get(k) by interpreted code
        self.steps = 0
        self.max_steps = 2000000
        self.info_stack = []
        self.iter_hook = None              # hook(obj, FuncInfo): every iteration started by interpreted code
        self.ghost_attrs = {}              # id(lxml element) -> (element, {attribute: symbolic text})
        self.symkey_dicts = {}             # id -> dict that holds symbolic text keys (kept alive here)
        self.set_order = None              # None | 'sorted' | 'reversed' | 'rotated': adversarial set iteration order

    # ------------------------------------------------------------------ source access
    _src_cache = {}
    _src_missed = []                   # (module, qualname) of cache misses: lets a parent process warm its own cache

    def _source_of(self, fn):
        code = fn.__code__
        key = code
        hit = Interp._src_cache.get(key)
        if hit is not None:
            return hit
        Interp._src_missed.append((getattr(fn, '__module__', None), getattr(fn, '__qualname__', None)))
        try:
            lines, first = inspect.getsourcelines(code)
        except (OSError, TypeError) as e:
            raise Unsupported("no source for %r: %s" % (fn, e))
        src = textwrap.dedent(''.join(lines))
        try:
            tree = ast.parse(src)
        except SyntaxError:
            # a lambda or a decorated fragment in the middle of an expression
            tree = None
            for trial in (src.strip(), '(' + src.strip().rstrip(',') + ')',
                          'f(' + src.strip().rstrip(',') + ')', 'dict(' + src.strip() + ')'):
                try:
                    tree = ast.parse(trial)
                    break
                except SyntaxError:
                    continue
            if tree is None and code.co_name == '<lambda>':
                # a lambda inside a fragment that is not an expression (e.g. a default value in a def header):
                # take the longest parsable expression starting at each 'lambda'
                flat = src
                cands = []
                start = flat.find('lambda')
                while start >= 0:
                    for end in range(len(flat), start + 6, -1):
                        try:
                            t = ast.parse(flat[start:end].strip(), mode='eval')
                        except SyntaxError:
                            continue
                        if isinstance(t.body, ast.Lambda):
                            cands.append(t)
                            break
                    start = flat.find('lambda', start + 6)
                if cands:
                    tree = ast.Module(body=[ast.Expr(value=t.body) for t in cands], type_ignores=[])
            if tree is None:
                raise Unsupported("cannot parse source of %r" % (fn,))
        node = None
        if code.co_name == '<lambda>':
            cands = [n for n in ast.walk(tree) if isinstance(n, ast.Lambda)]
            if len(cands) > 1:
                want = code.co_code
                names = code.co_varnames[:code.co_argcount]
                cands2 = [n for n in cands if tuple(a.arg for a in n.args.args) == tuple(names)]
                cands = cands2 or cands
                if len(cands) > 1:
                    best = []
                    for n in cands:
                        try:
                            c = compile(ast.Expression(body=n), '<l>', 'eval')
                            lam = [k for k in c.co_consts if isinstance(k, types.CodeType)]
                            if lam and lam[0].co_code == want:
                                best.append(n)
                        except Exception:
                            pass
                    cands = best or cands
            if not cands:
                raise Unsupported("lambda source not found for %r" % (fn,))
            node = cands[0]
        else:
            for n in ast.walk(tree):
                if isinstance(n, (ast.FunctionDef, ast.AsyncFunctionDef)) and n.name == code.co_name:
                    node = n
                    break
            if node is None:
                raise Unsupported("def %s not found in its source" % code.co_name)
        sha = hashlib.sha256(''.join(lines).encode('utf8')).hexdigest()
        info = FuncInfo(fn.__module__, fn.__qualname__, code.co_filename, first,
                        first + len(lines) - 1, sha)
        is_gen = _has_yield(node)
        hit = (node, info, is_gen)
        Interp._src_cache[key] = hit
        return hit

    def interpretable(self, fn):
        if not isinstance(fn, types.FunctionType):
            return False
        if fn in self.native:
            return False
        mod = getattr(fn, '__module__', None) or ''
        return any(mod == p or mod.startswith(p + '.') for p in self.prefixes)

    # ------------------------------------------------------------------ names
    def mangle(self, name, fr):
        if name.startswith('__') and not name.endswith('__') and fr.cls_name:
            return '_%s%s' % (fr.cls_name.lstrip('_'), name)
        return name

    def lookup(self, name, fr):
        f = fr
        first = True
        while f is not None:
            if (first or not f.is_class) and name in f.locals and name not in f.gdecl:
                return f.locals[name]
            if name in f.cells:
                try:
                    return f.cells[name].cell_contents
                except ValueError:
                    raise NameError("free variable %r referenced before assignment" % name)
            first = False
            f = f.parent
        g = fr.globals
        if name in g:
            return g[name]
        b = g.get('__builtins__', builtins)
        if isinstance(b, dict):
            if name in b:
                return b[name]
        elif hasattr(b, name):
            return getattr(b, name)
        if hasattr(builtins, name):
            return getattr(builtins, name)
        raise NameError("name %r is not defined" % name)

    def store(self, name, value, fr):
        if name in fr.gdecl:
            fr.globals[name] = value
            return
        if name in fr.ndecl:
            f = fr.parent
            while f is not None:
                if name in f.locals and not f.is_class:
                    f.locals[name] = value
                    return
                if name in f.cells:
                    f.cells[name].cell_contents = value
                    return
                f = f.parent
            if name in fr.cells:
                fr.cells[name].cell_contents = value
                return
            raise Unsupported("nonlocal %s not found" % name)
        fr.locals[name] = value

    # ------------------------------------------------------------------ truth and operators
    def truthy(self, v):
        if isinstance(v, Sym):
            if isinstance(v, SBool):
                return self.ctx.branch(v.t)
            if isinstance(v, SInt):
                return self.ctx.branch(v.t != 0)
            if isinstance(v, SReal):
                return self.ctx.branch(v.t != 0)
            if isinstance(v, SStr):
                return self.ctx.branch(z3.Length(v.t) > 0)
            if isinstance(v, SymSeq):
                return self.ctx.branch(v.length.t > 0)
            raise Unsupported("truth value of %r" % (v,))
        if isinstance(v, FmtStr):
            from .text import Lit as _Lit, Dec as _Dec, Emb as _Emb
            if any(isinstance(t, (_Lit, _Dec)) for t in v.tokens):
                return True
            embs = [t for t in v.tokens if isinstance(t, _Emb)]
            if not embs:
                return False
            return self.ctx.branch(z3.Or(*[z3.Length(t.s.t) > 0 for t in embs]))
        return bool(v)

    def not_(self, v):
        if isinstance(v, SBool):
            return SBool(z3.Not(v.t))
        return not self.truthy(v)

    _BIN = {ast.Add: operator.add, ast.Sub: operator.sub, ast.Mult: operator.mul,
            ast.Div: operator.truediv, ast.FloorDiv: operator.floordiv, ast.Mod: operator.mod,
            ast.Pow: operator.pow, ast.LShift: operator.lshift, ast.RShift: operator.rshift,
            ast.BitOr: operator.or_, ast.BitXor: operator.xor, ast.BitAnd: operator.and_,
            ast.MatMult: operator.matmul}
    _IBIN = {ast.Add: operator.iadd, ast.Sub: operator.isub, ast.Mult: operator.imul,
             ast.Div: operator.itruediv, ast.FloorDiv: operator.ifloordiv, ast.Mod: operator.imod,
             ast.Pow: operator.ipow, ast.LShift: operator.ilshift, ast.RShift: operator.irshift,
             ast.BitOr: operator.ior, ast.BitXor: operator.ixor, ast.BitAnd: operator.iand,
             ast.MatMult: operator.imatmul}

    def binop(self, op, a, b, inplace=False):
        if hasattr(a, 'pyvc_binop'):
            return a.pyvc_binop(self, op, b, False)
        if hasattr(b, 'pyvc_binop'):
            return b.pyvc_binop(self, op, a, True)
        if not (isinstance(a, Sym) or isinstance(b, Sym)):
            if isinstance(a, FmtStr) or isinstance(b, FmtStr):
                return fmt_binop(self, op, a, b)
            f = (self._IBIN if inplace else self._BIN)[type(op)]
            if isinstance(op, ast.Mod) and isinstance(a, (str, bytes)):
                return self.percent_format(a, b)
            return f(a, b)
        return self.sym_binop(op, a, b)

    def percent_format(self, fmt, args):
        tup = args if isinstance(args, tuple) else (args,)
        if any(isinstance(x, (Sym, FmtStr)) for x in tup):
            return FmtStr.from_percent(self, fmt, tup)
        return fmt % args

    def sym_binop(self, op, a, b):
        t = type(op)
        if isinstance(a, (str, bytes)) and t is ast.Mod:
            return self.percent_format(a, b)
        if isinstance(a, FmtStr) or isinstance(b, FmtStr):
            return fmt_binop(self, op, a, b)
        num = (SInt, SReal, SBool, int, float, bool) + (S.decimal.Decimal,)
        if isinstance(a, num) and isinstance(b, num):
            if t in (ast.FloorDiv, ast.Mod):
                ia = isinstance(a, (SInt, SBool, int))
                ib = isinstance(b, (SInt, SBool, int))
                if not (ia and ib):
                    raise Unsupported("non-integer // or %% on symbolic operands")
                tb = S._num_term(b)[0]
                if self.ctx.branch(tb == 0):
                    raise ZeroDivisionError("integer division or modulo by zero")
                ta = S._num_term(a)[0]
                return SInt(S.pydiv(ta, tb) if t is ast.FloorDiv else S.pymod(ta, tb))
            if t in (ast.Add, ast.Sub, ast.Mult):
                if isinstance(a, float) or isinstance(b, float):
                    raise Unsupported("float arithmetic with a symbolic operand")
                if t is ast.Mult and isinstance(a, Sym) and isinstance(b, Sym):
                    pass  # nonlinear; z3 may still cope
                c = S._coerce(a, b)
                if c is None:
                    raise Unsupported("arithmetic with infinite/NaN operand")
                f = {ast.Add: operator.add, ast.Sub: operator.sub, ast.Mult: operator.mul}[t]
                return S._wrap_num(f(c[0], c[1]), c[2])
            raise Unsupported("operator %s on symbolic numbers" % t.__name__)
        if isinstance(a, SStr) or isinstance(b, SStr):
            if t is ast.Add:
                x = a if isinstance(a, SStr) else b
                o = b if x is a else a
                lit = x._lit(o)
                if lit is None:
                    raise TypeError("can only concatenate %s (not %r) to %s" % (
                        x.pytype.__name__, type(o).__name__, x.pytype.__name__))
                return type(x)(z3.Concat(a.t if isinstance(a, SStr) else lit,
                                         b.t if isinstance(b, SStr) else lit))
            if t is ast.Mod and isinstance(a, SStr):
                raise Unsupported("symbolic format string")
            raise Unsupported("operator %s on symbolic text" % t.__name__)
        raise Unsupported("operator %s on %r, %r" % (t.__name__, a, b))

    def unaryop(self, op, v):
        if isinstance(op, ast.Not):
            return self.not_(v)
        if hasattr(v, 'pyvc_unary'):
            return v.pyvc_unary(self, op)
        if isinstance(v, Sym):
            if isinstance(op, ast.USub) and isinstance(v, (SInt, SReal, SBool)):
                t, i = S._num_term(v)
                return S._wrap_num(-t, i)
            if isinstance(op, ast.UAdd) and isinstance(v, (SInt, SReal)):
                return v
            raise Unsupported("unary %s on %r" % (type(op).__name__, v))
        if isinstance(op, ast.USub):
            return -v
        if isinstance(op, ast.UAdd):
            return +v
        return ~v

    def compare(self, op, a, b):
        t = type(op)
        if t is ast.Is:
            return a is b
        if t is ast.IsNot:
            return a is not b
        if t in (ast.In, ast.NotIn):
            r = self.contains(b, a)
            return r if t is ast.In else self.not_(r)
        if not (isinstance(a, Sym) or isinstance(b, Sym)):
            if isinstance(a, FmtStr) or isinstance(b, FmtStr):
                return fmt_compare(self, t, a, b)
            if t in (ast.Eq, ast.NotEq) and type(a) in (tuple, list) and type(a) is type(b) and \
                    (any(isinstance(x, Sym) for x in a) or any(isinstance(x, Sym) for x in b)):
                if len(a) != len(b):
                    r = False
                else:
                    terms = []
                    r = True
                    for x, y in zip(a, b):
                        e = self.compare(ast.Eq(), x, y)
                        if e is False:
                            r = False
                            break
                        if e is not True:
                            terms.append(S.as_z3_bool(e))
                    if r is True and terms:
                        r = SBool(z3.And(*terms))
                if t is ast.NotEq:
                    r = (not r) if isinstance(r, bool) else SBool(z3.Not(r.t))
                return r
            f = {ast.Eq: operator.eq, ast.NotEq: operator.ne, ast.Lt: operator.lt,
                 ast.LtE: operator.le, ast.Gt: operator.gt, ast.GtE: operator.ge}[t]
            return f(a, b)
        if t in (ast.Eq, ast.NotEq):
            x, y = (a, b) if isinstance(a, Sym) else (b, a)
            r = x.__eq__(y)
            if r is NotImplemented:
                r = False
            if t is ast.NotEq:
                r = (not r) if isinstance(r, bool) else SBool(z3.Not(r.t))
            return r
        num = (SInt, SReal, SBool, int, float, bool, S.decimal.Decimal)
        if isinstance(a, num) and isinstance(b, num):
            name = {ast.Lt: '__lt__', ast.LtE: '__le__', ast.Gt: '__gt__', ast.GtE: '__ge__'}[t]
            rname = {ast.Lt: '__gt__', ast.LtE: '__ge__', ast.Gt: '__lt__', ast.GtE: '__le__'}[t]
            if isinstance(a, SBool):
                a = SInt(S._num_term(a)[0])
            if isinstance(b, SBool):
                b = SInt(S._num_term(b)[0])
            if isinstance(a, Sym):
                r = getattr(a, name)(b)
            else:
                r = getattr(b, rname)(a)
            if r is NotImplemented:
                # NaN or unsupported operand
                raise Unsupported("comparison %r %s %r" % (a, t.__name__, b))
            return r
        if isinstance(a, SStr) and isinstance(b, (SStr, str, bytes)) or \
                isinstance(b, SStr) and isinstance(a, (str, bytes)):
            raise Unsupported("ordering of symbolic text")
        ka = a.pytype if isinstance(a, Sym) else type(a)
        kb = b.pytype if isinstance(b, Sym) else type(b)
        if isinstance(a, SOpaque) or isinstance(b, SOpaque):
            raise Unsupported("ordering of opaque values")
        raise TypeError("'%s' not supported between instances of %r and %r" % (
            t.__name__, ka.__name__, kb.__name__))

    def contains(self, container, needle):
        if self.item_read_hook is not None and isinstance(container, dict):
            self.item_read_hook(container, needle)
        if isinstance(container, SymMap):
            return map_contains(self, container, needle)
        if isinstance(container, Sym):
            if isinstance(container, SStr):
                lit = container._lit(needle)
                if lit is None:
                    raise TypeError("'in <string>' requires string as left operand")
                return SBool(z3.Contains(container.t, lit))
            if isinstance(container, SymSeq):
                raise Unsupported("membership in a symbolic sequence")
            raise Unsupported("membership in %r" % (container,))
        if type(container) is dict and (isinstance(needle, (Sym, FmtStr)) or id(container) in self.symkey_dicts):
            from .models import sym_key_lookup
            return sym_key_lookup(self, container, needle)[0]
        if isinstance(needle, (Sym, FmtStr)):
            if isinstance(container, (list, tuple, set, frozenset)):
                terms = []
                for x in container:
                    r = self.compare(ast.Eq(), needle, x)
                    if r is True:
                        return True
                    if r is False:
                        continue
                    terms.append(r.t)
                if not terms:
                    return False
                return SBool(z3.Or(*terms))
            if isinstance(container, (str, bytes)) and isinstance(needle, SStr):
                lit = needle._lit(container)
                if lit is None:
                    raise TypeError("'in <string>' requires string as left operand")
                return SBool(z3.Contains(lit, needle.t))
            if isinstance(container, dict):
                return self.contains(list(container.keys()), needle)
            raise Unsupported("symbolic membership in %s" % type(container).__name__)
        d = self.dunder(container, '__contains__')
        if d is not None:
            return self.call(d, (container, needle), {})
        return needle in container

    # ------------------------------------------------------------------ attribute / item access
    _prop_cache = {}

    def getattr(self, obj, name):
        if self.load_hook is not None:
            self.load_hook(obj, name)
        if getattr(type(obj), '_pyvc_model', False) is True:
            from .timemodel import model_getattr
            return model_getattr(self, obj, name)
        if isinstance(obj, SymMap):
            return map_getattr(self, obj, name)
        if isinstance(obj, (Sym, FmtStr, SymSeq)):
            return sym_getattr(self, obj, name)
        tp = type(obj)
        key = (tp, name)
        d = Interp._prop_cache.get(key, _MISSING)
        if d is _MISSING:
            d = None
            for klass in tp.__mro__:
                if name in klass.__dict__:
                    cand = klass.__dict__[name]
                    if isinstance(cand, property) and cand.fget is not None and \
                            self.interpretable(cand.fget):
                        d = cand
                    break
            Interp._prop_cache[key] = d
        if d is not None:
            return self.call(d.fget, (obj,), {})
        return getattr(obj, name)

    def setattr(self, obj, name, value):
        if isinstance(obj, Sym):
            raise Unsupported("attribute store on symbolic %r" % (obj,))
        if self.store_hook is not None:
            self.store_hook('attr', obj, name, value)
        tp = type(obj)
        for klass in tp.__mro__:
            if name in klass.__dict__:
                cand = klass.__dict__[name]
                if isinstance(cand, property) and cand.fset is not None and \
                        self.interpretable(cand.fset):
                    self.call(cand.fset, (obj, value), {})
                    return
                break
        if not isinstance(obj, type):
            sa = self.dunder(obj, '__setattr__')
            if sa is not None:
                self.call(sa, (obj, name, value), {})
                return
        setattr(obj, name, value)

    def dunder(self, obj, name):
        """The package's own Python implementation of a special method of obj's type, if any."""
        if isinstance(obj, (Sym, type)):
            return None
        for klass in type(obj).__mro__:
            if name in klass.__dict__:
                f = klass.__dict__[name]
                if isinstance(f, types.FunctionType) and self.interpretable(f):
                    return f
                return None
        return None

    def getitem(self, obj, idx):
        if self.item_read_hook is not None and isinstance(obj, dict):
            self.item_read_hook(obj, idx)
        if isinstance(obj, SymMap):
            return map_getitem(self, obj, idx)
        if type(obj) is dict and id(obj) in self.symkey_dicts:
            from .models import sym_key_lookup
            found, v = sym_key_lookup(self, obj, idx)
            if not found:
                raise KeyError(idx)
            return v
        if isinstance(obj, (Sym, FmtStr, SymSeq)) or isinstance(idx, (Sym, FmtStr)):
            return sym_getitem(self, obj, idx)
        d = self.dunder(obj, '__getitem__')
        if d is not None:
            return self.call(d, (obj, idx), {})
        return obj[idx]

    def setitem(self, obj, idx, value):
        if isinstance(obj, SymMap):
            return map_setitem(self, obj, idx, value)
        if type(obj) is dict and (isinstance(idx, (SStr, FmtStr)) or id(obj) in self.symkey_dicts):
            if self.store_hook is not None:
                self.store_hook('item', obj, idx, value)
            from .models import sym_key_store
            return sym_key_store(self, obj, idx, value)
        if isinstance(obj, Sym) or isinstance(idx, (Sym, FmtStr)):
            raise Unsupported("symbolic item store")
        if self.store_hook is not None:
            self.store_hook('item', obj, idx, value)
        d = self.dunder(obj, '__setitem__')
        if d is not None:
            self.call(d, (obj, idx, value), {})
            return
        obj[idx] = value

    def delitem(self, obj, idx):
        if isinstance(obj, Sym) or isinstance(idx, Sym):
            raise Unsupported("symbolic item delete")
        if self.store_hook is not None:
            self.store_hook('delitem', obj, idx, None)
        d = self.dunder(obj, '__delitem__')
        if d is not None:
            self.call(d, (obj, idx), {})
            return
        del obj[idx]

    def iterate(self, obj):
        if self.iter_hook is not None:
            self.iter_hook(obj, self.info_stack[-1] if self.info_stack else None)
        if isinstance(obj, Sym):
            raise Unsupported("iteration over symbolic %r" % (obj,))
        if isinstance(obj, SymSeq):
            raise Unsupported("iteration over a symbolic sequence without a loop annotation")
        if self.set_order is not None and type(obj) in (set, frozenset):
            return iter(self.ordered_set(obj))
        d = self.dunder(obj, '__iter__')
        if d is not None:
            return iter(self.call(d, (obj,), {}))
        return iter(obj)

    def ordered_set(self, obj):
        """The elements of a set in the order the current adversary (set_order) picks: a set's iteration order is
        unspecified, so any order is a legal execution."""
        items = sorted(obj, key=lambda x: (type(x).__name__, repr(x)))
        if self.set_order == 'reversed':
            items.reverse()
        elif self.set_order == 'rotated':
            h = (len(items) + 1) // 2
            items = items[h:] + items[:h]
        return items

    # ------------------------------------------------------------------ calls
    def call(self, fn, args, kwargs):
        self.steps += 1
        if self.steps > self.max_steps:
            raise Unsupported("step budget exhausted")
        # bound methods
        if isinstance(fn, types.MethodType):
            return self.call(fn.__func__, (fn.__self__,) + tuple(args), kwargs)
        hook = self.call_hooks.get(fn)
        if hook is not None:
            hook(args, kwargs)
        model = self.models.get(fn)
        if model is not None:
            return model(self, args, kwargs)
        if isinstance(fn, IFunc):
            return self.call_ifunc(fn, args, kwargs)
        if isinstance(fn, types.FunctionType):
            if getattr(fn, '_pyvc_native', False):
                return fn(*args, **kwargs)
            if self.interpretable(fn):
                return self.call_pyfunc(fn, args, kwargs)
            return self.call_native(fn, args, kwargs)
        if isinstance(fn, (BoundModel,)):
            return fn(*args, **kwargs)
        if isinstance(fn, type):
            return self.instantiate(fn, args, kwargs)
        if isinstance(fn, (staticmethod, classmethod)):
            return self.call(fn.__func__, args, kwargs)
        if isinstance(fn, types.BuiltinFunctionType) or isinstance(fn, (types.MethodDescriptorType,
                                                                         types.WrapperDescriptorType,
                                                                         types.MethodWrapperType,
                                                                         types.ClassMethodDescriptorType)):
            return self.call_native(fn, args, kwargs)
        if isinstance(fn, Sym):
            raise TypeError("%r object is not callable" % fn.pytype.__name__)
        # generic callable object
        d = self.dunder(fn, '__call__')
        if d is not None:
            return self.call(d, (fn,) + tuple(args), kwargs)
        return self.call_native(fn, args, kwargs)

    def instantiate(self, cls, args, kwargs):
        if cls is type and len(args) == 1 and not kwargs:
            v = args[0]
            return v.pytype if (isinstance(v, (Sym, FmtStr, SymSeq)) or (getattr(type(v), '_pyvc_model', False) is True)) else type(v)
        if cls is super:
            return self.call_native(cls, args, kwargs)
        meta = type(cls)
        mcall = None
        for klass in meta.__mro__:
            if '__call__' in klass.__dict__:
                f = klass.__dict__['__call__']
                if isinstance(f, types.FunctionType) and self.interpretable(f):
                    mcall = f
                break
        if mcall is not None:
            return self.call(mcall, (cls,) + tuple(args), kwargs)
        mod = getattr(cls, '__module__', '') or ''
        ours = any(mod == p or mod.startswith(p + '.') for p in self.prefixes)
        if not ours:
            # a class defined elsewhere (e.g. in a contract) that inherits the package's __init__/__new__
            for nm in ('__init__', '__new__'):
                for klass in cls.__mro__:
                    if nm in klass.__dict__:
                        f = klass.__dict__[nm]
                        f = f.__func__ if isinstance(f, staticmethod) else f
                        if isinstance(f, types.FunctionType) and self.interpretable(f):
                            ours = True
                        break
        if not ours:
            bm = BUILTIN_MODELS.get(cls)
            if bm is not None and _has_sym(args, kwargs):
                return bm(self, *args, **kwargs)
            if issubclass(cls, BaseException) and _has_sym(args, kwargs):
                return cls(*args, **kwargs)       # exception constructors only store their arguments
            return self.call_native(cls, args, kwargs)
        return self.type_call(cls, args, kwargs)

    def type_call(self, cls, args, kwargs):
        """type.__call__(cls, *args, **kwargs) with the package's __new__/__init__ interpreted."""
        new = None
        for klass in cls.__mro__:
            if '__new__' in klass.__dict__:
                new = klass.__dict__['__new__']
                break
        if isinstance(new, staticmethod):
            new = new.__func__
        if isinstance(new, types.FunctionType) and self.interpretable(new):
            obj = self.call(new, (cls,) + tuple(args), kwargs)
        elif new is object.__new__ or new is None:
            obj = object.__new__(cls)
        else:
            try:
                obj = new(cls, *args, **kwargs) if not _has_sym(args, kwargs) else new(cls)
            except TypeError:
                obj = new(cls)
        if isinstance(obj, cls):
            init = None
            for klass in type(obj).__mro__:
                if '__init__' in klass.__dict__:
                    init = klass.__dict__['__init__']
                    break
            if isinstance(init, types.FunctionType) and self.interpretable(init):
                self.call(init, (obj,) + tuple(args), kwargs)
            elif init is not None and init is not object.__init__:
                if _has_sym(args, kwargs) and not issubclass(cls, BaseException):
                    raise Unsupported("native __init__ of %r with symbolic arguments" % (cls,))
                init(obj, *args, **kwargs)
        return obj

    def call_native(self, fn, args, kwargs):
        if _has_sym(args, kwargs):
            m = BUILTIN_MODELS.get(fn)
            if m is None and isinstance(fn, types.BuiltinFunctionType) and \
                    getattr(fn, '__self__', None) is not None and not isinstance(fn.__self__, types.ModuleType):
                m = METHOD_MODELS.get((type(fn.__self__), fn.__name__))
                if m is not None:
                    return m(self, fn.__self__, *args, **kwargs)
            if m is None and isinstance(fn, types.MethodDescriptorType):
                m = METHOD_MODELS.get((fn.__objclass__, fn.__name__))
                if m is not None:
                    return m(self, *args, **kwargs)
            if m is None and args and not isinstance(args[0], (Sym, FmtStr)):
                # methods of extension types that are not method descriptors (cython functions)
                nm = getattr(fn, '__name__', None)
                if nm is not None and getattr(type(args[0]), nm, None) is fn:
                    for klass in type(args[0]).__mro__:
                        m = METHOD_MODELS.get((klass, nm))
                        if m is not None:
                            return m(self, *args, **kwargs)
            if m is None:
                if getattr(fn, '_pyvc_accepts_sym', False):
                    return fn(*args, **kwargs)
                raise Unsupported("native call %s with symbolic arguments" % _fn_name(fn))
            return m(self, *args, **kwargs)
        m = BUILTIN_MODELS.get(fn)
        if m is not None and getattr(m, 'always', False):
            return m(self, *args, **kwargs)
        if self.iter_hook is not None and args and type(args[-1]) in (set, frozenset) and fn is not builtins.sorted \
                and fn not in (builtins.len, builtins.isinstance, builtins.id, builtins.repr, builtins.bool, builtins.set,
                               builtins.frozenset, builtins.min, builtins.max, builtins.sum, builtins.any, builtins.all):
            self.iter_hook(args[-1], self.info_stack[-1] if self.info_stack else None)
        if self.iter_hook is not None and fn is builtins.sorted and args and kwargs.get('key') is not None:
            self.iter_hook(('sorted', args[0], kwargs['key']), self.info_stack[-1] if self.info_stack else None)
        if fn is builtins.super and not args:
            raise Unsupported("zero-argument super() outside a frame")
        if self.item_read_hook is not None and getattr(fn, '__name__', '') in ('get', '__getitem__', '__contains__'):
            recv = getattr(fn, '__self__', None)
            rest = args
            if recv is None or isinstance(recv, (types.ModuleType, type)):
                recv, rest = (args[0], args[1:]) if args else (None, args)
            if isinstance(recv, dict) and rest:
                self.item_read_hook(recv, rest[0])
        if self.store_hook is not None:
            nm = getattr(fn, '__name__', '')
            if nm in _MUTATORS or nm in _LOCK_OPS:
                recv = getattr(fn, '__self__', None)
                rest = args
                if recv is None or isinstance(recv, types.ModuleType) or isinstance(recv, type):
                    recv, rest = (args[0], args[1:]) if args else (None, args)
                if isinstance(recv, _LOCK_TYPES) and nm in _LOCK_OPS:
                    self.store_hook('lock', recv, nm, rest)
                elif isinstance(recv, _CONTAINERS) and nm in _MUTATORS:
                    self.store_hook('mutate', recv, nm, rest)
                    if _LXML_SUBELEMENT is not None and isinstance(recv, _etree._Element) and nm in _LXML_MOVERS:
                        # an element has one parent: putting it into a tree takes it out of the tree it was in
                        moved = []
                        for a in rest:
                            if isinstance(a, _etree._Element):
                                moved.append(a)
                            elif nm == 'extend' and isinstance(a, (list, tuple)):
                                moved.extend(x for x in a if isinstance(x, _etree._Element))
                        for m in moved:
                            self.store_hook('mutate', m, 'moved_into_another_tree', (recv,))
            elif fn is _LXML_SUBELEMENT and args:
                self.store_hook('mutate', args[0], 'SubElement', args[1:])
        if self.set_order is not None and (fn in _ORDER_SENSITIVE or getattr(fn, '__name__', '') in ('join', 'extend',
                                                                                                    'from_iterable')):
            args = tuple(self.ordered_set(a) if type(a) in (set, frozenset) else a for a in args)
        return fn(*args, **kwargs)

    def bind(self, node_args, defaults, kwdefaults, args, kwargs, name):
        """Bind call arguments to parameters (ast.arguments)."""
        out = {}
        pos = [a.arg for a in node_args.posonlyargs] + [a.arg for a in node_args.args]
        npos = len(pos)
        args = tuple(args)
        if len(args) > npos and node_args.vararg is None:
            raise TypeError("%s() takes %d positional arguments but %d were given" % (
                name, npos, len(args)))
        for i, a in enumerate(args[:npos]):
            out[pos[i]] = a
        if node_args.vararg is not None:
            out[node_args.vararg.arg] = tuple(args[npos:])
        kwonly = [a.arg for a in node_args.kwonlyargs]
        extra = {}
        posonly = set(a.arg for a in node_args.posonlyargs)
        for k, v in kwargs.items():
            if (k in pos and k not in posonly) or k in kwonly:
                if k in out:
                    raise TypeError("%s() got multiple values for argument %r" % (name, k))
                out[k] = v
            elif node_args.kwarg is not None:
                extra[k] = v
            else:
                raise TypeError("%s() got an unexpected keyword argument %r" % (name, k))
        if node_args.kwarg is not None:
            out[node_args.kwarg.arg] = extra
        defaults = defaults or ()
        first_def = npos - len(defaults)
        for i, p in enumerate(pos):
            if p not in out:
                if i >= first_def:
                    out[p] = defaults[i - first_def]
                else:
                    raise TypeError("%s() missing required positional argument: %r" % (name, p))
        for k in kwonly:
            if k not in out:
                if kwdefaults and k in kwdefaults:
                    out[k] = kwdefaults[k]
                else:
                    raise TypeError("%s() missing required keyword-only argument: %r" % (name, k))
        return out

    def call_pyfunc(self, fn, args, kwargs):
        node, info, is_gen = self._source_of(fn)
        self.funcs_seen.setdefault(info.key(), info)
        cells = {}
        if fn.__closure__:
            for nm, cell in zip(fn.__code__.co_freevars, fn.__closure__):
                cells[nm] = cell
        cls_name = None
        parts = fn.__qualname__.split('.')
        if len(parts) >= 2 and parts[-2] != '<locals>':
            cls_name = parts[-2]
        fr = Frame(fn.__globals__, None, cells, cls_name, info)
        fr.fn_obj = fn
        bound = self.bind(node.args, fn.__defaults__, fn.__kwdefaults__, args, kwargs, fn.__name__)
        fr.locals.update(bound)
        fr.argnames = tuple(bound.keys())
        return self.run_body(node, fr, is_gen, info.qualname)

    def call_ifunc(self, f, args, kwargs):
        node = f.node
        fr = Frame(f.frame.globals, f.frame, None, f.frame.cls_name, f.info)
        fr.fn_obj = f
        bound = self.bind(node.args, f.defaults, f.kwdefaults, args, kwargs, f.__name__)
        fr.locals.update(bound)
        fr.argnames = tuple(bound.keys())
        is_gen = _has_yield(node)
        return self.run_body(node, fr, is_gen, f.__name__)

    def run_body(self, node, fr, is_gen, name):
        if is_gen:
            if self.yield_hook is not None and self.yield_hook[0] == name:
                # summary mode: the generator body is executed at once, yields go to the hook
                fr.locals['__yield_hook__'] = self.yield_hook[1]
                return self._exec_fn(node, fr)

            def runner(gen):
                fr.locals['__igen__'] = gen
                return self._exec_fn(node, fr)
            return IGen(self, runner, name)
        return self._exec_fn(node, fr)

    def _exec_fn(self, node, fr):
        self.depth += 1
        if self.depth > self.max_depth:
            self.depth -= 1
            raise Unsupported("interpreter recursion limit")
        self.info_stack.append(fr.info)
        saved_stmt = self.cur_stmt
        try:
            if isinstance(node, ast.Lambda):
                return self.eval(node.body, fr)
            try:
                self.exec_block(node.body, fr)
            except _Return as r:
                return r.value
            return None
        finally:
            self.depth -= 1
            self.info_stack.pop()
            self.cur_stmt = saved_stmt

    # ------------------------------------------------------------------ statements
    def exec_block(self, stmts, fr):
        for s in stmts:
            self.exec_stmt(s, fr)

    def exec_stmt(self, node, fr):
        self.cur_stmt = (fr.info, node.lineno)
        m = getattr(self, 'x_' + type(node).__name__, None)
        if m is None:
            raise Unsupported("statement %s" % type(node).__name__)
        return m(node, fr)

    def x_Expr(self, node, fr):
        self.eval(node.value, fr)

    def x_Pass(self, node, fr):
        pass

    def x_Return(self, node, fr):
        raise _Return(self.eval(node.value, fr) if node.value is not None else None)

    def x_Break(self, node, fr):
        raise _Break()

    def x_Continue(self, node, fr):
        raise _Continue()

    def x_Global(self, node, fr):
        fr.gdecl.update(node.names)

    def x_Nonlocal(self, node, fr):
        fr.ndecl.update(node.names)

    def x_Assign(self, node, fr):
        v = self.eval(node.value, fr)
        for t in node.targets:
            self.assign(t, v, fr)

    def x_AnnAssign(self, node, fr):
        if node.value is not None:
            self.assign(node.target, self.eval(node.value, fr), fr)

    def x_AugAssign(self, node, fr):
        t = node.target
        if isinstance(t, ast.Name):
            cur = self.lookup(t.id, fr)
            self.store(t.id, self.binop(node.op, cur, self.eval(node.value, fr), True), fr)
        elif isinstance(t, ast.Attribute):
            obj = self.eval(t.value, fr)
            nm = self.mangle(t.attr, fr)
            cur = self.getattr(obj, nm)
            self.setattr(obj, nm, self.binop(node.op, cur, self.eval(node.value, fr), True))
        elif isinstance(t, ast.Subscript):
            obj = self.eval(t.value, fr)
            idx = self.eval_index(t.slice, fr)
            cur = self.getitem(obj, idx)
            self.setitem(obj, idx, self.binop(node.op, cur, self.eval(node.value, fr), True))
        else:
            raise Unsupported("augmented assignment target")

    def assign(self, t, v, fr):
        if isinstance(t, ast.Name):
            self.store(t.id, v, fr)
        elif isinstance(t, ast.Attribute):
            self.setattr(self.eval(t.value, fr), self.mangle(t.attr, fr), v)
        elif isinstance(t, ast.Subscript):
            self.setitem(self.eval(t.value, fr), self.eval_index(t.slice, fr), v)
        elif isinstance(t, (ast.Tuple, ast.List)):
            if isinstance(v, Sym):
                raise Unsupported("unpacking a symbolic value")
            items = list(self.iterate(v))
            star = [i for i, e in enumerate(t.elts) if isinstance(e, ast.Starred)]
            if star:
                i = star[0]
                after = len(t.elts) - i - 1
                if len(items) < len(t.elts) - 1:
                    raise ValueError("not enough values to unpack")
                for e, x in zip(t.elts[:i], items[:i]):
                    self.assign(e, x, fr)
                self.assign(t.elts[i].value, items[i:len(items) - after], fr)
                for e, x in zip(t.elts[i + 1:], items[len(items) - after:]):
                    self.assign(e, x, fr)
            else:
                if len(items) != len(t.elts):
                    raise ValueError("%s values to unpack (expected %d, got %d)" % (
                        "too many" if len(items) > len(t.elts) else "not enough", len(t.elts), len(items)))
                for e, x in zip(t.elts, items):
                    self.assign(e, x, fr)
        elif isinstance(t, ast.Starred):
            self.assign(t.value, v, fr)
        else:
            raise Unsupported("assignment target %s" % type(t).__name__)

    def x_Delete(self, node, fr):
        for t in node.targets:
            if isinstance(t, ast.Name):
                if t.id in fr.locals:
                    del fr.locals[t.id]
                else:
                    raise NameError(t.id)
            elif isinstance(t, ast.Attribute):
                obj = self.eval(t.value, fr)
                if self.store_hook is not None:
                    self.store_hook('delattr', obj, t.attr, None)
                delattr(obj, self.mangle(t.attr, fr))
            elif isinstance(t, ast.Subscript):
                self.delitem(self.eval(t.value, fr), self.eval_index(t.slice, fr))
            else:
                raise Unsupported("del target")

    def x_If(self, node, fr):
        if self.truthy(self.eval(node.test, fr)):
            self.exec_block(node.body, fr)
        else:
            self.exec_block(node.orelse, fr)

    def x_Assert(self, node, fr):
        if not self.truthy(self.eval(node.test, fr)):
            if node.msg is not None:
                raise AssertionError(self.eval(node.msg, fr))
            raise AssertionError()

    def x_Raise(self, node, fr):
        if node.exc is None:
            if not self.exc_stack:
                raise RuntimeError("No active exception to reraise")
            raise self.exc_stack[-1]
        e = self.eval(node.exc, fr)
        if isinstance(e, type):
            e = self.call(e, (), {})
        if node.cause is not None:
            c = self.eval(node.cause, fr)
            if isinstance(c, type):
                c = self.call(c, (), {})
            raise e from c
        raise e

    def exc_match(self, e, spec):
        if isinstance(spec, tuple):
            return any(self.exc_match(e, s) for s in spec)
        return isinstance(e, spec)

    def x_Try(self, node, fr):
        try:
            try:
                self.exec_block(node.body, fr)
            except ControlSignal:
                raise
            except BaseException as e:
                if _engine_exc(e):
                    raise
                for h in node.handlers:
                    if h.type is None or self.exc_match(e, self.eval(h.type, fr)):
                        if h.name:
                            self.store(h.name, e, fr)
                        self.exc_stack.append(e)
                        try:
                            self.exec_block(h.body, fr)
                        finally:
                            self.exc_stack.pop()
                            if h.name:
                                fr.locals.pop(h.name, None)
                        break
                else:
                    raise
            else:
                self.exec_block(node.orelse, fr)
        except BaseException as e:
            if _engine_exc(e):
                raise
            if node.finalbody:
                self.exc_stack.append(e)
                try:
                    self.exec_block(node.finalbody, fr)
                finally:
                    self.exc_stack.pop()
            raise
        else:
            if node.finalbody:
                self.exec_block(node.finalbody, fr)

    def x_With(self, node, fr):
        self._with(node.items, node.body, fr)

    def _with(self, items, body, fr):
        if not items:
            self.exec_block(body, fr)
            return
        it = items[0]
        mgr = self.eval(it.context_expr, fr)
        enter = self.getattr(type(mgr), '__enter__')
        exit_ = self.getattr(type(mgr), '__exit__')
        v = self.call(enter, (mgr,), {})
        if it.optional_vars is not None:
            self.assign(it.optional_vars, v, fr)
        try:
            self._with(items[1:], body, fr)
        except ControlSignal:
            self.call(exit_, (mgr, None, None, None), {})
            raise
        except BaseException as e:
            if _engine_exc(e):
                raise
            if not self.truthy(self.call(exit_, (mgr, type(e), e, e.__traceback__), {})):
                raise
        else:
            self.call(exit_, (mgr, None, None, None), {})

    def find_loop_spec(self, node, fr):
        if not self.loop_specs:
            return None, None
        q = fr.info.qualname if fr.info is not None else '?'
        if isinstance(node, ast.While):
            key = 'while ' + ast.unparse(node.test)
        else:
            key = 'for %s in %s' % (ast.unparse(node.target), ast.unparse(node.iter))
        for k in ((q, key), (q.split('.')[-1], key)):
            if k in self.loop_specs:
                return self.loop_specs[k], "%s#%s" % (q, key)
        return None, None

    def x_While(self, node, fr):
        spec, lid = self.find_loop_spec(node, fr)
        if spec is not None:
            return self.while_invariant(node, fr, spec, lid)
        n = 0
        while True:
            t = self.eval(node.test, fr)
            symbolic = isinstance(t, Sym)
            if not self.truthy(t):
                self.exec_block(node.orelse, fr)
                return
            if symbolic:
                n += 1
                if n > self.max_unroll:
                    raise Unsupported("symbolic loop without invariant exceeded unrolling bound")
            try:
                self.exec_block(node.body, fr)
            except _Break:
                return
            except _Continue:
                continue

    def _havoc_like(self, name, cur):
        c = self.ctx
        if isinstance(cur, SBool) or isinstance(cur, bool):
            return c.bool(name + "'", declare=False)
        if isinstance(cur, SInt) or isinstance(cur, int):
            return c.int(name + "'", declare=False)
        if isinstance(cur, SReal):
            return c.real(name + "'", declare=False)
        if isinstance(cur, SBytes) or isinstance(cur, bytes):
            return c.bytes(name + "'", declare=False)
        if isinstance(cur, SStr) or isinstance(cur, str):
            return c.str(name + "'", declare=False)
        raise Unsupported("cannot havoc loop variable %s of kind %s" % (name, type(cur).__name__))

    def while_invariant(self, node, fr, spec, lid):
        ctx = self.ctx
        env = Env(self, fr)
        ctx.check("loop[%s].init" % lid, spec.invariant(env))
        for nm in spec.modifies:
            cur = fr.locals.get(nm, _MISSING)
            if cur is _MISSING:
                raise Unsupported("loop variable %s not bound before the loop" % nm)
            fr.locals[nm] = self._havoc_like(nm, cur)
        for nm in spec.ghost_modifies:
            ctx.ghost[nm] = self._havoc_like('ghost_' + nm, ctx.ghost[nm])
        ctx.assume(spec.invariant(env))
        t = self.eval(node.test, fr)
        if self.truthy(t):
            v0 = spec.variant(env) if spec.variant is not None else None
            try:
                self.exec_block(node.body, fr)
            except _Break:
                return
            except _Continue:
                pass
            ctx.check("loop[%s].preserve" % lid, spec.invariant(env))
            if v0 is not None:
                v1 = spec.variant(env)
                ctx.check("loop[%s].variant" % lid, S.And(v0 >= 0, v1 < v0))
            raise PathAbort("loop cut point")
        else:
            self.exec_block(node.orelse, fr)

    def x_For(self, node, fr):
        itv = self.eval(node.iter, fr)
        spec, lid = self.find_loop_spec(node, fr)
        if spec is not None:
            return spec.run_for(self, node, fr, itv, lid)
        it = self.iterate(itv)
        while True:
            try:
                x = next(it)
            except StopIteration:
                break
            self.assign(node.target, x, fr)
            try:
                self.exec_block(node.body, fr)
            except _Break:
                return
            except _Continue:
                continue
        self.exec_block(node.orelse, fr)

    def x_FunctionDef(self, node, fr):
        f = self.make_func(node, fr, node.name)
        for d in reversed(node.decorator_list):
            f = self.call(self.eval(d, fr), (f,), {})
        self.store(node.name, f, fr)

    def make_func(self, node, fr, name):
        a = node.args
        defaults = tuple(self.eval(d, fr) for d in a.defaults)
        kwdefaults = {}
        for arg, d in zip(a.kwonlyargs, a.kw_defaults):
            if d is not None:
                kwdefaults[arg.arg] = self.eval(d, fr)
        return IFunc(self, node, fr, defaults, kwdefaults, name, fr.info)

    def x_ClassDef(self, node, fr):
        bases = tuple(self.eval(b, fr) for b in node.bases)
        kw = {k.arg: self.eval(k.value, fr) for k in node.keywords}
        meta = kw.pop('metaclass', None)
        if meta is None:
            meta = type
            for b in bases:
                mb = type(b)
                if issubclass(mb, meta):
                    meta = mb
        prep = getattr(meta, '__prepare__', None)
        ns = self.call(prep, (node.name, bases), kw) if prep is not None else {}
        cfr = Frame(fr.globals, fr, None, node.name, fr.info, locals_=ns, is_class=True)
        ns['__module__'] = fr.globals.get('__name__')
        qn = node.name
        ns['__qualname__'] = qn
        self.exec_block(node.body, cfr)
        cls = self.call(meta, (node.name, bases, ns), kw)
        for d in reversed(node.decorator_list):
            cls = self.call(self.eval(d, fr), (cls,), {})
        self.store(node.name, cls, fr)

    def x_Import(self, node, fr):
        for al in node.names:
            mod = __import__(al.name, fr.globals, None, (), 0)
            if al.asname:
                for part in al.name.split('.')[1:]:
                    mod = getattr(mod, part)
                self.store(al.asname, mod, fr)
            else:
                self.store(al.name.split('.')[0], mod, fr)

    def x_ImportFrom(self, node, fr):
        mod = __import__(node.module or '', fr.globals, None, [a.name for a in node.names],
                         node.level)
        for al in node.names:
            if al.name == '*':
                raise Unsupported("import *")
            try:
                v = getattr(mod, al.name)
            except AttributeError:
                raise ImportError("cannot import name %r" % al.name)
            self.store(al.asname or al.name, v, fr)

    # ------------------------------------------------------------------ expressions
    def eval(self, node, fr):
        m = getattr(self, 'e_' + type(node).__name__, None)
        if m is None:
            raise Unsupported("expression %s" % type(node).__name__)
        return m(node, fr)

    def e_Constant(self, node, fr):
        return node.value

    def e_Name(self, node, fr):
        return self.lookup(self.mangle(node.id, fr) if node.id.startswith('__') else node.id, fr)

    def e_Attribute(self, node, fr):
        return self.getattr(self.eval(node.value, fr), self.mangle(node.attr, fr))

    def eval_index(self, sl, fr):
        return self.eval(sl, fr)

    def e_Slice(self, node, fr):
        lo = self.eval(node.lower, fr) if node.lower is not None else None
        hi = self.eval(node.upper, fr) if node.upper is not None else None
        st = self.eval(node.step, fr) if node.step is not None else None
        if isinstance(lo, Sym) or isinstance(hi, Sym) or isinstance(st, Sym):
            return SymSlice(lo, hi, st)
        return slice(lo, hi, st)

    def e_Subscript(self, node, fr):
        return self.getitem(self.eval(node.value, fr), self.eval_index(node.slice, fr))

    def e_Tuple(self, node, fr):
        return tuple(self._elts(node.elts, fr))

    def e_List(self, node, fr):
        return list(self._elts(node.elts, fr))

    def e_Set(self, node, fr):
        items = self._elts(node.elts, fr)
        if any(isinstance(x, Sym) for x in items):
            raise Unsupported("set display with symbolic element")
        return set(items)

    def _elts(self, elts, fr):
        out = []
        for e in elts:
            if isinstance(e, ast.Starred):
                out.extend(self.iterate(self.eval(e.value, fr)))
            else:
                out.append(self.eval(e, fr))
        return out

    def e_Dict(self, node, fr):
        d = {}
        for k, v in zip(node.keys, node.values):
            if k is None:
                d.update(self.eval(v, fr))
            else:
                kk = self.eval(k, fr)
                if isinstance(kk, Sym):
                    raise Unsupported("dict display with symbolic key")
                d[kk] = self.eval(v, fr)
        return d

    def e_BoolOp(self, node, fr):
        is_and = isinstance(node.op, ast.And)
        v = None
        for i, e in enumerate(node.values):
            v = self.eval(e, fr)
            if i == len(node.values) - 1:
                return v
            t = self.truthy(v)
            if is_and and not t:
                return False if isinstance(v, SBool) else v
            if (not is_and) and t:
                return True if isinstance(v, SBool) else v
        return v

    def e_UnaryOp(self, node, fr):
        return self.unaryop(node.op, self.eval(node.operand, fr))

    def e_BinOp(self, node, fr):
        return self.binop(node.op, self.eval(node.left, fr), self.eval(node.right, fr))

    def e_Compare(self, node, fr):
        left = self.eval(node.left, fr)
        n = len(node.ops)
        for i, (op, rn) in enumerate(zip(node.ops, node.comparators)):
            right = self.eval(rn, fr)
            r = self.compare(op, left, right)
            if i == n - 1:
                return r
            if not self.truthy(r):
                return False if isinstance(r, SBool) else r
            left = right
        return r

    def e_IfExp(self, node, fr):
        if self.truthy(self.eval(node.test, fr)):
            return self.eval(node.body, fr)
        return self.eval(node.orelse, fr)

    def e_NamedExpr(self, node, fr):
        v = self.eval(node.value, fr)
        self.store(node.target.id, v, fr)
        return v

    def e_Lambda(self, node, fr):
        return self.make_func(node, fr, '<lambda>')

    def e_JoinedStr(self, node, fr):
        parts = []
        for v in node.values:
            if isinstance(v, ast.Constant):
                parts.append(v.value)
            else:
                x = self.eval(v.value, fr)
                if isinstance(x, Sym):
                    raise Unsupported("f-string with symbolic value")
                if v.conversion == ord('r'):
                    x = repr(x)
                elif v.conversion == ord('s'):
                    x = str(x)
                spec = self.eval(v.format_spec, fr) if v.format_spec is not None else ''
                parts.append(format(x, spec))
        return ''.join(parts)

    def e_Starred(self, node, fr):
        raise Unsupported("starred expression here")

    def e_Call(self, node, fr):
        fnode = node.func
        # zero-argument super()
        if isinstance(fnode, ast.Name) and fnode.id == 'super' and not node.args and not node.keywords:
            sup = self.lookup('super', fr)
            if sup is builtins.super:
                f = fr
                while f is not None and f.fn_obj is None:
                    f = f.parent
                klass = None
                ff = fr
                while ff is not None:
                    if '__class__' in ff.cells:
                        klass = ff.cells['__class__'].cell_contents
                        break
                    ff = ff.parent
                if klass is None or f is None or not f.argnames:
                    raise Unsupported("zero-argument super() without __class__ cell")
                return super(klass, f.locals[f.argnames[0]])
        fn = self.eval(fnode, fr)
        args = []
        for a in node.args:
            if isinstance(a, ast.Starred):
                args.extend(self.iterate(self.eval(a.value, fr)))
            else:
                args.append(self.eval(a, fr))
        kwargs = {}
        for k in node.keywords:
            if k.arg is None:
                kwargs.update(self.eval(k.value, fr))
            else:
                kwargs[k.arg] = self.eval(k.value, fr)
        if fn is builtins.locals and not args:
            return fr.locals
        if fn is builtins.globals and not args:
            return fr.globals
        return self.call(fn, args, kwargs)

    def _comp(self, gens, fr, emit, i=0):
        if i == len(gens):
            emit(fr)
            return
        g = gens[i]
        it = self.iterate(self.eval(g.iter, fr))
        for x in it:
            self.assign(g.target, x, fr)
            ok = True
            for c in g.ifs:
                if not self.truthy(self.eval(c, fr)):
                    ok = False
                    break
            if ok:
                self._comp(gens, fr, emit, i + 1)

    def _comp_frame(self, fr):
        return Frame(fr.globals, fr, None, fr.cls_name, fr.info)

    def e_ListComp(self, node, fr):
        out = []
        self._comp(node.generators, self._comp_frame(fr), lambda f: out.append(self.eval(node.elt, f)))
        return out

    def e_SetComp(self, node, fr):
        out = []
        self._comp(node.generators, self._comp_frame(fr), lambda f: out.append(self.eval(node.elt, f)))
        if any(isinstance(x, Sym) for x in out):
            raise Unsupported("set comprehension with symbolic element")
        return set(out)

    def e_DictComp(self, node, fr):
        out = {}

        def emit(f):
            k = self.eval(node.key, f)
            if isinstance(k, Sym):
                raise Unsupported("dict comprehension with symbolic key")
            out[k] = self.eval(node.value, f)
        self._comp(node.generators, self._comp_frame(fr), emit)
        return out

    def e_GeneratorExp(self, node, fr):
        # evaluated eagerly: the generator expressions in the carriers are consumed at once
        out = []
        self._comp(node.generators, self._comp_frame(fr), lambda f: out.append(self.eval(node.elt, f)))
        return iter(out)

    def _cur_gen(self, fr):
        f = fr
        while f is not None:
            if '__yield_hook__' in f.locals:
                return ('hook', f.locals['__yield_hook__'])
            if '__igen__' in f.locals:
                return ('gen', f.locals['__igen__'])
            if f.fn_obj is not None:
                break
            f = f.parent
        raise Unsupported("yield outside a generator frame")

    def e_Yield(self, node, fr):
        v = self.eval(node.value, fr) if node.value is not None else None
        kind, g = self._cur_gen(fr)
        if kind == 'hook':
            return g(v)
        return g.do_yield(v)

    def e_YieldFrom(self, node, fr):
        src = self.eval(node.value, fr)
        kind, g = self._cur_gen(fr)
        it = self.iterate(src)
        ret = None
        while True:
            try:
                x = next(it)
            except StopIteration as e:
                ret = e.value
                break
            if kind == 'hook':
                g(x)
            else:
                g.do_yield(x)
        return ret

    def cleanup(self):
        for g in self.live_gens:
            g.kill()
        self.live_gens = []


def _has_yield(node):
    body = node.body if isinstance(node.body, list) else [node.body]
    stack = list(body)
    while stack:
        n = stack.pop()
        if isinstance(n, (ast.Yield, ast.YieldFrom)):
            return True
        if isinstance(n, (ast.FunctionDef, ast.AsyncFunctionDef, ast.Lambda, ast.ClassDef)):
            continue
        stack.extend(ast.iter_child_nodes(n))
    return False


def _is_symbolic(a):
    return isinstance(a, (Sym, FmtStr, SymSeq, SymSlice, SymMap)) or (getattr(type(a), '_pyvc_model', False) is True)


def _has_sym(args, kwargs):
    import collections
    for a in list(args) + list(kwargs.values()):
        if _is_symbolic(a):
            return True
        if type(a) in (list, tuple, collections.deque) and len(a) <= 64 and any(_is_symbolic(x) for x in a):
            return True
        if type(a) is dict and len(a) <= 64 and any(_is_symbolic(x) for x in a.values()):
            return True
    return False


def _fn_name(fn):
    return getattr(fn, '__qualname__', None) or getattr(fn, '__name__', None) or repr(fn)


class SymSlice(object):
    def __init__(self, lo, hi, st):
        self.lo, self.hi, self.st = lo, hi, st


class BoundModel(object):
    def __init__(self, interp, f, obj, name):
        self.interp, self.f, self.obj, self.name = interp, f, obj, name

    def __call__(self, *a, **k):
        return self.f(self.interp, self.obj, *a, **k)


from .text import FmtStr, fmt_binop, fmt_compare, SymSeq, sym_getattr, sym_getitem  # noqa: E402
from .models import BUILTIN_MODELS, METHOD_MODELS  # noqa: E402
from .symmap import SymMap, map_getattr, map_getitem, map_setitem, map_contains  # noqa: E402
