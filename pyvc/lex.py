"""Lexical layer: decimal lengths of token strings, int()/float() of described text (DESIGN 2.7)."""
import z3

from . import sym as S
from .sym import Sym, SInt, SBool, SReal, SStr, SBytes, Unsupported
from .text import FmtStr, Lit, Dec, Emb

MAX_DIGITS = 40


def declen(interp, t, minwidth=0):
    """Length of the decimal rendering of integer term t (with '-' for negatives, left-padded to
    minwidth).  A fresh Int constrained exactly for |t| < 10**MAX_DIGITS and from below beyond."""
    ctx = interp.ctx
    d = ctx.int('ndigits', declare=False).t
    a = z3.If(t >= 0, t, -t)
    cs = [d >= 1]
    for k in range(1, MAX_DIGITS + 1):
        cs.append((a < 10 ** k) == (d <= k))
    ctx.assume(z3.And(*cs))
    raw = d + z3.If(t < 0, 1, 0)
    if minwidth:
        raw = z3.If(raw < minwidth, z3.IntVal(minwidth), raw)
    return raw


def fmt_len(interp, v):
    total = z3.IntVal(0)
    for tok in v.tokens:
        if isinstance(tok, Lit):
            total = total + len(tok.text)
        elif isinstance(tok, Dec):
            total = total + declen(interp, tok.term, tok.minwidth)
        elif isinstance(tok, Emb):
            total = total + z3.Length(tok.s.t)
        else:
            raise Unsupported("len() of token %r" % (tok,))
    return SInt(z3.simplify(total))


def lex_int(interp, v):
    if isinstance(v, FmtStr):
        toks = v.tokens
        if len(toks) == 1 and isinstance(toks[0], Dec):
            # int(str(n)) == n  (assumed inverse pair of CPython, DESIGN 2.8); padding zeros are accepted
            return SInt(toks[0].term)
        if len(toks) == 2 and isinstance(toks[0], Lit) and toks[0].text in ('-', '+') and \
                isinstance(toks[1], Dec):
            # "-" followed by the rendering of a non-negative number
            if interp.ctx.branch(toks[1].term >= 0):
                return SInt(-toks[1].term if toks[0].text == '-' else toks[1].term)
            raise ValueError("invalid literal for int() with base 10")
        raise Unsupported("int() of token string %r" % (v,))
    from .regexmodel import LexGroup
    if isinstance(v, LexGroup):
        return v.to_int(interp)
    if isinstance(v, SStr):
        raise Unsupported("int() of an unconstrained symbolic string")
    raise Unsupported("int() of %r" % (v,))


def lex_float(interp, v):
    from .regexmodel import LexGroup
    if isinstance(v, LexGroup):
        return v.to_float(interp)
    if isinstance(v, SInt):
        # float(n) for an integer used only in comparisons and %i formatting: exact below 2**53.
        interp.ctx.check('float.exact_int', S.And(v > -2 ** 53, v < 2 ** 53))
        return v
    raise Unsupported("float() of %r" % (v,))


def lex_round(interp, v, nd):
    from .regexmodel import FracFloat
    if isinstance(v, FracFloat):
        return v.round(interp, nd)
    raise Unsupported("round() of %r" % (v,))


def minmax_special(interp, args, want_min):
    return None
