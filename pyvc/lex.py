"""Lexical layer: digit-group records for regex-described inputs and decimal lengths (DESIGN 2.7)."""
import z3

from . import sym as S
from .sym import Sym, SInt, SBool, SReal, SStr, SBytes, Unsupported


def fmt_len(interp, v):
    raise Unsupported("len() of a token string")


def lex_int(interp, v):
    raise Unsupported("int() of %r" % (v,))


def lex_float(interp, v):
    raise Unsupported("float() of %r" % (v,))


def lex_round(interp, v, nd):
    raise Unsupported("round() of %r" % (v,))


def minmax_special(interp, args, want_min):
    return None
