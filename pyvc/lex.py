"""Lexical layer: decimal lengths of token strings, int()/float()/Decimal() of token strings (DESIGN 2.7)."""
import z3

from . import sym as S
from .sym import Sym, SInt, SBool, SReal, SStr, SBytes, Unsupported
from .text import FmtStr, Lit, Dec, Emb

MAX_DIGITS = 40


def declen(interp, t, minwidth=0):
    """Length of the decimal rendering of integer term t (with '-' for negatives, left-padded to
    minwidth).  A fresh Int constrained exactly for |t| < 10**MAX_DIGITS and from below beyond."""
    ctx = interp.ctx
    d = ctx.int('ndigits', declare=False).t
    a = z3.If(t >= 0, t, -t)
    cs = [d >= 1]
    for k in range(1, MAX_DIGITS + 1):
        cs.append((a < 10 ** k) == (d <= k))
    ctx.assume(z3.And(*cs))
    raw = d + z3.If(t < 0, 1, 0)
    if minwidth:
        raw = z3.If(raw < minwidth, z3.IntVal(minwidth), raw)
    return raw


def fmt_len(interp, v):
    total = z3.IntVal(0)
    for tok in v.tokens:
        if isinstance(tok, Lit):
            total = total + len(tok.text)
        elif isinstance(tok, Dec):
            total = total + declen(interp, tok.term, tok.minwidth)
        elif isinstance(tok, Emb):
            total = total + z3.Length(tok.s.t)
        else:
            raise Unsupported("len() of token %r" % (tok,))
    return SInt(z3.simplify(total))


def _fixed_width(interp, tok):
    if tok.zero and tok.minwidth > 0:
        if interp.ctx.branch(z3.And(tok.term >= 0, tok.term < 10 ** tok.minwidth)):
            return tok.minwidth
    return None


def tokens_to_int(interp, toks):
    """Value denoted by a digits-only token list (literal digits, zero-padded fields, one plain number)."""
    acc = None      # None = nothing yet; else z3 term
    started = False
    for tok in toks:
        if isinstance(tok, Lit):
            if not tok.text.isdigit() or not tok.text.isascii():
                raise ValueError("invalid literal for int() with base 10: %r" % (tok.text,))
            v = int(tok.text)
            acc = z3.IntVal(v) if acc is None else acc * 10 ** len(tok.text) + v
        elif isinstance(tok, Dec):
            if not interp.ctx.branch(tok.term >= 0):
                if acc is None and not tok.zero:
                    return SInt(tok.term)     # a plain negative rendering: '-ddd'
                raise ValueError("invalid literal for int() with base 10")
            w = _fixed_width(interp, tok)
            if acc is None:
                acc = tok.term
            elif w is not None:
                acc = acc * 10 ** w + tok.term
            else:
                # digits followed by a number of unknown width: only decidable when the prefix is all zeros
                if z3.is_int_value(z3.simplify(acc)) and z3.simplify(acc).as_long() == 0:
                    acc = tok.term
                else:
                    raise Unsupported("int() of digits followed by a number of unknown width")
        else:
            raise Unsupported("int() of token %r" % (tok,))
    if acc is None:
        raise ValueError("invalid literal for int() with base 10: ''")
    return SInt(z3.simplify(acc))


def lex_int(interp, v):
    if isinstance(v, FmtStr):
        toks = list(v.tokens)
        sign = 1
        if toks and isinstance(toks[0], Lit) and toks[0].text[:1] in ('-', '+'):
            sign = -1 if toks[0].text[0] == '-' else 1
            rest = toks[0].text[1:]
            toks = ([Lit(rest)] if rest else []) + toks[1:]
            if toks and isinstance(toks[0], Dec) and not interp.ctx.branch(toks[0].term >= 0):
                raise ValueError("invalid literal for int() with base 10")
        val = tokens_to_int(interp, toks)
        return SInt(-val.t) if sign < 0 else val
    if isinstance(v, SStr):
        # an arbitrary string: either it denotes some integer, or int() raises ValueError (assumed raise-set)
        if interp.ctx.choose(2, 'int(str)_succeeds'):
            return interp.ctx.int('int_of_str', declare=False)
        raise ValueError("invalid literal for int() with base 10")
    raise Unsupported("int() of %r" % (v,))


class FracFloat(object):
    """float of a decimal literal [int].[frac of `width` digits]; exact value int + frac / 10**width."""
    pytype = float
    _pyvc_model = True

    def __init__(self, intpart, frac, width, scale=0, rounded=False):
        self.intpart, self.frac, self.width, self.scale, self.rounded = intpart, frac, width, scale, rounded

    def __bool__(self):
        raise S.SymbolicLeak("truth of a symbolic float")

    def pyvc_binop(self, interp, op, other, reflected):
        import ast
        if isinstance(op, ast.Mult) and isinstance(other, (int, float)) and not self.rounded and self.scale == 0:
            for k in (3, 6):
                if other == 10 ** k:
                    return FracFloat(self.intpart, self.frac, self.width, k)
        raise Unsupported("float arithmetic %s on a decimal-literal float" % type(op).__name__)

    def round(self, interp, nd):
        if nd is not None:
            raise Unsupported("round(x, n) of a decimal-literal float")
        return FracFloat(self.intpart, self.frac, self.width, self.scale, True)

    def to_int(self, interp):
        """int(round(float('.ddd') * 10**k)) == ddd * 10**(k-w) for w <= k: finite lemma C08.finite.frac_round."""
        if self.rounded and self.width <= self.scale and self.intpart is None:
            interp.ctx.note("finite lemma frac_round used (width %d, scale %d)" % (self.width, self.scale))
            return SInt(z3.simplify(self.frac * 10 ** (self.scale - self.width)))
        raise Unsupported("int() of a decimal-literal float outside the finite lemma (width %d, scale %d, rounded %s)" % (
            self.width, self.scale, self.rounded))


def lex_float(interp, v):
    if isinstance(v, SInt):
        # float(n) for an integer used only in comparisons and %i formatting: exact below 2**53.
        interp.ctx.check('float.exact_int', S.And(v > -2 ** 53, v < 2 ** 53))
        return v
    if isinstance(v, FmtStr):
        toks = list(v.tokens)
        # split at the '.'
        for i, t in enumerate(toks):
            if isinstance(t, Lit) and '.' in t.text:
                a, b = t.text.split('.', 1)
                left = toks[:i] + ([Lit(a)] if a else [])
                right = ([Lit(b)] if b else []) + toks[i + 1:]
                ip = tokens_to_int(interp, left).t if left else None
                if len(right) == 1 and isinstance(right[0], Dec):
                    w = _fixed_width(interp, right[0])
                    if w is None:
                        raise Unsupported("float() of a fraction of unknown width")
                    return FracFloat(ip, right[0].term, w)
                if len(right) == 1 and isinstance(right[0], Lit) and right[0].text.isdigit():
                    return FracFloat(ip, z3.IntVal(int(right[0].text)), len(right[0].text))
                raise Unsupported("float() of %r" % (v,))
        return tokens_to_int(interp, toks)
    if isinstance(v, SStr):
        # arbitrary text: float() succeeds with some float, or raises ValueError (assumed raise-set)
        if interp.ctx.choose(2, 'float(str)_succeeds'):
            return S.SOpaque(interp.ctx._fresh_name('float_of_str'), float)
        raise ValueError("could not convert string to float")
    raise Unsupported("float() of %r" % (v,))


def lex_decimal(interp, v):
    """Decimal(text) for a token string 'i' or 'i.f': the exact rational i + f/10**w."""
    if isinstance(v, FmtStr):
        toks = list(v.tokens)
        for i, t in enumerate(toks):
            if isinstance(t, Lit) and '.' in t.text:
                a, b = t.text.split('.', 1)
                left = toks[:i] + ([Lit(a)] if a else [])
                right = ([Lit(b)] if b else []) + toks[i + 1:]
                ip = tokens_to_int(interp, left).t if left else z3.IntVal(0)
                if len(right) == 1 and isinstance(right[0], Dec):
                    w = _fixed_width(interp, right[0])
                    if w is None:
                        raise Unsupported("Decimal() of a fraction of unknown width")
                    return SReal(z3.ToReal(ip) + z3.ToReal(right[0].term) / (10 ** w))
                raise Unsupported("Decimal() of %r" % (v,))
        return tokens_to_int(interp, toks)
    raise Unsupported("Decimal() of %r" % (v,))


def lex_round(interp, v, nd):
    if isinstance(v, FracFloat):
        return v.round(interp, nd)
    if isinstance(v, SInt) and nd is None:
        return v
    raise Unsupported("round() of %r" % (v,))


def minmax_special(interp, args, want_min):
    return None
