"""Assumed contracts of the datetime / pytz / time modules on symbolic field values (DESIGN 2.8).

Symbolic stand-ins: SymDate, SymTime, SymDateTime, SymTimedelta, SymTz.  Each carries its fields as
SInt terms (or plain ints).  Constructors check CPython's documented ranges and raise ValueError
outside them; isoformat() yields the documented layout as a token string.
"""
import datetime as _dt
import time as _time

import pytz
import z3

from . import sym as S
from .sym import Sym, SInt, SBool, Unsupported
from .text import FmtStr, Lit, Dec


def _t(v):
    if isinstance(v, SInt):
        return v.t
    if isinstance(v, S.SBool):
        return S._num_term(v)[0]
    if isinstance(v, bool):
        return z3.IntVal(int(v))
    if isinstance(v, int):
        return z3.IntVal(v)
    raise Unsupported("non-integer %r where an integer field is needed" % (v,))


def _w(t):
    t = z3.simplify(t)
    if z3.is_int_value(t):
        return t.as_long()
    return SInt(t)


def is_leap(y):
    return z3.And(y % 4 == 0, z3.Or(y % 100 != 0, y % 400 == 0))


def days_in_month(y, m):
    return z3.If(m == 2, z3.If(is_leap(y), 29, 28),
                 z3.If(z3.Or(m == 4, m == 6, m == 9, m == 11), 30, 31))


def date_ok(y, m, d):
    return z3.And(y >= 1, y <= 9999, m >= 1, m <= 12, d >= 1, d <= days_in_month(y, m))


def time_ok(h, mi, s, us):
    return z3.And(h >= 0, h <= 23, mi >= 0, mi <= 59, s >= 0, s <= 59, us >= 0, us <= 999999)


class Model(object):
    """Marker: a symbolic stand-in for a stdlib object; `pytype` is the class it stands for."""
    _pyvc_model = True

    def __bool__(self):
        return True


class SymTz(Model):
    pytype = _dt.tzinfo

    def __init__(self, minutes):
        self.minutes = minutes      # SInt or int: UTC offset in minutes

    def utcoffset(self, dt=None):
        return SymTimedelta.from_total_us(_t(self.minutes) * 60000000)

    def __repr__(self):
        return "SymTz(%r)" % (self.minutes,)


def tz_minutes(tz):
    """UTC offset in minutes of a tzinfo (symbolic or real fixed-offset), or None."""
    if tz is None:
        return None
    if isinstance(tz, SymTz):
        return tz.minutes
    if tz is pytz.utc or tz is _dt.timezone.utc:
        return 0
    off = tz.utcoffset(None)
    if off is None:
        raise Unsupported("tzinfo %r without a fixed offset" % (tz,))
    return int(off.total_seconds() // 60)


def _iso_date_tokens(y, m, d):
    return [Dec(_t(y), 4, True), Lit('-'), Dec(_t(m), 2, True), Lit('-'), Dec(_t(d), 2, True)]


def _iso_time_tokens(interp, h, mi, s, us, tz):
    toks = [Dec(_t(h), 2, True), Lit(':'), Dec(_t(mi), 2, True), Lit(':'), Dec(_t(s), 2, True)]
    ust = _t(us)
    if interp.ctx.branch(ust != 0):
        toks += [Lit('.'), Dec(ust, 6, True)]
    off = tz_minutes(tz)
    if off is not None:
        ot = _t(off)
        if interp.ctx.branch(ot < 0):
            toks.append(Lit('-'))
            a = -ot
        else:
            toks.append(Lit('+'))
            a = ot
        toks += [Dec(S.pydiv(a, z3.IntVal(60)), 2, True), Lit(':'), Dec(S.pymod(a, z3.IntVal(60)), 2, True)]
    return toks


def _lex_lt(a, b):
    """a < b lexicographically over equally long tuples of int / z3 terms: a z3 Bool."""
    a0, b0 = _t(a[0]), _t(b[0])
    if len(a) == 1:
        return a0 < b0
    return z3.Or(a0 < b0, z3.And(a0 == b0, _lex_lt(a[1:], b[1:])))


def _lex_eq(a, b):
    return z3.And(*[_t(x) == _t(y) for x, y in zip(a, b)])


def _other_fields(self, other):
    """The comparable fields of `other` (a model or a real stdlib object of the same kind, same zone)."""
    if isinstance(other, Model):
        of, otz = other.fields(), getattr(other, 'tzinfo', None)
        if type(other) is not type(self):
            raise TypeError("can't compare %s to %s" % (self.pytype.__name__, other.pytype.__name__))
    elif isinstance(other, _dt.datetime):
        if not isinstance(self, SymDateTime):
            raise TypeError("can't compare %s to datetime" % self.pytype.__name__)
        of, otz = (other.year, other.month, other.day, other.hour, other.minute, other.second, other.microsecond), other.tzinfo
    elif isinstance(other, _dt.date):
        if type(self) is not SymDate:
            raise TypeError("can't compare datetime.datetime to datetime.date")
        of, otz = (other.year, other.month, other.day), None
    elif isinstance(other, _dt.time):
        if not isinstance(self, SymTime):
            raise TypeError("can't compare")
        of, otz = (other.hour, other.minute, other.second, other.microsecond), other.tzinfo
    else:
        return None
    stz = getattr(self, 'tzinfo', None)
    if (stz is None) != (otz is None):
        raise TypeError("can't compare offset-naive and offset-aware %ss" % self.pytype.__name__)
    if stz is not None:
        a, b = tz_minutes(stz), tz_minutes(otz)
        if isinstance(a, Sym) or isinstance(b, Sym) or a != b:
            raise Unsupported("ordering of %ss in different zones (calendar arithmetic is not modelled)" % self.pytype.__name__)
    return of


class _Ordered(object):
    """Ordering of date/time models by their fields (same zone only): what CPython's comparison computes."""

    def __lt__(self, other):
        of = _other_fields(self, other)
        return NotImplemented if of is None else SBool(_lex_lt(self.fields(), of))

    def __gt__(self, other):
        of = _other_fields(self, other)
        return NotImplemented if of is None else SBool(_lex_lt(of, self.fields()))

    def __le__(self, other):
        of = _other_fields(self, other)
        return NotImplemented if of is None else SBool(z3.Not(_lex_lt(of, self.fields())))

    def __ge__(self, other):
        of = _other_fields(self, other)
        return NotImplemented if of is None else SBool(z3.Not(_lex_lt(self.fields(), of)))


class SymDate(_Ordered, Model):
    pytype = _dt.date

    def __init__(self, year, month, day):
        self.year, self.month, self.day = year, month, day

    def m_isoformat(self, interp):
        return FmtStr(_iso_date_tokens(self.year, self.month, self.day), str)

    def fields(self):
        return (self.year, self.month, self.day)


class SymTime(_Ordered, Model):
    pytype = _dt.time

    def __init__(self, hour=0, minute=0, second=0, microsecond=0, tzinfo=None):
        self.hour, self.minute, self.second, self.microsecond, self.tzinfo = hour, minute, second, microsecond, tzinfo

    def m_isoformat(self, interp):
        return FmtStr(_iso_time_tokens(interp, self.hour, self.minute, self.second, self.microsecond, self.tzinfo), str)

    def fields(self):
        return (self.hour, self.minute, self.second, self.microsecond)


class SymDateTime(SymDate):
    pytype = _dt.datetime

    def __init__(self, year, month, day, hour=0, minute=0, second=0, microsecond=0, tzinfo=None):
        SymDate.__init__(self, year, month, day)
        self.hour, self.minute, self.second, self.microsecond, self.tzinfo = hour, minute, second, microsecond, tzinfo

    def m_isoformat(self, interp, sep='T'):
        toks = _iso_date_tokens(self.year, self.month, self.day) + [Lit(sep)] + _iso_time_tokens(
            interp, self.hour, self.minute, self.second, self.microsecond, self.tzinfo)
        return FmtStr(toks, str)

    def m_replace(self, interp, **kw):
        f = dict(year=self.year, month=self.month, day=self.day, hour=self.hour, minute=self.minute, second=self.second,
                 microsecond=self.microsecond, tzinfo=self.tzinfo)
        if set(kw) - {'tzinfo'}:
            raise Unsupported("datetime.replace of %r" % sorted(kw))
        f.update(kw)
        return SymDateTime(**f)

    def m_date(self, interp):
        return SymDate(self.year, self.month, self.day)

    def m_time(self, interp):
        return SymTime(self.hour, self.minute, self.second, self.microsecond)

    def m_astimezone(self, interp, tz=None):
        if tz is None:
            raise Unsupported("astimezone() to the local zone")
        if self.tzinfo is None:
            raise Unsupported("astimezone() of a naive datetime")
        raise Unsupported("astimezone() on symbolic fields (calendar arithmetic is not modelled)")

    def fields(self):
        return (self.year, self.month, self.day, self.hour, self.minute, self.second, self.microsecond)


class SymTimedelta(Model):
    """Normalised like CPython: 0 <= seconds < 86400, 0 <= microseconds < 10**6, days any integer."""
    pytype = _dt.timedelta

    def __init__(self, days, seconds, microseconds):
        self.days, self.seconds, self.microseconds = days, seconds, microseconds

    @staticmethod
    def from_total_us(total):
        us = S.pymod(total, z3.IntVal(1000000))
        rest = S.pydiv(total, z3.IntVal(1000000))
        sec = S.pymod(rest, z3.IntVal(86400))
        days = S.pydiv(rest, z3.IntVal(86400))
        return SymTimedelta(_w(days), _w(sec), _w(us))

    def total_us(self):
        return (_t(self.days) * 86400 + _t(self.seconds)) * 1000000 + _t(self.microseconds)

    def m_total_seconds(self, interp):
        return TotalSeconds(self)

    def _ranged(self, interp, td):
        if not interp.ctx.branch(z3.And(_t(td.days) >= -999999999, _t(td.days) <= 999999999)):
            raise OverflowError("days out of range for timedelta")
        return td

    def pyvc_unary(self, interp, op):
        import ast
        if isinstance(op, ast.USub):
            return self._ranged(interp, td_neg(self))
        if isinstance(op, ast.UAdd):
            return self
        raise Unsupported("unary operator on timedelta")

    def pyvc_binop(self, interp, op, other, reflected):
        import ast
        if isinstance(op, ast.Mult) and isinstance(other, (int, SInt)) and not isinstance(other, bool):
            return self._ranged(interp, td_mul(self, other))
        raise Unsupported("timedelta arithmetic %s" % type(op).__name__)


class TotalSeconds(Model):
    """timedelta.total_seconds(): a float; only int() of it is modelled (truncation toward zero)."""
    pytype = float

    def __init__(self, td):
        self.td = td

    def to_int(self, interp):
        tot = self.td.total_us()
        # exact below 2**53 microseconds-worth of seconds; int() truncates toward zero
        interp.ctx.check('float.total_seconds_exact', S.SBool(z3.And(tot > -2 ** 52 * 1000, tot < 2 ** 52 * 1000)))
        q = z3.If(tot >= 0, S.pydiv(tot, z3.IntVal(1000000)), -S.pydiv(-tot, z3.IntVal(1000000)))
        return _w(q)


# ------------------------------------------------------------------------------------ constructors

def _ints(interp, names, args, kwargs, defaults):
    vals = list(args)
    out = []
    for i, n in enumerate(names):
        if i < len(vals):
            v = vals[i]
        elif n in kwargs:
            v = kwargs[n]
        else:
            v = defaults[i]
        out.append(v)
    return out


def m_date(interp, *args, **kwargs):
    y, m, d = _ints(interp, ['year', 'month', 'day'], args, kwargs, [None, None, None])
    for v in (y, m, d):
        if not isinstance(v, (int, SInt)) or isinstance(v, bool):
            raise TypeError("an integer is required")
    if not interp.ctx.branch(date_ok(_t(y), _t(m), _t(d))):
        raise ValueError("date field out of range")
    return SymDate(y, m, d)


def m_time(interp, *args, **kwargs):
    h, mi, s, us, tz = _ints(interp, ['hour', 'minute', 'second', 'microsecond', 'tzinfo'], args, kwargs, [0, 0, 0, 0, None])
    for v in (h, mi, s, us):
        if not isinstance(v, (int, SInt)) or isinstance(v, bool):
            raise TypeError("an integer is required")
    if not interp.ctx.branch(time_ok(_t(h), _t(mi), _t(s), _t(us))):
        raise ValueError("time field out of range")
    return SymTime(h, mi, s, us, tz)


def m_datetime(interp, *args, **kwargs):
    y, m, d, h, mi, s, us, tz = _ints(interp, ['year', 'month', 'day', 'hour', 'minute', 'second', 'microsecond', 'tzinfo'],
                                      args, kwargs, [None, None, None, 0, 0, 0, 0, None])
    for v in (y, m, d, h, mi, s, us):
        if not isinstance(v, (int, SInt)) or isinstance(v, bool):
            raise TypeError("an integer is required")
    if not interp.ctx.branch(z3.And(date_ok(_t(y), _t(m), _t(d)), time_ok(_t(h), _t(mi), _t(s), _t(us)))):
        raise ValueError("datetime field out of range")
    return SymDateTime(y, m, d, h, mi, s, us, tz)


def m_timedelta(interp, *args, **kwargs):
    names = ['days', 'seconds', 'microseconds', 'milliseconds', 'minutes', 'hours', 'weeks']
    vals = dict(zip(names, args))
    vals.update(kwargs)
    scale = dict(days=86400000000, seconds=1000000, microseconds=1, milliseconds=1000, minutes=60000000,
                 hours=3600000000, weeks=7 * 86400000000)
    total = z3.IntVal(0)
    for k, v in vals.items():
        if k not in scale:
            raise TypeError("%r is an invalid keyword argument for timedelta" % k)
        if isinstance(v, float):
            if v != int(v):
                raise Unsupported("fractional float in timedelta()")
            v = int(v)
        total = total + _t(v) * scale[k]
    td = SymTimedelta.from_total_us(total)
    if not interp.ctx.branch(z3.And(_t(td.days) >= -999999999, _t(td.days) <= 999999999)):
        raise OverflowError("days out of range for timedelta")
    return td


def m_fixed_offset(interp, offset, _tzinfos=None):
    if isinstance(offset, int) and not isinstance(offset, bool):
        return pytz.FixedOffset(offset, _tzinfos) if _tzinfos is not None else pytz.FixedOffset(offset)
    ot = _t(offset)
    # pytz: offsets must be strictly between -1440 and 1440 minutes
    if not interp.ctx.branch(z3.And(ot > -1440, ot < 1440)):
        raise ValueError("absolute offset is too large")
    return SymTz(offset)


def m_strptime(interp, string, fmt):
    """time.strptime for the one format the carriers use, '%Y-%m-%d', on a token string."""
    if not isinstance(string, FmtStr):
        raise Unsupported("strptime on %r" % (string,))
    if fmt != '%Y-%m-%d':
        raise Unsupported("strptime format %r" % (fmt,))
    from .tokmatch import match_iso_date_exact
    f = match_iso_date_exact(interp, string)
    if f is None:
        raise ValueError("time data does not match format '%Y-%m-%d'")
    y, m, d = f
    if not interp.ctx.branch(z3.And(_t(y) >= 1, date_ok(_t(y), _t(m), _t(d)))):
        raise ValueError("time data does not match format '%Y-%m-%d'")
    return (y, m, d, 0, 0, 0, 0, 1, -1)


def model_getattr(interp, obj, name):
    from .interp import BoundModel
    f = getattr(type(obj), 'm_' + name, None)
    if f is not None:
        return BoundModel(interp, lambda i, o, *a, **k: f(o, i, *a, **k), obj, name)
    if name in obj.__dict__:
        return obj.__dict__[name]
    if name == '__class__':
        return obj.pytype
    if hasattr(obj.pytype, name):
        raise Unsupported("attribute %s of a symbolic %s" % (name, obj.pytype.__name__))
    raise AttributeError("%r object has no attribute %r" % (obj.pytype.__name__, name))


def td_neg(td):
    return SymTimedelta.from_total_us(-td.total_us())


def td_mul(td, k):
    return SymTimedelta.from_total_us(td.total_us() * _t(k))


def install(BUILTIN_MODELS):
    BUILTIN_MODELS[_dt.date] = m_date
    BUILTIN_MODELS[_dt.time] = m_time
    BUILTIN_MODELS[_dt.datetime] = m_datetime
    BUILTIN_MODELS[_dt.timedelta] = m_timedelta
    BUILTIN_MODELS[pytz.FixedOffset] = m_fixed_offset
    BUILTIN_MODELS[_time.strptime] = m_strptime
