"""bin/check: run all obligations of a property, write the evidence, print the verdict lines.

Exit codes: 0 every obligation discharged (open known findings are printed as KNOWN-FINDING lines);
1 a refuted obligation that known_findings.jsonl does not list (VIOLATION line); 2 nothing refuted
but something undecided; 3 checker crash / vacuous run / encoding disagreeing with CPython.
"""
import argparse
import glob
import importlib
import json
import multiprocessing
import os
import sys
import time

import logging
import warnings

ROOT = os.path.dirname(os.path.dirname(os.path.abspath(__file__)))
sys.path.insert(0, ROOT)
warnings.filterwarnings('ignore')
logging.disable(logging.CRITICAL)

from pyvc import oblig  # noqa: E402


def load_contracts(prop=None):
    mods = []
    for p in sorted(glob.glob(os.path.join(ROOT, 'contracts', 'c*.py'))):
        name = os.path.basename(p)[:-3]
        if prop is not None and not name.lower().startswith(prop.lower()):
            # a contract file may serve several properties: cNN_ prefix selects, 'shared_' always loads
            continue
        mods.append(importlib.import_module('contracts.' + name))
    return mods


# property -> obligation-id patterns ('prefix*suffix') of lemmas it relies on (primitive codec contracts: the value read is
# the value written, length guard included).  Only lemmas without known-finding regions are imported.
_CODEC_LEMMAS = ['C08.integer.*.roundtrip', 'C08.decimal.digit_restricted']
LEMMAS = {'C01': _CODEC_LEMMAS, 'C02': _CODEC_LEMMAS, 'C03': _CODEC_LEMMAS}


def load_known():
    """Open known findings: id -> entry.  'fixed:' entries suppress nothing."""
    out = {}
    p = os.path.join(ROOT, 'known_findings.jsonl')
    if os.path.exists(p):
        for line in open(p):
            line = line.strip()
            if not line or line.startswith('#'):
                continue
            e = json.loads(line)
            if e.get('status', 'open') == 'open':
                out[e['finding']] = e
    return out


def _worker(arg):
    ob_id, opts = arg
    try:
        return oblig.run_obligation(ob_id, opts)
    except BaseException as e:   # noqa
        import traceback
        return dict(id=ob_id, prop=ob_id.split('.')[0], clauses={}, undecided=[], refuted=[],
                    known_hits=[], crashes=["worker crashed: " + traceback.format_exc()[-1500:]],
                    paths=0, cut_paths=0, functions={}, samples=[], crosschecked=0, stats=dict(
                        queries=0, solver_s=0.0, z3=0, cvc5=0, structural=0), wall_s=0.0,
                    assumptions=[], bounded=None, kind='vc', desc='', targets=[])


def main(argv=None):
    ap = argparse.ArgumentParser()
    ap.add_argument('prop', nargs='?')
    ap.add_argument('--tier', default=os.environ.get('VERIF_TIER', 'quick'))
    ap.add_argument('--replay')
    ap.add_argument('--only', help='substring filter on obligation ids')
    ap.add_argument('--jobs', type=int, default=int(os.environ.get('VERIF_JOBS', '16')))
    ap.add_argument('--list', action='store_true')
    ap.add_argument('--update-ledger', action='store_true')
    ap.add_argument('-v', '--verbose', action='store_true')
    args = ap.parse_args(argv)
    seed = int(os.environ.get('VERIF_SEED', '0') or 0)

    if args.replay:
        return do_replay(args.replay)

    prop = args.prop
    t0 = time.time()
    load_contracts(prop)
    ids = sorted(i for i, o in oblig.REGISTRY.items() if o.prop == prop)
    # lemmas: contracts of callees that this property's contracts assume and that are discharged under another property's
    # id; they are discharged again here, so that a change breaking the callee's contract fails this check too
    for lp in sorted(set(x.split('.')[0] for x in LEMMAS.get(prop, ()))):
        load_contracts(lp)
    for i in sorted(oblig.REGISTRY):
        if i not in ids and any(i.startswith(pre) and i.endswith(suf) for pre, suf in
                                (tuple(x.split('*')) if '*' in x else (x, '') for x in LEMMAS.get(prop, ()))):
            ids.append(i)
    if args.only:
        ids = [i for i in ids if args.only in i]
    if args.list:
        for i in ids:
            print(i)
        return 0
    if not ids:
        print("no obligations registered for %s" % prop)
        return 3
    known_all = load_known()
    known = {k: v for k, v in known_all.items() if v['property'] == prop}
    thorough = args.tier == 'thorough'
    opts = dict(timeout_ms=60000 if thorough else 10000, known=known, seed=seed,
                xcheck_paths=40 if thorough else 6, tier=args.tier)
    ids_run = [i for i in ids if thorough or not oblig.REGISTRY[i].__dict__.get('thorough_only')]
    jobs = [(i, opts) for i in ids_run]
    if args.jobs > 1 and len(jobs) > 1:
        ctx = multiprocessing.get_context('fork')
        with ctx.Pool(min(args.jobs, len(jobs))) as pool:
            results = pool.map(_worker, jobs, chunksize=1)
    else:
        results = [_worker(j) for j in jobs]
    return report(prop, args, results, known, seed, time.time() - t0, ids)


def report(prop, args, results, known, seed, wall, all_ids):
    ledger_path = os.path.join(ROOT, 'contracts', 'LEDGER.json')
    ledger = json.load(open(ledger_path)) if os.path.exists(ledger_path) else {}
    n_obl = n_dis = 0
    violations = []
    undecided = []
    crashes = []
    known_lines = []
    known_seen = set()
    functions = {}
    backends = {}
    solver_s = 0.0
    samples = []
    bounded = []
    finite = []
    assumptions = set()
    generated = {}
    xchecks = 0
    paths = 0
    for r in results:
        solver_s += r['stats']['solver_s']
        xchecks += r.get('crosschecked', 0)
        paths += r.get('paths', 0)
        functions.update(r['functions'])
        for a in r.get('assumptions', []):
            assumptions.add(a)
        for c in r['crashes']:
            crashes.append("%s: %s" % (r['id'], c))
        for u in r['undecided']:
            undecided.append("%s: %s" % (r['id'], u))
        if r.get('kind') == 'finite':
            f = dict(id=r['id'], **r.get('finite', {}))
            finite.append(f)
        clause_ids = {}
        for lab, cl in sorted(r['clauses'].items()):
            cid = "%s#%s" % (r['id'], lab)
            clause_ids[lab] = cl['paths']
            if r.get('bounded'):
                bounded.append(dict(id=cid, bound=r['bounded'], paths=cl['paths'],
                                    all_paths_ok=cl['discharged'] == cl['paths']))
                continue
            n_obl += 1
            if cl['discharged'] == cl['paths'] and cl['paths'] > 0:
                n_dis += 1
            for b, k in cl['backend'].items():
                backends[b] = backends.get(b, 0) + k
        generated[r['id']] = clause_ids
        for s in r['samples']:
            if len(samples) < 8:
                samples.append(s)
        for h in r['known_hits']:
            e = known[h['finding']]
            if h['finding'] in known_seen:
                continue
            known_seen.add(h['finding'])
            known_lines.append("KNOWN-FINDING: property=%s %s [%s; obligation %s#%s; witness %s%s]" % (
                prop, e['what'], h['finding'], r['id'], h['clause'], json.dumps(h['values'], sort_keys=True),
                '' if h.get('native_confirmed') else '; native replay did not confirm'))
        for v in r['refuted']:
            violations.append((r, v))

    # ledger: every clause recorded for the pinned tree must be generated again
    if args.update_ledger:
        ledger.update(generated)
        for k in list(ledger):
            if k.split('.')[0] == prop and k not in generated and not args.only:
                del ledger[k]
        json.dump(ledger, open(ledger_path, 'w'), indent=1, sort_keys=True)
    else:
        for oid in all_ids:
            want = ledger.get(oid)
            if want is None:
                continue
            got = generated.get(oid)
            if got is None:
                continue
            missing = [w for w in want if w not in got]
            if missing and not any(x[0]['id'] == oid for x in violations):
                undecided.append("%s: clauses recorded in the ledger were not generated: %s" % (oid, missing))
            # the ledger also records on how many paths each clause was evaluated on the pinned tree: a clause that is
            # now evaluated on less than half of them has lost its coverage (e.g. a 'valid' request that is no longer
            # valid), which must not pass silently
            if isinstance(want, dict) and not any(x[0]['id'] == oid for x in violations):
                thin = ["%s (%d -> %d paths)" % (w, n, got.get(w, 0)) for w, n in want.items()
                        if w in got and n >= 4 and got[w] * 2 < n]
                if thin:
                    undecided.append("%s: clauses evaluated on far fewer paths than recorded in the ledger: %s" % (
                        oid, ', '.join(thin[:4])))

    os.makedirs(os.path.join(ROOT, 'evidence'), exist_ok=True)
    os.makedirs(os.path.join(ROOT, 'replay', prop), exist_ok=True)
    if not args.only:
        for fn in os.listdir(os.path.join(ROOT, 'replay', prop)):
            os.unlink(os.path.join(ROOT, 'replay', prop, fn))
    vlines = []
    seen_v = set()
    for r, v in violations:
        if (r['id'], v['clause']) in seen_v:
            continue
        seen_v.add((r['id'], v['clause']))
        safe = (r['id'] + '#' + v['clause']).replace('/', '_').replace(' ', '_').replace('#', '__')[:180]
        rp = os.path.join('replay', prop, safe + '.json')
        doc = dict(property=prop, obligation=r['id'], clause=v['clause'], values=v.get('values'),
                   choices=v.get('choices'), solver_model=v.get('model'), detail=v.get('detail'),
                   native_results=v.get('native_results'), native_trace=v.get('native_trace'),
                   symbolic_trace=v.get('trace'),
                   functions={k: f for k, f in r['functions'].items()},
                   confirmed_on_real_code=bool(v.get('confirmed')), desc=r.get('desc'), seed=seed, tier=args.tier)
        json.dump(doc, open(os.path.join(ROOT, rp), 'w'), indent=1, sort_keys=True, default=repr)
        tail = '' if v.get('confirmed') else ' no-failing-input-found'
        vlines.append("VIOLATION property=%s replay=%s%s" % (prop, rp, tail))

    if any(v.get('confirmed') for r, v in violations):
        status = 1
    elif crashes:
        status = 3
    elif vlines:
        status = 1
    elif undecided:
        status = 2
    else:
        status = 0
    # an undecided/crashed run must not claim proof in the evidence
    level = 'proof'
    try:
        for chk in json.load(open(os.path.join(ROOT, 'MANIFEST.json')))['checks']:
            if chk['property_id'] == prop:
                level = chk['level_claimed']['category']
    except Exception:
        pass
    ev = dict(
        property_id=prop, tier=args.tier if args.tier in ('quick', 'thorough') else 'quick', seed=seed,
        level=level,
        coverage=dict(
            obligations=n_obl, discharged=n_dis,
            checker_cmd="bin/check %s --tier %s" % (prop, args.tier),
            trusted_base=sorted(assumptions),
            functions_under_contract=sorted(functions.values(), key=lambda f: f['function']),
            back_end=backends, solver_time_s=round(solver_s, 3), symbolic_paths=paths,
            crosschecked_paths_on_cpython=xchecks,
            path_isolation=("every path and every native replay in a forked child of the worker process"
                            if all(r.get('isolated_paths', True) for r in results if r.get('kind') != 'finite')
                            else "off (PYVC_ISOLATE=0): paths of an obligation shared one process"),
            samples=samples, finite_lemmas=finite, bounded=bounded,
            undecided=undecided[:50], crashes=crashes[:20],
            known_findings_open=[k for k in known],
            exit_status=status,
            explanation="obligation = one named clause of one contract on one real function; discharged = every "
                        "symbolic path's VC (path condition => clause) unsat-checked by the back end named; "
                        "bounded stand-ins and finite lemmas are listed separately and not counted; structural "
                        "obligations (kind 'structural') are rule checks over the store / load / lock / iteration events of "
                        "every interpreted path of the real code rather than solver queries"),
        assumptions=sorted(assumptions),
        wall_s=round(wall, 2),
        violations=len(vlines))
    json.dump(ev, open(os.path.join(ROOT, 'evidence', prop + '.json'), 'w'), indent=1, sort_keys=True)

    print("%s tier=%s obligations=%d discharged=%d paths=%d xcheck=%d solver=%.2fs wall=%.1fs functions=%d" % (
        prop, args.tier, n_obl, n_dis, paths, xchecks, solver_s, wall, len(functions)))
    for l in sorted(set(known_lines)):
        print(l)
    if args.verbose:
        for r in results:
            print("  %-70s paths=%-4d clauses=%s %.2fs" % (r['id'], r['paths'], {
                k: "%d/%d" % (v['discharged'], v['paths']) for k, v in r['clauses'].items()}, r['wall_s']))
    for u in undecided[:30]:
        print("UNDECIDED %s" % u)
    for c in crashes[:30]:
        print("CHECKER-ERROR %s" % c)
    for l in vlines:
        print(l)
    return status


def do_replay(path):
    doc = json.load(open(path if os.path.isabs(path) else os.path.join(ROOT, path)))
    prop = doc['property']
    load_contracts(prop)
    ob = oblig.REGISTRY[doc['obligation']]
    choices = [tuple(c) for c in (doc.get('choices') or [])]
    oblig.Ctx.thorough = doc.get('tier') == 'thorough'
    oblig.Ctx.seed = doc.get('seed') or 0
    res, trace, err, hits = oblig.replay_concrete(ob, doc.get('values') or {}, choices)
    print("replay of %s#%s with inputs %s" % (doc['obligation'], doc['clause'], json.dumps(doc.get('values'))))
    failed = False
    for lab, ok, d in res:
        print("  clause %-40s %s %s" % (lab, 'holds' if ok else 'FAILS', '' if d is None else d))
        if lab == doc['clause'] and not ok:
            failed = True
    if err:
        print("  " + err)
    for ev in trace[:40]:
        print("  trace", ev)
    print("VIOLATION property=%s replay=%s" % (prop, path) if failed else "no failure reproduced")
    return 1 if failed else 0


if __name__ == '__main__':
    sys.exit(main())
