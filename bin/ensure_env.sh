#!/bin/sh
# Idempotent: build the overlay venv (python 3.12 + z3/cvc5 wheels + /venv site-packages via .pth).
# Offline only: everything comes from /opt/veriftools/wheels.
set -e
HERE="$(cd "$(dirname "$0")/.." && pwd)"
VENV="$HERE/.venv"
STAMP="$VENV/.ok"
if [ -f "$STAMP" ] && "$VENV/bin/python" -c "import z3, cvc5, jsonschema, spyne, lxml" >/dev/null 2>&1; then
    exit 0
fi
rm -rf "$VENV"
/venv/bin/python -m venv "$VENV" >/dev/null
PIP_NO_INDEX=1 "$VENV/bin/python" -m pip install -q --no-index --find-links /opt/veriftools/wheels \
    z3-solver cvc5 jsonschema >/dev/null
SP="$("$VENV/bin/python" -c 'import sysconfig; print(sysconfig.get_paths()["purelib"])')"
echo "import site; site.addsitedir('/venv/lib/python3.12/site-packages')" > "$SP/zz_repo_deps.pth"
"$VENV/bin/python" -c "import z3, cvc5, jsonschema, spyne, lxml, greenlet; assert spyne.__file__.startswith('/repo/'), spyne.__file__"
touch "$STAMP"
